"""Translator for C06: the literal data of the performance MIDI loader / saver that the Lean model would otherwise
copy by hand, read from the live source on every run -> lean/PartituraModel/Gen/C06Tables.lean.

* keyword defaults      `inspect.signature` of save_performance_midi (mpq, ppq, default_velocity, merge_tracks_save),
                        load_performance_midi (default_bpm, merge_tracks), load_performance (default_bpm, merge_tracks,
                        first_note_at_zero); the default tempo in microseconds per quarter is computed with the
                        loader's own expression `int(60 * (10**6 / default_bpm))`
* forced keywords       the call `load_performance_midi(...)` inside midi_to_notearray (ast, no execution)
* sort keys (round 6)   `ast`: the key tuple of the `.sort` of the loaded notes (the order of the ids) and whether the
                        sort stands after the `adjust_time` assignments (fixes/C06-8); the key of the `sorted(...)`
                        that orders the notes the saver writes
* note_hash             the live function on its whole domain (16 channels x 128 pitches): the two coefficients, whether
                        it is `channel * a + pitch * b` everywhere and whether it is injective there

The generator never raises (the shared translator must keep working for the other properties): whatever cannot be
read is emitted as a neutral value and `C06_EXTRACTION_OK` becomes `false` with the reasons in
`C06_EXTRACTION_NOTES`; `C06.tables_extracted` (Props/C06Tables.lean) then no longer builds.
"""
import ast
import inspect
import textwrap
import warnings


def _lstr(s):
    out = ['"']
    for ch in str(s):
        if ch == '"':
            out.append('\\"')
        elif ch == "\\":
            out.append("\\\\")
        elif ord(ch) < 32 or ord(ch) > 126:
            out.append("\\u{%x}" % ord(ch))
        else:
            out.append(ch)
    out.append('"')
    return "".join(out)


def _nat(notes, what, v):
    if isinstance(v, bool) or not isinstance(v, int) or v < 0:
        notes.append("%s is %r, not a natural number" % (what, v))
        return 0
    return int(v)


def _bool(notes, what, v):
    if v is None:
        return False  # `Optional[bool] = None` is falsy
    if not isinstance(v, bool):
        notes.append("%s is %r, not a bool" % (what, v))
        return False
    return v


def _default(notes, fn, name):
    try:
        p = inspect.signature(fn).parameters[name]
        if p.default is inspect.Parameter.empty:
            raise KeyError(name)
        return p.default
    except Exception as e:  # noqa
        notes.append("no default for %s of %s (%s)" % (name, getattr(fn, "__name__", fn), type(e).__name__))
        return None


def _mpq_of(notes, what, bpm):
    """the loader's own expression for the default tempo"""
    try:
        v = int(60 * (10**6 / bpm))
        if v <= 0:
            raise ValueError(v)
        return v
    except Exception as e:  # noqa
        notes.append("%s: int(60 * (10**6 / %r)) failed (%s)" % (what, bpm, type(e).__name__))
        return 0


def gen_c06():
    notes = []
    vals = {}
    with warnings.catch_warnings():
        warnings.simplefilter("ignore")
        try:
            import partitura.io as pio
            import partitura.io.exportmidi as ex
            import partitura.io.importmidi as im
        except Exception as e:  # noqa
            notes.append("import failed: %s" % type(e).__name__)
            pio = ex = im = None
        # ---- keyword defaults
        save = getattr(ex, "save_performance_midi", None)
        load = getattr(im, "load_performance_midi", None)
        lp = getattr(pio, "load_performance", None)
        nta = getattr(im, "midi_to_notearray", None)
        vals["SAVE_MPQ"] = _nat(notes, "mpq", _default(notes, save, "mpq"))
        vals["SAVE_PPQ"] = _nat(notes, "ppq", _default(notes, save, "ppq"))
        vals["SAVE_VELOCITY"] = _nat(notes, "default_velocity", _default(notes, save, "default_velocity"))
        vals["SAVE_MERGE"] = _bool(notes, "merge_tracks_save", _default(notes, save, "merge_tracks_save"))
        load_bpm = _default(notes, load, "default_bpm")
        vals["LOAD_MPQ"] = _mpq_of(notes, "load_performance_midi", load_bpm)
        vals["LOAD_MERGE"] = _bool(notes, "merge_tracks", _default(notes, load, "merge_tracks"))
        vals["LP_MPQ"] = _mpq_of(notes, "load_performance", _default(notes, lp, "default_bpm"))
        vals["LP_MERGE"] = _bool(notes, "load_performance merge_tracks", _default(notes, lp, "merge_tracks"))
        vals["LP_FNZ"] = _bool(notes, "first_note_at_zero", _default(notes, lp, "first_note_at_zero"))
        # ---- midi_to_notearray: the keywords it forces on load_performance_midi
        nta_merge, nta_bpm = vals["LOAD_MERGE"], load_bpm
        try:
            tree = ast.parse(textwrap.dedent(inspect.getsource(inspect.unwrap(nta))))
            calls = [n for n in ast.walk(tree) if isinstance(n, ast.Call)
                     and (getattr(n.func, "id", None) == "load_performance_midi" or getattr(n.func, "attr", None) == "load_performance_midi")]
            if len(calls) != 1:
                raise ValueError("%d calls" % len(calls))
            for k in calls[0].keywords:
                if k.arg == "merge_tracks":
                    nta_merge = _bool(notes, "midi_to_notearray merge_tracks", ast.literal_eval(k.value))
                elif k.arg == "default_bpm":
                    nta_bpm = ast.literal_eval(k.value)
            if len(calls[0].args) > 1:
                notes.append("midi_to_notearray passes positional options")
        except Exception as e:  # noqa
            notes.append("midi_to_notearray: call of load_performance_midi not readable (%s)" % type(e).__name__)
        vals["NTA_MERGE"] = nta_merge
        vals["NTA_MPQ"] = _mpq_of(notes, "midi_to_notearray", nta_bpm)
        # ---- note_hash on its whole domain
        a = b = 0
        linear = injective = False
        try:
            h = im.note_hash
            a, b = int(h(1, 0)) - int(h(0, 0)), int(h(0, 1)) - int(h(0, 0))
            table = {(c, p): int(h(c, p)) for c in range(16) for p in range(128)}
            linear = int(h(0, 0)) == 0 and a >= 0 and b >= 0 and all(v == c * a + p * b for (c, p), v in table.items())
            injective = len(set(table.values())) == len(table)
            if not linear:
                notes.append("note_hash is not channel * a + pitch * b")
            if not injective:
                notes.append("note_hash is not injective on 16 channels x 128 pitches")
        except Exception as e:  # noqa
            notes.append("note_hash not callable (%s)" % type(e).__name__)
        vals["HASH_CH"] = max(a, 0)
        vals["HASH_PITCH"] = max(b, 0)
        vals["HASH_LINEAR"] = linear
        vals["HASH_INJECTIVE"] = injective

        # ---- round 6: the sort keys (ast, no execution).  Loader: the key of the `.sort` that fixes the order - and so
        # the ids - of the notes, and whether that sort stands AFTER the assignment of the final `adjust_time` seconds
        # (fixes/C06-8).  Saver: the key of the `sorted(...)` that fixes the order in which the notes are written.
        def _key_fields(call):
            for k in call.keywords:
                if k.arg == "key" and isinstance(k.value, ast.Lambda) and isinstance(k.value.body, ast.Tuple):
                    arg = k.value.args.args[0].arg
                    fs = []
                    for el in k.value.body.elts:
                        if (isinstance(el, ast.Subscript) and isinstance(el.value, ast.Name) and el.value.id == arg
                                and isinstance(el.slice, ast.Constant) and isinstance(el.slice.value, str)):
                            fs.append(el.slice.value)
                        else:
                            return None
                    return fs
            return None

        sort_key, sort_after, write_key = [], False, []
        try:
            tree = ast.parse(textwrap.dedent(inspect.getsource(inspect.unwrap(load))))
            sorts = [n for n in ast.walk(tree) if isinstance(n, ast.Call) and isinstance(n.func, ast.Attribute)
                     and n.func.attr == "sort" and "notes" in ast.unparse(n.func.value)]
            if len(sorts) != 1 or _key_fields(sorts[0]) is None:
                raise ValueError("%d sorts of the notes" % len(sorts))
            sort_key = _key_fields(sorts[0])
            finals = [n.lineno for n in ast.walk(tree) if isinstance(n, ast.Assign) and isinstance(n.value, ast.Call)
                      and getattr(n.value.func, "id", getattr(n.value.func, "attr", None)) == "adjust_time"
                      and any(isinstance(t, ast.Subscript) and isinstance(t.slice, ast.Constant)
                              and t.slice.value in ("note_on", "note_off") for t in n.targets)]
            if not finals:
                raise ValueError("no adjust_time assignment")
            sort_after = sorts[0].lineno > max(finals)
        except Exception as e:  # noqa
            notes.append("load_performance_midi: the sort of the notes is not readable (%s)" % type(e).__name__)
        try:
            tree = ast.parse(textwrap.dedent(inspect.getsource(inspect.unwrap(save))))
            sorts = [n for n in ast.walk(tree) if isinstance(n, ast.Call) and getattr(n.func, "id", None) == "sorted"
                     and n.args and "notes" in ast.unparse(n.args[0])]
            if len(sorts) != 1 or _key_fields(sorts[0]) is None:
                raise ValueError("%d sorted(notes)" % len(sorts))
            write_key = _key_fields(sorts[0])
        except Exception as e:  # noqa
            notes.append("save_performance_midi: the order in which the notes are written is not readable (%s)" % type(e).__name__)

    out = []
    w = out.append
    w("-- GENERATED by harness/translate_c06.py from partitura/io/exportmidi.py, importmidi.py, io/__init__.py — do not edit")
    w("namespace Gen")
    w("")
    for k in ("SAVE_MPQ", "SAVE_PPQ", "SAVE_VELOCITY", "LOAD_MPQ", "LP_MPQ", "NTA_MPQ", "HASH_CH", "HASH_PITCH"):
        w("def C06_%s : Nat := %d" % (k, vals[k]))
    for k in ("SAVE_MERGE", "LOAD_MERGE", "LP_MERGE", "LP_FNZ", "NTA_MERGE", "HASH_LINEAR", "HASH_INJECTIVE"):
        w("def C06_%s : Bool := %s" % (k, "true" if vals[k] else "false"))
    w("def C06_SORT_KEY : List String := [%s]" % ", ".join(_lstr(f) for f in sort_key))
    w("def C06_SORT_AFTER_ADJUST : Bool := %s" % ("true" if sort_after else "false"))
    w("def C06_WRITE_KEY : List String := [%s]" % ", ".join(_lstr(f) for f in write_key))
    w("")
    w("def C06_EXTRACTION_OK : Bool := %s" % ("true" if not notes else "false"))
    w("def C06_EXTRACTION_NOTES : List String := [%s]" % ", ".join(_lstr(n) for n in notes))
    w("")
    w("end Gen")
    return "\n".join(out) + "\n"


GENERATORS = {"C06Tables.lean": gen_c06}

if __name__ == "__main__":
    print(gen_c06())
