"""Translator for C09 (round 5): the small literals and the argument dispatch of the unfold entry points, read off the
LIVE code -> lean/PartituraModel/Gen/C09Lits.lean.

Everything is obtained by CALLING the live functions on probe inputs or by `inspect.signature` - nothing depends on local
names, on how a literal is written, on helper functions or on the order of independent statements, so a harmless
refactoring regenerates the same file:

* DROPPED / KEPT      classes whose instance (one of each, in a one-bar part, unfolded along the single segment by
                      ScoreVariant.create_variant_part) does not / does reach the unfolded part
* ID_SEP / ID_FIRST   `update_note_ids_after_unfolding` on two notes with the same id 'x' at times 0 and 2: the ids become
                      'x' + ID_SEP + str(ID_FIRST), 'x' + ID_SEP + str(ID_FIRST + 1)
* ID_SHAPES_OK        the same on ids of every shape ('m3-2', 'a', 'a-1', 'a-1-1', '7', '-', 'n-', '-5', 'x--2', 'n-01'): each gets
                      exactly ID_SEP + str(ID_FIRST) appended;  ID_NONE_KEPT: a note whose id is None keeps None
* ID_RANK_BY_ONSET    two notes with the same id, the later one registered first: the earlier onset gets ID_FIRST
* SEG_ID_BASE / END   `add_segments` on a part with one repeat: the code point of the first segment's id, the id string of
                      the end marker (as code points)
* defaults            inspect.signature of unfold_part_maximal, iter_unfolded_parts, new_part_from_path, get_paths
* calls               the (no_repeats, all_repeats, ignore_leap_info) that reach `get_paths` and the update_ids that reaches
                      `new_part_from_path` from every entry point, recorded for both values of the caller's arguments
                      (`Src.const b` when the value does not depend on them, `Src.ignoreLeaps` / `Src.updateIds` when it follows
                      one of them), through the Part and the Score branch; the index of the path the entry point unfolds

The generator never raises; what cannot be read is emitted as a neutral value, `OK` becomes false with the reasons in
`NOTES`, and `C09.lits_extracted` (Props/C09Entry.lean) no longer builds.
"""
import warnings


def _lstr(s):
    return '"' + "".join(ch if 32 <= ord(ch) < 127 and ch not in '"\\' else " " for ch in str(s)) + '"'


def _lbool(b):
    return "true" if b else "false"


def _llist(items):
    return "[" + ", ".join(items) + "]"


def _tiny(S, ids=("x",), repeat=False):
    p = S.Part("P0", quarter_duration=1)
    p.add(S.TimeSignature(4, 4), 0)
    p.add(S.Measure(number=1), 0, 4)
    p.add(S.Measure(number=2), 4, 8)
    for k, i in enumerate(ids):
        p.add(S.Note(id=i, step="C", octave=4, voice=1, staff=1), 2 * k, 2 * k + 2)
    if repeat:
        p.add(S.Repeat(), 0, 4)
    return p


# (class name, constructor keyword arguments, needs an end) for the dropped / kept probe
PROBE_CLASSES = [
    ("Repeat", {}, True), ("Ending", {"number": "1"}, True), ("ToCoda", {}, False), ("DaCapo", {}, False), ("DalSegno", {}, False),
    ("Segment", {"id": "A", "to": [], "await_to": []}, True), ("System", {"number": 1}, False), ("Page", {"number": 1}, False),
    ("Fine", {}, False), ("Segno", {}, False), ("Coda", {}, False), ("Measure", {"number": 7}, True), ("Barline", {"style": "light-heavy"}, False),
    ("Fermata", {}, False), ("Tempo", {"bpm": 100}, False), ("Words", {"text": "w"}, False), ("Rest", {"id": "r"}, True),
    ("KeySignature", {"fifths": 2, "mode": "major"}, False), ("Clef", {"staff": 1, "sign": "G", "line": 2, "octave_change": 0}, False),
    ("Note", None, True), ("TimeSignature", None, False),  # (None: the probe part has one already)
]


def _src(name, f, errs):
    """classify f(upd, il) -> bool over the four argument combinations"""
    try:
        tab = {(u, i): bool(f(u, i)) for u in (False, True) for i in (False, True)}
    except Exception as e:  # noqa
        errs.append("%s: %s: %s" % (name, type(e).__name__, str(e)[:80]))
        return "Src.const false"
    vals = set(tab.values())
    if len(vals) == 1:
        return "Src.const %s" % _lbool(vals.pop())
    if all(tab[(u, i)] == i for u, i in tab):
        return "Src.ignoreLeaps"
    if all(tab[(u, i)] == u for u, i in tab):
        return "Src.updateIds"
    errs.append("%s: depends on the arguments in another way: %r" % (name, sorted(tab.items())))
    return "Src.const false"


def gen_c09lits():
    errs = []
    v = dict(DROPPED=[], KEPT=[], ID_SEP="", ID_FIRST=0, ID_SHAPES_OK=False, ID_NONE_KEPT=False, ID_RANK_BY_ONSET=False,
             SEG_ID_BASE=0, END=[], MAX_DEF=(False, False), ITER_DEF=False, NEWPART_DEF=False, PATHS_DEF=(False, False, False))
    calls = {}
    picks = {}
    try:
        import inspect
        import partitura.score as S
        import partitura.utils.music as M

        with warnings.catch_warnings():
            warnings.simplefilter("ignore")
            # ---- dropped / kept classes
            for name, kw, needs_end in PROBE_CLASSES:
                try:
                    p = _tiny(S)
                    cls = getattr(S, name)
                    if kw is not None:
                        p.add(cls(**kw), 0, 4 if needs_end else None)
                    sv = S.ScoreVariant(p)
                    sv.add_segment(p.get_point(0), p.get_point(4))
                    u = sv.create_variant_part()
                    there = any(type(o) is cls for o in u.iter_all(cls))
                    (v["KEPT"] if there else v["DROPPED"]).append(name)
                except Exception as e:  # noqa
                    errs.append("probe %s: %s: %s" % (name, type(e).__name__, str(e)[:80]))
            # ---- id format
            try:
                p = _tiny(S, ids=("x", "x"))
                M.update_note_ids_after_unfolding(p)
                a, b = [n.id for n in p.notes]
                if a.startswith("x") and b.startswith("x"):
                    ra, rb = a[1:], b[1:]
                    k = len(ra)
                    while k > 0 and ra[k - 1].isdigit():
                        k -= 1
                    v["ID_SEP"] = ra[:k]
                    v["ID_FIRST"] = int(ra[k:])
                    if rb != v["ID_SEP"] + str(v["ID_FIRST"] + 1):
                        errs.append("ids: second occurrence got %r" % b)
                else:
                    errs.append("ids: %r %r do not start with the original id" % (a, b))
                shapes = ["m3-2", "a", "a-1", "a-1-1", "7", "-", "n-", "-5", "x--2", "n-01", "n-0", "note-0000123"]
                ok = True
                for s_ in shapes:
                    p = _tiny(S, ids=(s_,))
                    M.update_note_ids_after_unfolding(p)
                    ok = ok and [n.id for n in p.notes] == [s_ + v["ID_SEP"] + str(v["ID_FIRST"])]
                p = _tiny(S, ids=tuple(shapes[:4]))
                M.update_note_ids_after_unfolding(p)
                ok = ok and [n.id for n in p.notes] == [s_ + v["ID_SEP"] + str(v["ID_FIRST"]) for s_ in shapes[:4]]
                v["ID_SHAPES_OK"] = ok
                p = _tiny(S, ids=(None, "y"))
                M.update_note_ids_after_unfolding(p)
                v["ID_NONE_KEPT"] = [n.id for n in p.notes][0] is None
                p = S.Part("P0", quarter_duration=1)
                late, early = S.Note(id="x", step="C", octave=4), S.Note(id="x", step="D", octave=4)
                p.add(late, 2, 4)
                p.add(early, 0, 2)
                M.update_note_ids_after_unfolding(p)
                v["ID_RANK_BY_ONSET"] = (early.id, late.id) == ("x" + v["ID_SEP"] + str(v["ID_FIRST"]), "x" + v["ID_SEP"] + str(v["ID_FIRST"] + 1))
            except Exception as e:  # noqa
                errs.append("ids: %s: %s" % (type(e).__name__, str(e)[:80]))
            # ---- segment ids
            try:
                p = _tiny(S, repeat=True)
                S.add_segments(p)
                segs = list(p.iter_all(S.Segment))
                v["SEG_ID_BASE"] = ord(segs[0].id)
                if [s.id for s in segs] != [chr(v["SEG_ID_BASE"] + i) for i in range(len(segs))]:
                    errs.append("segment ids are %r" % [s.id for s in segs])
                other = [d for s in segs for d in list(s.to) + list(s.await_to) if d not in set(x.id for x in segs)]
                v["END"] = [ord(c) for c in other[0]] if other else []
            except Exception as e:  # noqa
                errs.append("segments: %s: %s" % (type(e).__name__, str(e)[:80]))
            # ---- defaults
            def default(f, name):
                try:
                    d = inspect.signature(f).parameters[name].default
                    if d is inspect.Parameter.empty:
                        raise ValueError("no default")
                    return bool(d)
                except Exception as e:  # noqa
                    errs.append("default %s.%s: %s" % (getattr(f, "__name__", "?"), name, e))
                    return False
            v["MAX_DEF"] = (default(S.unfold_part_maximal, "update_ids"), default(S.unfold_part_maximal, "ignore_leaps"))
            v["ITER_DEF"] = default(S.iter_unfolded_parts, "update_ids")
            v["NEWPART_DEF"] = default(S.new_part_from_path, "update_ids")
            v["PATHS_DEF"] = (default(S.get_paths, "no_repeats"), default(S.get_paths, "all_repeats"), default(S.get_paths, "ignore_leap_info"))
            # ---- what reaches get_paths / new_part_from_path from the entry points
            real_gp, real_np = S.get_paths, S.new_part_from_path
            sig_gp, sig_np = inspect.signature(real_gp), inspect.signature(real_np)
            rec = {}

            def gp(*a, **kw):
                ba = sig_gp.bind(*a, **kw)
                ba.apply_defaults()
                r = real_gp(*a, **kw)
                rec["gp"] = (bool(ba.arguments["no_repeats"]), bool(ba.arguments["all_repeats"]), bool(ba.arguments["ignore_leap_info"]))
                rec["paths"] = r
                return r

            def npf(*a, **kw):
                ba = sig_np.bind(*a, **kw)
                ba.apply_defaults()
                rec["upd"] = bool(ba.arguments["update_ids"])
                ps = rec.get("paths") or []
                rec.setdefault("pick", []).append(next((k for k, q in enumerate(ps) if q is ba.arguments["path"]), -1))
                return real_np(*a, **kw)

            def observe(run):
                def f(u, i):
                    rec.clear()
                    S.get_paths, S.new_part_from_path = gp, npf
                    try:
                        run(u, i)
                    finally:
                        S.get_paths, S.new_part_from_path = real_gp, real_np
                    return dict(rec)
                return f

            entries = {
                "maximal": observe(lambda u, i: S.unfold_part_maximal(_tiny(S, repeat=True), update_ids=u, ignore_leaps=i)),
                "maximalScore": observe(lambda u, i: S.unfold_part_maximal(S.Score([_tiny(S, repeat=True)], id="s"), update_ids=u, ignore_leaps=i)),
                "minimal": observe(lambda u, i: S.unfold_part_minimal(_tiny(S, repeat=True))),
                "minimalScore": observe(lambda u, i: S.unfold_part_minimal(S.Score([_tiny(S, repeat=True)], id="s"))),
                "iter": observe(lambda u, i: list(S.iter_unfolded_parts(_tiny(S, repeat=True), update_ids=u))),
            }
            for name, ob in entries.items():
                calls[name] = (
                    _src(name + ".no_repeats", lambda u, i: ob(u, i)["gp"][0], errs),
                    _src(name + ".all_repeats", lambda u, i: ob(u, i)["gp"][1], errs),
                    _src(name + ".ignore_leap_info", lambda u, i: ob(u, i)["gp"][2], errs),
                    _src(name + ".update_ids", lambda u, i: ob(u, i)["upd"], errs))
                try:
                    picks[name] = ob(True, True).get("pick", [])
                except Exception as e:  # noqa
                    errs.append("%s: %s" % (name, e))
                    picks[name] = []
            ob = observe(lambda u, i: S.make_score_variants(_tiny(S, repeat=True)))
            calls["variants"] = (
                _src("variants.no_repeats", lambda u, i: ob(u, i)["gp"][0], errs),
                _src("variants.all_repeats", lambda u, i: ob(u, i)["gp"][1], errs),
                _src("variants.ignore_leap_info", lambda u, i: ob(u, i)["gp"][2], errs),
                "Src.const false")
    except Exception as e:  # noqa
        errs.append("%s: %s" % (type(e).__name__, str(e)[:120]))
    for name in ("maximal", "maximalScore", "minimal", "minimalScore", "iter", "variants"):
        calls.setdefault(name, ("Src.const false",) * 4)
        picks.setdefault(name, [])
    out = []
    w = out.append
    w("-- GENERATED by harness/translate_c09.py from the live partitura code. DO NOT EDIT.")
    w("namespace Gen.C09\n")
    w("/-- where an argument that reaches `get_paths` / `new_part_from_path` comes from -/")
    w("inductive Src where\n  | const (b : Bool)\n  | ignoreLeaps\n  | updateIds\n  deriving DecidableEq, Repr\n")
    w("def OK : Bool := %s" % _lbool(not errs))
    w("def NOTES : List String := %s\n" % _llist([_lstr(e) for e in errs]))
    w("/-- probed classes whose instance does not reach the unfolded part -/")
    w("def DROPPED : List String := %s" % _llist([_lstr(x) for x in v["DROPPED"]]))
    w("/-- probed classes whose instance is copied -/")
    w("def KEPT : List String := %s\n" % _llist([_lstr(x) for x in v["KEPT"]]))
    w("def ID_SEP : String := %s" % _lstr(v["ID_SEP"]))
    w("def ID_FIRST : Nat := %d" % v["ID_FIRST"])
    w("def ID_SHAPES_OK : Bool := %s" % _lbool(v["ID_SHAPES_OK"]))
    w("def ID_NONE_KEPT : Bool := %s" % _lbool(v["ID_NONE_KEPT"]))
    w("def ID_RANK_BY_ONSET : Bool := %s\n" % _lbool(v["ID_RANK_BY_ONSET"]))
    w("def SEG_ID_BASE : Nat := %d" % v["SEG_ID_BASE"])
    w("def END : List Nat := %s\n" % _llist(["%d" % c for c in v["END"]]))
    w("/-- (update_ids, ignore_leaps) of unfold_part_maximal -/")
    w("def MAX_DEF : Bool × Bool := (%s, %s)" % tuple(_lbool(x) for x in v["MAX_DEF"]))
    w("/-- update_ids of iter_unfolded_parts / new_part_from_path -/")
    w("def ITER_DEF : Bool := %s" % _lbool(v["ITER_DEF"]))
    w("def NEWPART_DEF : Bool := %s" % _lbool(v["NEWPART_DEF"]))
    w("/-- (no_repeats, all_repeats, ignore_leap_info) of get_paths -/")
    w("def PATHS_DEF : Bool × Bool × Bool := (%s, %s, %s)\n" % tuple(_lbool(x) for x in v["PATHS_DEF"]))
    w("/-- per entry point: (no_repeats, all_repeats, ignore_leap_info) reaching get_paths, update_ids reaching new_part_from_path -/")
    for name in ("maximal", "maximalScore", "minimal", "minimalScore", "iter", "variants"):
        w("def %sCall : Src × Src × Src × Src := (%s, %s, %s, %s)" % ((name,) + tuple(calls[name])))
    w("")
    w("/-- indices (in the list get_paths returned) of the paths the entry point unfolds on a part with one repeat (two paths for `iter`) -/")
    for name in ("maximal", "maximalScore", "minimal", "minimalScore", "iter"):
        w("def %sPick : List Int := %s" % (name, _llist(["(%d)" % k if k < 0 else "%d" % k for k in picks[name]])))
    w("\nend Gen.C09")
    return "\n".join(out) + "\n"


# ---------------------------------------------------------------------------------------------- round 6: unfold_part_alignment
ALIGN_PROBED = ["match", "deletion", "insertion", "ornament", "trill", "", "Match", "DELETION"]


def gen_c09align():
    """Gen/C09Align.lean: what `unfold_part_alignment` reads from / writes to its `alignment` argument, by CALLING it.

    * ALIGN_LABELS        the probed labels whose entry contributes its score_id to the ids the variants are judged by: a
                          one-entry alignment of that label makes the call succeed; with a label that does not count there
                          is no id at all, the coverage is the mean of nothing and the call fails
    * ALIGN_KEYERROR      an entry of a counted label WITHOUT "score_id" makes the call fail; ALIGN_OTHER_NOKEY_OK: an entry
                          of another label without the key does not
    * ALIGN_SUFFIX        what the call appends to every "score_id" of the caller's alignment (probe id 'x')
    * ALIGN_MARK_IS_SUFFIX the rewriting is suppressed exactly when some score_id CONTAINS that suffix (probes 'x-1', '-1x',
                          'a-1b' suppress; 'x-', 'x1', '1-', 'x-2' do not), one such entry suppresses it for all entries
    * ALIGN_REWRITE_ALL   entries of labels that do not count are rewritten too when they carry a score_id; entries without
                          the key stay without it
    * ALIGN_NO_REWRITE_ON_ERROR  when the call fails the alignment is left as it was
    """
    errs = []
    v = dict(LABELS=[], KEYERROR=False, OTHER_NOKEY_OK=False, SUFFIX="", MARK=False, ALL=False, NOERR=False)
    try:
        import copy
        import partitura.score as S
        with warnings.catch_warnings():
            warnings.simplefilter("ignore")

            def run(al):
                al = copy.deepcopy(al)
                try:
                    S.unfold_part_alignment(_tiny(S, ids=("x", "y"), repeat=True), al)
                    return True, al
                except Exception:  # noqa
                    return False, al
            base = {"label": "match", "score_id": "x-2"}
            if not run([base])[0]:
                errs.append("the base probe (one match) fails")
            for lb in ALIGN_PROBED:
                ok, _ = run([{"label": lb, "score_id": "x-2"}])
                if ok:
                    v["LABELS"].append(lb)
            counted = v["LABELS"][0] if v["LABELS"] else "match"
            other = next((lb for lb in ALIGN_PROBED if lb not in v["LABELS"]), "insertion")
            v["KEYERROR"] = not run([base, {"label": counted}])[0]
            v["OTHER_NOKEY_OK"] = run([base, {"label": other, "performance_id": "p"}])[0]
            ok, al = run([{"label": counted, "score_id": "x"}])
            if ok and al[0]["score_id"].startswith("x"):
                v["SUFFIX"] = al[0]["score_id"][1:]
            else:
                errs.append("suffix probe: %r %r" % (ok, al))
            sfx = v["SUFFIX"]
            mark = bool(sfx)
            for sid, suppressed in (("x" + sfx, True), (sfx + "x", True), ("a" + sfx + "b", True), ("x" + sfx[:-1], False),
                                    ("x" + sfx[1:], False), (sfx[::-1] if sfx[::-1] != sfx else "q", False), ("x-2", False)):
                ok, al = run([{"label": counted, "score_id": sid}, {"label": counted, "score_id": "y"}])
                got = [e["score_id"] for e in al]
                want = [sid, "y"] if suppressed else [sid + sfx, "y" + sfx]
                if not ok or got != want:
                    mark = False
                    errs.append("mark probe %r: %r" % (sid, got))
            v["MARK"] = mark
            ok, al = run([{"label": counted, "score_id": "x"}, {"label": other, "score_id": "q"}, {"label": other, "performance_id": "p"}])
            v["ALL"] = ok and al[1].get("score_id") == "q" + sfx and "score_id" not in al[2] and al[2].get("performance_id") == "p" \
                and [e["label"] for e in al] == [counted, other, other]
            ok, al = run([{"label": other, "score_id": "x"}])
            v["NOERR"] = (not ok) and al[0]["score_id"] == "x"
    except Exception as e:  # noqa
        errs.append("%s: %s" % (type(e).__name__, str(e)[:120]))
    out = []
    w = out.append
    w("-- GENERATED by harness/translate_c09.py (gen_c09align) by calling the live unfold_part_alignment. DO NOT EDIT.")
    w("namespace Gen.C09\n")
    w("def ALIGN_OK : Bool := %s" % _lbool(not errs))
    w("def ALIGN_NOTES : List String := %s\n" % _llist([_lstr(e) for e in errs]))
    w("/-- the labels probed -/")
    w("def ALIGN_PROBED : List String := %s" % _llist([_lstr(x) for x in ALIGN_PROBED]))
    w("/-- … of which these make an entry count (its score_id is one of the ids the variants are judged by) -/")
    w("def ALIGN_LABELS : List String := %s" % _llist([_lstr(x) for x in v["LABELS"]]))
    w("def ALIGN_KEYERROR : Bool := %s" % _lbool(v["KEYERROR"]))
    w("def ALIGN_OTHER_NOKEY_OK : Bool := %s" % _lbool(v["OTHER_NOKEY_OK"]))
    w("/-- appended to every score_id of the caller's alignment unless some score_id contains it -/")
    w("def ALIGN_SUFFIX : String := %s" % _lstr(v["SUFFIX"]))
    w("def ALIGN_MARK_IS_SUFFIX : Bool := %s" % _lbool(v["MARK"]))
    w("def ALIGN_REWRITE_ALL : Bool := %s" % _lbool(v["ALL"]))
    w("def ALIGN_NO_REWRITE_ON_ERROR : Bool := %s" % _lbool(v["NOERR"]))
    w("\nend Gen.C09")
    return "\n".join(out) + "\n"


GENERATORS = {"C09Lits.lean": gen_c09lits, "C09Align.lean": gen_c09align}

if __name__ == "__main__":
    print(gen_c09lits())
    print(gen_c09align())
