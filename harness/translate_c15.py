"""Translator for C15: the class tuples and constants of `partitura.score.merge_parts`
-> lean/PartituraModel/Gen/C15Tables.lean.

The LIVE source of `merge_parts` is parsed (ast) and a small part of it is interpreted symbolically, once per
reassign mode (`reassign` bound to the mode, every `if` whose test only mentions `reassign` is decided, the
other `if`s are descended into on both sides):

  reassignValues   the list in `if reassign not in [...]: raise`
  discard<Mode>    the class tuple `X` of the element filter `p_ind == 0 or not isinstance(e, X)` in force in that mode
                   (the element loop is the `for` whose body is that filtered block, however its iterable is written)
  voiceGuard<Mode> the classes whose instances get `e.voice = ...` in the element loop ([] = voices untouched)
  staffGuard<Mode> the classes whose instances get `e.staff = ...` in the element loop ([] = staves untouched)
  voiceSource      the class whose instances define `unique_voices` (iter_all(<cls>, include_subclasses=True))
  staffSource      the class tuple that defines `unique_staves` (`for cls in <tuple>`)
  voicesPerStaff   the constant k of `n_previous_staves * k` in the voice mapping of auto mode
  docStructural    the TimedObject class names of the description part of the docstring (before "Parameters")

Names are resolved through the assignments that are live in the mode (a local may be renamed freely).  When the
source no longer has the expected form the tables are emitted empty with `extractionOk := false`, so that only the
C15 table theorems stop building (the shared translator keeps working for the other properties).
"""
import ast
import inspect
import re
import textwrap

MODES = ("voice", "staff", "auto")


class Unexpected(Exception):
    pass


def _only_names(node, allowed):
    return all(n.id in allowed for n in ast.walk(node) if isinstance(n, ast.Name))


def _names_of(node, env):
    """a Name or a tuple/list of Names -> list of class names (locals resolved through env)"""
    if isinstance(node, ast.Name):
        if node.id in env:
            return list(env[node.id])
        return [node.id]
    if isinstance(node, (ast.Tuple, ast.List)):
        out = []
        for el in node.elts:
            out += _names_of(el, env)
        return out
    raise Unexpected("class tuple expected, found %s" % ast.dump(node)[:80])


def _is_class_tuple(node):
    return isinstance(node, (ast.Tuple, ast.List)) and len(node.elts) > 0 and all(
        isinstance(e, ast.Name) and e.id[:1].isupper() for e in node.elts)


def _isinstance_of_e(test, evar):
    """`isinstance(<evar>, X)` -> X"""
    if (isinstance(test, ast.Call) and isinstance(test.func, ast.Name) and test.func.id == "isinstance"
            and len(test.args) == 2 and isinstance(test.args[0], ast.Name) and test.args[0].id == evar):
        return test.args[1]
    return None


class Interp:
    def __init__(self, fn, mode):
        self.fn = fn
        self.mode = mode
        self.arg = fn.args.args[1].arg  # the name of the `reassign` parameter
        self.env = {}                   # local -> tuple of class names
        self.defs = {}                  # local -> value expression (last assignment live in this mode)
        self.loop = None                # the element loop `for e in p.iter_all()`
        self.values = None              # accepted reassign values

    def decide(self, test):
        if not _only_names(test, {self.arg}):
            return None
        return bool(eval(compile(ast.Expression(test), "<merge_parts>", "eval"), {"__builtins__": {}}, {self.arg: self.mode}))

    def walk(self, stmts):
        for s in stmts:
            if isinstance(s, ast.If):
                d = self.decide(s.test)
                if (isinstance(s.test, ast.Compare) and len(s.test.ops) == 1 and isinstance(s.test.ops[0], ast.NotIn)
                        and any(isinstance(x, ast.Raise) for x in s.body)):
                    self.values = [c.value for c in s.test.comparators[0].elts]
                if d is None:
                    self.walk(s.body)
                    self.walk(s.orelse)
                elif d:
                    self.walk(s.body)
                else:
                    self.walk(s.orelse)
            elif isinstance(s, ast.Assign) and len(s.targets) == 1 and isinstance(s.targets[0], ast.Name):
                name = s.targets[0].id
                self.defs[name] = s.value
                if _is_class_tuple(s.value):
                    self.env[name] = _names_of(s.value, self.env)
                else:
                    self.env.pop(name, None)
            elif isinstance(s, ast.For):
                # the element loop: `for e in <the elements of p>:` whose body is the filtered block
                # `if <index> == 0 or not isinstance(e, X): ...` (however the iterable is written)
                if isinstance(s.target, ast.Name) and self._filter(s) is not None:
                    if self.loop is not None:
                        raise Unexpected("two element loops")
                    self.loop = s
                else:
                    self.walk(s.body)
            elif isinstance(s, (ast.With, ast.Try)):
                raise Unexpected("unexpected statement %s" % type(s).__name__)

    # ---- the element loop
    @staticmethod
    def _filter(loop):
        """(block, X) when the body of `loop` is `if <index> == 0 or not isinstance(<target>, X): block`"""
        evar = loop.target.id
        body = [s for s in loop.body if not (isinstance(s, ast.Expr) and isinstance(s.value, ast.Constant))]
        if len(body) != 1 or not isinstance(body[0], ast.If) or body[0].orelse:
            return None
        test = body[0].test
        if not (isinstance(test, ast.BoolOp) and isinstance(test.op, ast.Or) and len(test.values) == 2):
            return None
        a, b = test.values
        if not (isinstance(a, ast.Compare) and len(a.ops) == 1 and isinstance(a.ops[0], ast.Eq)
                and isinstance(a.comparators[0], ast.Constant) and a.comparators[0].value == 0
                and isinstance(a.left, ast.Name)):
            return None
        if not (isinstance(b, ast.UnaryOp) and isinstance(b.op, ast.Not)):
            return None
        x = _isinstance_of_e(b.operand, evar)
        if x is None:
            return None
        return body[0].body, x

    def element_loop(self):
        if self.loop is None:
            raise Unexpected("no element loop `for e in ...: if <index> == 0 or not isinstance(e, X): ...`")
        evar = self.loop.target.id
        block, x = self._filter(self.loop)
        discard = _names_of(x, self.env)
        guards = {"voice": [], "staff": []}
        mapping = {}
        self._assignments(block, evar, None, guards, mapping)
        return discard, guards, mapping

    def _assignments(self, stmts, evar, guard, guards, mapping):
        for s in stmts:
            if isinstance(s, ast.If):
                d = self.decide(s.test)
                if d is None:
                    g = _isinstance_of_e(s.test, evar)
                    if g is None:
                        # some other condition: both sides are read under the guard in force (an assignment to
                        # e.voice / e.staff without an isinstance guard is refused below)
                        self._assignments(s.body, evar, guard, guards, mapping)
                        self._assignments(s.orelse, evar, guard, guards, mapping)
                        continue
                    if guard is not None or s.orelse:
                        raise Unexpected("nested / two-sided isinstance in the element loop")
                    self._assignments(s.body, evar, _names_of(g, self.env), guards, mapping)
                elif d:
                    self._assignments(s.body, evar, guard, guards, mapping)
                else:
                    self._assignments(s.orelse, evar, guard, guards, mapping)
            elif isinstance(s, ast.Assign) and len(s.targets) == 1:
                t = s.targets[0]
                if isinstance(t, ast.Attribute) and isinstance(t.value, ast.Name) and t.value.id == evar:
                    if t.attr not in guards:
                        raise Unexpected("the element loop assigns e.%s" % t.attr)
                    if guard is None:
                        raise Unexpected("e.%s assigned without isinstance guard" % t.attr)
                    if guards[t.attr]:
                        raise Unexpected("e.%s assigned twice" % t.attr)
                    guards[t.attr] = list(guard)
                    if isinstance(s.value, ast.Subscript) and isinstance(s.value.value, ast.Name):
                        mapping[t.attr] = s.value.value.id


def _find_source(fn, attr, env):
    """the class argument of `part.iter_all(<cls>, include_subclasses=True)` inside the assignment to the list that the
    `max(..., default=1)` lists are built from - here simply: inside the comprehension assigned to a name, the first
    iter_all call with a positional class argument"""
    out = {}
    for s in fn.body:
        if isinstance(s, ast.Assign) and len(s.targets) == 1 and isinstance(s.targets[0], ast.Name):
            for n in ast.walk(s.value):
                if (isinstance(n, ast.Call) and isinstance(n.func, ast.Attribute) and n.func.attr == "iter_all" and n.args):
                    # which attribute of the element does the comprehension read?
                    attrs = {a.attr for a in ast.walk(s.value) if isinstance(a, ast.Attribute) and a.attr in ("voice", "staff")}
                    if attrs == {attr}:
                        c = n.args[0]
                        if isinstance(c, ast.Name) and c.id not in env and not c.id[:1].isupper():
                            # a loop variable: `for cls in <tuple>`
                            for g in ast.walk(s.value):
                                if isinstance(g, ast.comprehension) and isinstance(g.target, ast.Name) and g.target.id == c.id:
                                    out[s.targets[0].id] = _names_of(g.iter, env)
                        else:
                            out[s.targets[0].id] = _names_of(c, env)
    if len(out) != 1:
        raise Unexpected("source of the unique %ss not found (%r)" % (attr, out))
    return list(out.values())[0]


def extract(src=None):
    import partitura.score as S
    from partitura.utils.generic import iter_subclasses

    if src is None:
        src = textwrap.dedent(inspect.getsource(S.merge_parts))
    fn = ast.parse(src).body[0]
    if not isinstance(fn, ast.FunctionDef) or len(fn.args.args) < 2:
        raise Unexpected("merge_parts(parts, reassign) expected")
    res = {"discard": {}, "voiceGuard": {}, "staffGuard": {}}
    per_staff = None
    values = None
    env_any = None
    for mode in MODES:
        ip = Interp(fn, mode)
        ip.walk(fn.body)
        discard, guards, mapping = ip.element_loop()
        res["discard"][mode] = discard
        res["voiceGuard"][mode] = guards["voice"]
        res["staffGuard"][mode] = guards["staff"]
        values = ip.values
        env_any = ip.env
        if mode == "auto":
            # e.voice = M[e.voice];  M = dict(zip(..., n_previous_staves * k + ...))
            m = mapping.get("voice")
            if m is None or m not in ip.defs:
                raise Unexpected("voice mapping of auto mode not found")
            ks = [n.right.value if isinstance(n.right, ast.Constant) else n.left.value
                  for n in ast.walk(ip.defs[m])
                  if isinstance(n, ast.BinOp) and isinstance(n.op, ast.Mult)
                  and (isinstance(n.right, ast.Constant) or isinstance(n.left, ast.Constant))]
            if len(ks) != 1 or not isinstance(ks[0], int):
                raise Unexpected("voices-per-staff constant not found")
            per_staff = ks[0]
    if not values or not all(isinstance(v, str) for v in values):
        raise Unexpected("accepted reassign values not found")
    res["values"] = values
    res["voicesPerStaff"] = per_staff
    res["voiceSource"] = _find_source(fn, "voice", env_any)
    res["staffSource"] = _find_source(fn, "staff", env_any)
    doc = (ast.get_docstring(fn) or "").split("Parameters")[0]
    names = {c.__name__ for c in iter_subclasses(S.TimedObject)}
    seen = []
    for w in re.findall(r"\b[A-Z][A-Za-z]+\b", doc):
        if w in names and w not in seen:
            seen.append(w)
    res["doc"] = seen
    return res


def _ls(xs):
    return "[" + ", ".join('"%s"' % x for x in xs) + "]"


def gen_c15():
    ok, err = True, ""
    try:
        t = extract()
    except Exception as e:  # noqa: BLE001 - any failure must stay local to C15
        ok, err = False, "%s: %s" % (type(e).__name__, e)
        t = {"discard": {m: [] for m in MODES}, "voiceGuard": {m: [] for m in MODES}, "staffGuard": {m: [] for m in MODES},
             "values": [], "voicesPerStaff": 0, "voiceSource": [], "staffSource": [], "doc": []}
    out = []
    w = out.append
    w("/- GENERATED by harness/translate_c15.py from the live source of partitura.score.merge_parts (ast).")
    w("   Do not edit. -/")
    w("namespace Gen.C15\n")
    w("/-- the source had the expected form%s -/" % ("" if ok else " - NO: " + err.replace("-/", "- /")))
    w("def extractionOk : Bool := %s\n" % ("true" if ok else "false"))
    w("/-- accepted values of `reassign` -/")
    w("def reassignValues : List String := %s\n" % _ls(t["values"]))
    for m in MODES:
        M = m.capitalize()
        w("/-- `el_to_discard` when reassign = \"%s\" -/" % m)
        w("def discard%s : List String := %s" % (M, _ls(t["discard"][m])))
        w("/-- classes whose instances get a new voice / a new staff in the element loop when reassign = \"%s\" -/" % m)
        w("def voiceGuard%s : List String := %s" % (M, _ls(t["voiceGuard"][m])))
        w("def staffGuard%s : List String := %s\n" % (M, _ls(t["staffGuard"][m])))
    w("/-- classes that define the voices / staves in use of a part -/")
    w("def voiceSource : List String := %s" % _ls(t["voiceSource"]))
    w("def staffSource : List String := %s\n" % _ls(t["staffSource"]))
    w("/-- `n_previous_staves * k` in the voice mapping of auto mode -/")
    w("def voicesPerStaff : Nat := %d\n" % t["voicesPerStaff"])
    w("/-- TimedObject class names in the description part of the docstring -/")
    w("def docStructural : List String := %s\n" % _ls(t["doc"]))
    w("end Gen.C15")
    return "\n".join(out) + "\n"


# ---------------------------------------------------------------------------------------------- the call (round 5)
def extract_call():
    """Literal facts about the CALL of merge_parts that the model of Model/MergeCall.lean copies:
      reassignParam / reassignDefault   name and default value of the second parameter (inspect.signature)
      scoreArgAttr     the attribute read from a Score argument: `if isinstance(<parts>, Score): <parts> = <parts>.<attr>`
      loadPositional / loadReassign / loadArgAttr
                       the one call `merge_parts(...)` in load_score_as_part: number of positional arguments, the
                       constant passed for `reassign` (None = left at its default), the attribute of the loaded
                       score that is passed (`scr.parts`)
      iterContainers   the types iter_parts iterates over directly (`isinstance(partlist, (list, tuple, set))`)
      iterLeaf         the class whose instances iter_parts yields
      iterChildAttrs   the attributes iter_parts reads from an element that is not such an instance"""
    import partitura.io as IO
    import partitura.score as S

    sig = list(inspect.signature(S.merge_parts).parameters.values())
    if len(sig) != 2 or not isinstance(sig[1].default, str):
        raise Unexpected("merge_parts(parts, reassign=<str>) expected")
    out = {"param": sig[1].name, "default": sig[1].default}
    fn = ast.parse(textwrap.dedent(inspect.getsource(S.merge_parts))).body[0]
    arg0 = fn.args.args[0].arg
    attrs = []
    for n in ast.walk(fn):
        if isinstance(n, ast.If):
            t = _isinstance_of_e(n.test, arg0)
            if t is not None and isinstance(t, ast.Name) and t.id == "Score":
                for st in n.body:
                    if (isinstance(st, ast.Assign) and isinstance(st.value, ast.Attribute)
                            and isinstance(st.value.value, ast.Name) and st.value.value.id == arg0):
                        attrs.append(st.value.attr)
    if len(attrs) != 1:
        raise Unexpected("Score branch of merge_parts not found")
    out["scoreAttr"] = attrs[0]
    # ---- load_score_as_part
    lf = ast.parse(textwrap.dedent(inspect.getsource(IO.load_score_as_part))).body[0]
    calls = [n for n in ast.walk(lf) if isinstance(n, ast.Call)
             and ((isinstance(n.func, ast.Name) and n.func.id == "merge_parts")
                  or (isinstance(n.func, ast.Attribute) and n.func.attr == "merge_parts"))]
    if len(calls) != 1:
        raise Unexpected("load_score_as_part: one call of merge_parts expected")
    c = calls[0]
    if any(isinstance(a, ast.Starred) for a in c.args) or any(k.arg is None for k in c.keywords):
        raise Unexpected("load_score_as_part: star arguments")
    kws = {k.arg: k.value for k in c.keywords}
    if set(kws) - {arg0, out["param"]}:
        raise Unexpected("load_score_as_part: unknown keyword")
    first = c.args[0] if c.args else kws.get(arg0)
    second = c.args[1] if len(c.args) > 1 else kws.get(out["param"])
    if first is None or len(c.args) > 2:
        raise Unexpected("load_score_as_part: argument of merge_parts not found")
    if second is not None and not (isinstance(second, ast.Constant) and isinstance(second.value, str)):
        raise Unexpected("load_score_as_part: reassign is not a constant")
    out["loadPositional"] = len(c.args)
    out["loadReassign"] = None if second is None else second.value
    out["loadArgAttr"] = first.attr if isinstance(first, ast.Attribute) else ""
    # ---- iter_parts
    it = ast.parse(textwrap.dedent(inspect.getsource(S.iter_parts))).body[0]
    p0 = it.args.args[0].arg
    conts, leaf, child = [], [], []
    loopvars = {n.target.id for n in ast.walk(it) if isinstance(n, ast.For) and isinstance(n.target, ast.Name)}
    for n in ast.walk(it):
        if isinstance(n, ast.Call) and isinstance(n.func, ast.Name) and n.func.id == "isinstance" and len(n.args) == 2:
            who, what = n.args
            if isinstance(who, ast.Name) and who.id == p0 and isinstance(what, (ast.Tuple, ast.List)):
                conts += [e.id for e in what.elts if isinstance(e, ast.Name)]
            elif isinstance(who, ast.Name) and who.id in loopvars:
                leaf += _names_of(what, {})
        if isinstance(n, ast.Attribute) and isinstance(n.value, ast.Name) and n.value.id in loopvars:
            if n.attr not in child:
                child.append(n.attr)
    if not conts or not leaf:
        raise Unexpected("iter_parts: container types / leaf class not found")
    out["iterContainers"], out["iterLeaf"], out["iterChildAttrs"] = conts, sorted(set(leaf)), sorted(child)
    return out


def gen_c15_call():
    ok, err = True, ""
    try:
        t = extract_call()
    except Exception as e:  # noqa: BLE001 - any failure must stay local to C15
        ok, err = False, "%s: %s" % (type(e).__name__, e)
        t = {"param": "", "default": "", "scoreAttr": "", "loadPositional": 0, "loadReassign": None, "loadArgAttr": "",
             "iterContainers": [], "iterLeaf": [], "iterChildAttrs": []}
    out = []
    w = out.append
    w("/- GENERATED by harness/translate_c15.py from the live source of partitura.score.merge_parts / iter_parts and")
    w("   partitura.io.load_score_as_part (inspect.signature, ast).  Do not edit. -/")
    w("namespace Gen.C15\n")
    w("/-- the sources had the expected form%s -/" % ("" if ok else " - NO: " + err.replace("-/", "- /")))
    w("def callOk : Bool := %s\n" % ("true" if ok else "false"))
    w("/-- name and default value of the second parameter of `merge_parts` -/")
    w('def reassignParam : String := "%s"' % t["param"])
    w('def reassignDefault : String := "%s"\n' % t["default"])
    w("/-- `if isinstance(parts, Score): parts = parts.<attr>` -/")
    w('def scoreArgAttr : String := "%s"\n' % t["scoreAttr"])
    w("/-- the call of `merge_parts` in `load_score_as_part`: positional arguments, constant passed for `reassign`")
    w("(none = left at its default), attribute of the loaded score that is passed -/")
    w("def loadPositional : Nat := %d" % t["loadPositional"])
    w("def loadReassign : Option String := %s" % ("none" if t["loadReassign"] is None else 'some "%s"' % t["loadReassign"]))
    w('def loadArgAttr : String := "%s"\n' % t["loadArgAttr"])
    w("/-- `iter_parts`: the types it iterates over directly, the class it yields, the attributes it reads from any")
    w("other element -/")
    w("def iterContainers : List String := %s" % _ls(t["iterContainers"]))
    w("def iterLeaf : List String := %s" % _ls(t["iterLeaf"]))
    w("def iterChildAttrs : List String := %s\n" % _ls(t["iterChildAttrs"]))
    w("end Gen.C15")
    return "\n".join(out) + "\n"


GENERATORS = {"C15Tables.lean": gen_c15, "C15Call.lean": gen_c15_call}

if __name__ == "__main__":
    print(gen_c15())
    print(gen_c15_call())
