"""C17 - spelling, voice and key estimation are total, well-formed and pitch-preserving.

Readings chosen (the property text is fixed; where a phrase is open the reading is the one under
which the minimally repaired code is right):

* "the result for a note does not depend on the order of the input rows": rows that agree in onset
  AND pitch are indistinguishable to ps13 (it sorts by onset, then pitch, with an unstable first
  sort); for them the claim is about the multiset of spellings the group receives.  For every
  other row it is the per-note claim.  Oracle and correspondence therefore compare the list of
  (onset, pitch, step, alter, octave) sorted lexicographically.
* "numbers voices from 1 without gaps": the set of returned numbers is {1..k}.
* "is unaffected by shifting by octaves / rescaling / transposing": key estimation is an argmax of
  24 binary64 correlations.  When two keys are tied in EXACT arithmetic (e.g. one note: C major and
  C minor of the cbms profiles are permutations of each other) binary64 noise decides, and no
  implementation could honour the invariance literally.  The oracle therefore demands: the
  estimate for the transformed input is one of the (transformed) keys whose exact correlation is
  within 1e-9 of the exact maximum of the original input (1e-4 when float32 duration sums are
  inexact).  With a unique exact maximum that is plain equality.  Nothing is skipped.
* "a score imported from MIDI contains exactly the file's pitches": the multiset of Note.midi_pitch
  over all parts (tied chains counted once) equals the multiset of note-on/off pairs of the file.
"""
import math
import os
import zlib
import tempfile
from fractions import Fraction

import numpy as np

import wire as W
from core import Eval

PROPERTY = "C17"
DRIVER = "drv_c17"
PROPS = ["PartituraModel.Props.C17"]
TRUSTED = [
    "the contig-mapping search VoSA is a parameter of the voice model (its real output is fed to the model; "
    "that it covers every id exactly once and never raises is checked on every case, not proved)",
    "np.corrcoef in binary64 (and float32 duration sums) vs the exact rational correlation order of the model: "
    "the argmax is compared unless the exact top-two margin is < 1e-9 (1e-4 when float32 sums are inexact)",
    "binary64 evaluation of the three octave distances in compute_morphetic_pitch (model exact; the only exact tie "
    "chroma 6 / morph 0 is representable exactly)",
    "numpy argsort(kind='mergesort') stable, default argsort an arbitrary order of ties, np.argmax/argmin first extremum, "
    "np.mod/np.floor floor semantics, dict/defaultdict insertion order",
    "mido file (de)serialisation; add_measures / tie_notes / find_tuplets of the MIDI importer are only observed "
    "through Note.midi_pitch, spelling and voice (their own properties are C04/C11)",
]
PARTIAL = [
    "totality of VoSA (never raising, answering every id it was given) is explored by the correspondence on every case, "
    "not proved: total_given_vosa takes it as the hypothesis VosaCovers",
    "key_transpose needs a unique exact maximum (hypothesis UniqueMax; an example proves the claim false without it: "
    "one note is equally C major and C minor for the cbms profiles); ties are decided by binary64 noise in the code",
    "the model's comparison is proved to be the order of the real-number correlation coefficients "
    "(key_order_is_correlation_order); that binary64 np.corrcoef has the same argmax is compared, not proved",
    "double_acc_bound needs K_post >= 1 (default 40): with K_post = 0 the first note's window is empty and the model "
    "(like the code) can produce six sharps on an A for an E flat (example in Props/C17.lean)",
]
RULE = ("random note arrays (1-400 rows; simultaneous, overlapping, zero-length notes; shuffled; score units "
        "beat/quarter/div and performance units sec/tick; float32/float64/int fields) for ps13 (pitches 21-108), "
        "voices (pitches 0-127, both modes, real VoSA output captured) and key (three profile sets); MIDI files written "
        "with mido from such arrays, loaded with all six part_voice_assign modes; whole finite tables (KEYS, chroma x morph); "
        "distinct = distinct case content; non-trivial = at least two rows (or a table case)")
LEVEL_TEXT = ("Lean 4 theorems over ALL note lists about an executable model of ps13 stage 1 (complete), of the "
              "rename/reverse/chord wrapper of voice estimation (for any search result) and of the exact-rational "
              "Krumhansl-Schmuckler argmax; the model is tied to the code by regenerating ps13's tables, KEYS and the "
              "profiles from the source on each run and by an exact differential run on random arrays and MIDI files.")
SEARCH_LIMIT = 1500

STEP_PC = {"C": 0, "D": 2, "E": 4, "F": 5, "G": 7, "A": 9, "B": 11}
MAJ = ["Cb", "Gb", "Db", "Ab", "Eb", "Bb", "F", "C", "G", "D", "A", "E", "B", "F#", "C#"]
MIN = ["Ab", "Eb", "Bb", "F", "C", "G", "D", "A", "E", "B", "F#", "C#", "G#", "D#", "A#"]
VALID_KEYS = set(MAJ) | set(k + "m" for k in MIN)
PROFILE_ARG = {"kk": "krumhansl_kessler", "cbms": "temperley", "kp": "kostka_payne"}
UNITS = {"beat": True, "quarter": True, "div": True, "sec": False, "tick": False}


# ------------------------------------------------------------------ generators
def gen_rows(rng, n, lo, hi, zero=True):
    """rows [onset_units, duration_units, pitch] on an integer grid: chords, overlaps, zero-length notes, gaps"""
    rows = []
    t = 0
    style = rng.random()
    durs = [1, 1, 2, 2, 3, 4, 6, 8, 12, 16]
    if zero:
        durs = durs + [0, 0]
    centre = rng.randint(lo + 5, hi - 5)
    for _ in range(n):
        r = rng.random()
        if style < 0.3:      # melodic, mostly monophonic
            adv = rng.choice([1, 2, 2, 4]) if r < 0.9 else 0
        elif style < 0.7:    # polyphonic / chords
            adv = 0 if r < 0.55 else rng.choice([1, 2, 4, 8])
        else:                # sparse, with gaps
            adv = rng.choice([0, 1, 3, 5, 16, 40])
        t += adv
        if rng.random() < 0.7:
            centre = min(hi, max(lo, centre + rng.randint(-7, 7)))
            p = min(hi, max(lo, centre + rng.choice([0, 0, 2, -2, 3, 4, -5, 7, 12, -12])))
        else:
            p = rng.randint(lo, hi)
        rows.append([t, rng.choice(durs), p])
    rng.shuffle(rows)
    return rows


def rand_n(rng, tier, cap):
    r = rng.random()
    if r < 0.15:
        return rng.randint(1, 3)
    if r < 0.6:
        return rng.randint(4, min(cap, 30))
    if r < 0.9:
        return rng.randint(20, min(cap, 120))
    return rng.randint(min(cap, 100), cap)


def rand_unit(rng):
    unit = rng.choice(["beat", "beat", "quarter", "div", "sec", "sec", "tick"])
    if unit in ("div", "tick"):
        return unit, "i8", [rng.choice([1, 1, 12, 120]), 1]
    dt = rng.choice(["f4", "f4", "f8"])
    if unit == "sec":
        step = rng.choice([[1, 8], [137, 10000], [1, 100], [3, 7]])
    else:
        step = rng.choice([[1, 4], [1, 4], [1, 8], [1, 3], [1, 1], [1, 12]])
    return unit, dt, step


def cases(rng, tier):
    big = tier != "quick"
    # ---- whole finite tables
    yield {"k": "tbl"}
    yield {"k": "cm"}
    # ---- hand-picked edge arrays (all estimators)
    edge = [
        [[0, 4, 60]],
        [[0, 0, 60]],
        [[0, 0, 60], [0, 0, 64]],
        [[0, 0, 53], [0, 1, 106], [1, 1, 100], [1, 1, 43], [0, 0, 43]],
        [[0, 4, 60], [4, 0, 62], [8, 4, 64]],
        [[0, 4, 60], [4, 4, 62], [8, 0, 64]],
        [[0, 4, 60], [0, 4, 60], [0, 4, 60]],
        [[0, 4, 61], [0, 4, 66], [0, 4, 70], [4, 4, 63], [4, 4, 68]],
        [[0, 2, 21], [1, 2, 108], [2, 2, 21], [3, 2, 108]],
    ]
    for rows in edge:
        for unit, dt, step in (("beat", "f4", [1, 4]), ("sec", "f4", [137, 10000])):
            yield {"k": "ps", "unit": unit, "dt": dt, "step": step, "rows": [r if 21 <= r[2] <= 108 else [r[0], r[1], 60] for r in rows], "kpre": None, "kpost": None, "pseed": 1}
            yield {"k": "vo", "unit": unit, "dt": dt, "step": step, "rows": rows}
            yield {"k": "key", "unit": unit, "dt": dt, "step": step, "rows": [r if 21 <= r[2] <= 108 else [r[0], r[1], 60] for r in rows], "s": 5, "scale": [3, 1], "oseed": 3}
    # ---- random arrays
    n_ps, n_vo, n_key, n_midi, n_rn = (250, 220, 250, 90, 40) if not big else (3500, 2500, 3500, 900, 600)
    if tier == "search":
        n_ps, n_vo, n_key, n_midi, n_rn = (500, 400, 500, 100, 0)
    for _ in range(n_ps):
        unit, dt, step = rand_unit(rng)
        n = rand_n(rng, tier, 400)
        kpre = kpost = None
        if rng.random() < 0.15:
            kpre, kpost = rng.choice([0, 1, 3, 10, 25]), rng.choice([0, 1, 2, 5, 40, 60])
        yield {"k": "ps", "unit": unit, "dt": dt, "step": step, "rows": gen_rows(rng, n, 21, 108), "kpre": kpre, "kpost": kpost,
               "pseed": rng.randrange(10**6)}
    for _ in range(n_vo):
        unit, dt, step = rand_unit(rng)
        n = rand_n(rng, tier, 70 if not big else 400)
        yield {"k": "vo", "unit": unit, "dt": dt, "step": step, "rows": gen_rows(rng, n, 0, 127, zero=rng.random() < 0.6)}
    for _ in range(n_key):
        unit, dt, step = rand_unit(rng)
        n = rand_n(rng, tier, 400)
        rows = gen_rows(rng, n, 21, 108)
        if rng.random() < 0.2:   # few pitch classes: exact ties and constant histograms become likely
            pcs = [rng.randrange(12) for _ in range(rng.choice([1, 2, 3, 12]))]
            rows = [[r[0], rng.choice([1, 2]) if rng.random() < 0.7 else r[1], 60 + rng.choice(pcs) + 12 * rng.randint(-3, 3)] for r in rows]
        yield {"k": "key", "unit": unit, "dt": dt, "step": step, "rows": rows, "s": rng.randint(-11, 11),
               "scale": rng.choice([[2, 1], [1, 4], [3, 1], [1, 3], [7, 5], [1000, 1], [1, 1000]]), "oseed": rng.randrange(10**6)}
    for i in range(n_midi):
        n = rand_n(rng, tier, 40 if not big else 150)
        ppq = rng.choice([1, 4, 12, 96, 480, 960])
        ntr = rng.choice([1, 1, 2, 3])
        rows = gen_rows(rng, n, 21, 108, zero=rng.random() < 0.5)
        g = rng.choice([1, max(1, ppq // 4), max(1, ppq // 4), max(1, ppq // 3), ppq])
        notes = [[r[0] * g, r[1] * g, r[2], rng.randrange(ntr), rng.randrange(rng.choice([1, 2, 3]))] for r in rows]
        yield {"k": "midi", "ppq": ppq, "ntr": ntr, "notes": notes, "mode": i % 6,
               "voice": rng.random() < 0.6, "key": rng.random() < 0.6, "meta_track": rng.random() < 0.4,
               "timesig": rng.random() < 0.5}
    for _ in range(n_rn):
        yield {"k": "rn", "v": [rng.randint(-3, 8) for _ in range(rng.randint(1, 30))]}


# ------------------------------------------------------------------ helpers
def h32(x):
    return zlib.crc32(repr(x).encode())


def make_array(d, rows=None):
    rows = d["rows"] if rows is None else rows
    unit, dt = d["unit"], d["dt"]
    num, den = d["step"]
    a = np.zeros(len(rows), dtype=[("onset_" + unit, dt), ("duration_" + unit, dt), ("pitch", "i4")])
    if dt.startswith("i"):
        a["onset_" + unit] = [r[0] * num for r in rows]
        a["duration_" + unit] = [r[1] * num for r in rows]
    else:
        a["onset_" + unit] = [r[0] * num / den for r in rows]
        a["duration_" + unit] = [r[1] * num / den for r in rows]
    a["pitch"] = [r[2] for r in rows]
    return a


def exact(x):
    return W.as_fraction(x.item() if hasattr(x, "item") else x)


def call(f, *a, **kw):
    try:
        return f(*a, **kw), None
    except BaseException as e:
        if isinstance(e, (KeyboardInterrupt, SystemExit)):
            raise
        return None, e


def spelled_midi(step, alter, octave):
    return (int(octave) + 1) * 12 + STEP_PC[str(step)] + int(alter)


def canon_spelling(onsets, pitches, sp):
    rows = sorted((exact(o), int(p), str(s["step"]), int(s["alter"]), int(s["octave"])) for o, p, s in zip(onsets, pitches, sp))
    return rows


def fmt_spellings(rows):
    return W.f_list(lambda r: W.f_tuple(r[2], W.f_int(r[3]), W.f_int(r[4])), rows)


# ------------------------------------------------------------------ evaluation
def evaluate(d):
    k = d["k"]
    return {"ps": ev_ps, "vo": ev_vo, "key": ev_key, "midi": ev_midi, "tbl": ev_tbl, "cm": ev_cm, "rn": ev_rn}[k](d)


def ev_tbl(d):
    import partitura.musicanalysis.key_identification as KI
    import partitura.utils.music as M

    ev = Eval(key="tbl")
    for i, kk in enumerate(KI.KEYS):
        name = KI.format_key(*kk)
        ev.requests.append("keyname %d" % i)
        ev.impl.append(name)
        if name not in VALID_KEYS:
            ev.oracle.append("key name: KEYS[%d] formats to %r which is not a valid key name" % (i, name))
        else:
            r, e = call(M.key_name_to_fifths_mode, name)
            if e or tuple(r) != (kk[2], kk[1]):
                ev.oracle.append("key name: KEYS[%d]=%r but key_name_to_fifths_mode(%r) = %r" % (i, kk, name, e or r))
    ev.requests.append("keyname 24")
    ev.impl.append("err")
    return ev


def ev_cm(d):
    """compute_morphetic_pitch and p2pn on every (chromatic pitch, morph) of the piano range"""
    import partitura.musicanalysis.pitch_spelling as PS

    ev = Eval(key="cm")
    cs = list(range(-21, 107))
    for m in range(7):
        ocp = np.column_stack((np.zeros(len(cs)), np.array(cs, dtype=float)))
        mp = PS.compute_morphetic_pitch(ocp, np.full(len(cs), m, dtype=int))
        step, alter, octave = PS.p2pn(ocp[:, 1], mp.reshape(-1,))
        for c, a, b, s, o in zip(cs, mp, alter, step, octave):
            ev.requests.append("cm %d %d" % (c, m))
            ev.impl.append(W.f_tuple(W.f_int(a), str(s), W.f_int(b), W.f_int(o)))
            if spelled_midi(s, b, o) != c + 21:
                ev.oracle.append("spelling: p2pn(%d, morph %d) = %r sounds %d, not %d" % (c, m, (str(s), int(b), int(o)), spelled_midi(s, b, o), c + 21))
    return ev


def ev_ps(d):
    import partitura.musicanalysis.pitch_spelling as PS
    from partitura.musicanalysis import estimate_spelling
    import random

    a = make_array(d)
    unit = d["unit"]
    on = a["onset_" + unit]
    kw = {}
    if d.get("kpre") is not None:
        kw = {"K_pre": d["kpre"], "K_post": d["kpost"]}
    ev = Eval(key="ps:%d:%s" % (len(a), h32(d["rows"])) if len(a) > 1 else None)
    before = a.tobytes()
    sp, e = call(estimate_spelling, a, **kw)
    kpre, kpost = kw.get("K_pre", 10), kw.get("K_post", 40)
    req = "ps13 %d %d %s" % (kpre, kpost, W.lst(lambda r: "%s %d" % (W.q(exact(r[0])), int(r[1])), list(zip(on, a["pitch"]))))
    ev.requests.append(req)
    if e:
        ev.impl.append("err")
        ev.oracle.append("spelling: estimate_spelling raised %s: %s" % (type(e).__name__, str(e)[:100]))
        return ev
    rows = canon_spelling(on, a["pitch"], sp)
    ev.impl.append(fmt_spellings(rows))
    # ---- oracle
    if len(sp) != len(a):
        ev.oracle.append("spelling: %d spellings for %d notes" % (len(sp), len(a)))
    for i, (p, s) in enumerate(zip(a["pitch"], sp)):
        if str(s["step"]) not in STEP_PC or spelled_midi(s["step"], s["alter"], s["octave"]) != int(p):
            ev.oracle.append("spelling: note %d pitch %d spelled %r does not sound its pitch" % (i, int(p), (str(s["step"]), int(s["alter"]), int(s["octave"]))))
            break
    if kpost >= 1:   # the note lies in its own window (default K_post = 40)
        bad = [i for i, s in enumerate(sp) if abs(int(s["alter"])) > 2]
        if bad:
            ev.oracle.append("spelling: alteration beyond a double accidental: note %d pitch %d -> %r" % (bad[0], int(a["pitch"][bad[0]]), tuple(sp[bad[0]])))
    prng = random.Random(d.get("pseed", 0))
    perm = list(range(len(a)))
    prng.shuffle(perm)
    a2 = a[perm]
    sp2, e2 = call(estimate_spelling, a2, **kw)
    if e2:
        ev.oracle.append("spelling order: raised on a permutation of the rows: %r" % (e2,))
    elif canon_spelling(a2["onset_" + unit], a2["pitch"], sp2) != rows:
        ev.oracle.append("spelling order: result changed when the rows were permuted")
    if a.tobytes() != before:
        ev.oracle.append("spelling frame: estimate_spelling modified its argument")
    # ---- inner stages, same sorted chroma array, on a sample of the cases
    if len(a) <= 60:
        order = sorted(range(len(a)), key=lambda i: (exact(on[i]), int(a["pitch"][i])))
        chroma = [int((int(a["pitch"][i]) - 21) % 12) for i in order]
        cva = PS.compute_chroma_vector_array(np.array(chroma, dtype=int), kpre, kpost)
        ev.requests.append("cvec %d %d %s" % (kpre, kpost, W.lst(W.i, chroma)))
        ev.impl.append(W.f_list(lambda v: W.f_list(W.f_int, v), cva))
        ma = PS.compute_morph_array(np.array(chroma, dtype=int), cva)
        ev.requests.append("morphs %d %d %s" % (kpre, kpost, W.lst(W.i, chroma)))
        ev.impl.append(W.f_list(W.f_int, ma))
    return ev


class VosaCapture:
    """records the array handed to VoSA and the (id, voice) columns it answers"""

    def __init__(self):
        import partitura.musicanalysis.voice_separation as VS

        self.VS = VS
        self.calls = []

    def __enter__(self):
        self.orig = self.VS.VoSA.note_array
        cap = self

        def note_array(vosa):
            out = cap.orig(vosa)
            cap.calls.append((np.array(vosa.score, copy=True), [(int(i), int(v)) for i, v in zip(out["id"], out["voice"])]))
            return out

        self.VS.VoSA.note_array = note_array
        return self

    def __exit__(self, *a):
        self.VS.VoSA.note_array = self.orig


def voice_oracle(tag, v, onsets, durs, chord_mode, n):
    out = []
    if v is None:
        return out
    v = [int(x) for x in v]
    if len(v) != n:
        out.append("voices %s: %d voices for %d notes" % (tag, len(v), n))
        return out
    if any(x < 1 for x in v):
        out.append("voices %s: non-positive voice number %d" % (tag, min(v)))
    if set(v) != set(range(1, max(v) + 1)):
        out.append("voices %s: numbering has gaps: %r" % (tag, sorted(set(v))))
    if chord_mode:
        seen = {}
        for i, (o, du) in enumerate(zip(onsets, durs)):
            kk = (exact(o), exact(du))
            if kk in seen and v[seen[kk]] != v[i]:
                out.append("voices %s: chord rule: notes %d and %d share onset and duration but got voices %d and %d" % (tag, seen[kk], i, v[seen[kk]], v[i]))
                break
            seen.setdefault(kk, i)
    return out


def ev_vo(d):
    from partitura.musicanalysis import estimate_voices

    a = make_array(d)
    unit = d["unit"]
    on, du = a["onset_" + unit], a["duration_" + unit]
    n = len(a)
    ev = Eval(key="vo:%d:%s" % (n, h32(d["rows"])) if n > 1 else None)
    notes_tok = W.lst(lambda r: "%d %s %s" % (int(r[0]), W.q(exact(r[1])), W.q(exact(r[2]))), list(zip(a["pitch"], on, du)))
    for mono in (True, False):
        tag = "mono" if mono else "chord"
        with VosaCapture() as cap:
            v, e = call(estimate_voices, a, monophonic_voices=mono)
        if e:
            ev.oracle.append("voices %s: estimate_voices raised %s: %s" % (tag, type(e).__name__, str(e)[:100]))
            continue
        ev.oracle += voice_oracle(tag, v, on, du, not mono, n)
        if len(cap.calls) == 1:
            inp, out = cap.calls[0]
            ev.requests.append("vin %s %s" % (W.b(mono), notes_tok))
            ev.impl.append(W.f_list(W.f_int, inp["id"]))
            ev.requests.append("voices %s %s %s" % (W.b(mono), notes_tok, W.lst(lambda x: "%d %d" % x, out)))
            ev.impl.append(W.f_list(W.f_int, v))
            ids = sorted(i for i, _ in out)
            ev.info["vosa_covers_%s" % tag] = ids == sorted(int(i) for i in inp["id"])
        else:
            ev.requests.append("vin %s %s" % (W.b(mono), notes_tok))
            ev.impl.append("VoSA called %d times" % len(cap.calls))
    return ev


def exact_corrs(pitches, durs, matrix):
    """exact histogram, and the 24 correlations (float of the exact value; None = undefined)"""
    h = [Fraction(0)] * 12
    for p, du in zip(pitches, durs):
        h[int(p) % 12] += exact(du)
    mx = sum(h) / 12
    vx = sum((x - mx) ** 2 for x in h)
    if vx == 0:
        return h, None
    rs = []
    for row in matrix:
        y = [Fraction(*float(v).as_integer_ratio()) for v in row]
        my = sum(y) / 12
        vy = sum((v - my) ** 2 for v in y)
        c = sum((x - mx) * (v - my) for x, v in zip(h, y))
        rs.append(float(c) / math.sqrt(float(vx) * float(vy)))
    return h, rs


def key_names():
    import partitura.musicanalysis.key_identification as KI

    return [KI.format_key(*kk) for kk in KI.KEYS]


def ev_key(d):
    import random
    import partitura.musicanalysis.key_identification as KI
    from partitura.musicanalysis import estimate_key

    a = make_array(d)
    unit = d["unit"]
    dfield = "duration_" + unit
    du = a[dfield]
    n = len(a)
    names = key_names()
    ev = Eval(key="key:%d:%s" % (n, h32(d["rows"])) if n > 1 else None)
    notes_tok = W.lst(lambda r: "%d %s" % (int(r[0]), W.q(exact(r[1]))), list(zip(a["pitch"], du)))
    mats = {"kk": KI.KRUMHANSL_KESSLER, "cbms": KI.CMBS, "kp": KI.KOSTKA_PAYNE}
    # are the implementation's histogram sums exact?
    pcs = np.mod(a["pitch"], 12)
    sums_exact = True
    for pc in range(12):
        s = du[np.where(pcs == pc)[0]].sum()
        if exact(s) != sum((exact(x) for x in du[pcs == pc]), Fraction(0)):
            sums_exact = False
    tol = 1e-9 if sums_exact else 1e-4
    orng = random.Random(d.get("oseed", 0))
    # transformed inputs
    a_oct = a.copy()
    for i in range(n):
        p = int(a["pitch"][i])
        choices = [q for q in range(p % 12, 128, 12) if 21 <= q <= 108]
        a_oct["pitch"][i] = orng.choice(choices)
    num, den = d["scale"]
    a_sc = a.copy()
    if a.dtype[dfield].kind == "i":
        a_sc[dfield] = a[dfield] * num        # integer fields: integer factor
        sc_ok = True
    else:
        a_sc[dfield] = a[dfield] * (num / den)
        sc_ok = True
    s = d["s"]
    a_tr = a.copy()
    tp = a["pitch"].astype(int) + s
    # keep the transposed input inside 21..108 by folding octaves (octave invariance is checked separately)
    tp = np.where(tp > 108, tp - 12, tp)
    tp = np.where(tp < 21, tp + 12, tp)
    a_tr["pitch"] = tp
    for ps, arg in PROFILE_ARG.items():
        name, e = call(estimate_key, a, key_profiles=arg)
        h, rs = exact_corrs(a["pitch"], du, mats[ps])
        if e:
            ev.oracle.append("key %s: estimate_key raised %s: %s" % (ps, type(e).__name__, str(e)[:100]))
            continue
        if name not in VALID_KEYS:
            ev.oracle.append("key %s: %r is not a valid key name" % (ps, name))
            continue
        if rs is None:
            top = None      # every correlation undefined: nothing to be invariant about except validity
            margin = 1.0
        else:
            mxr = max(rs)
            top = [i for i, r in enumerate(rs) if r >= mxr - tol]
            srt = sorted(rs, reverse=True)
            margin = srt[0] - srt[1]
        if margin >= tol:
            ev.requests.append("key %s %s" % (ps, notes_tok))
            ev.impl.append(name)
        else:
            ev.info["near_tie_" + ps] = margin
        # ---- invariances, on the implementation
        for tag, arr, shift in (("octave", a_oct, 0), ("scale", a_sc, 0), ("transpose", a_tr, s)):
            nm2, e2 = call(estimate_key, arr, key_profiles=arg)
            if e2:
                ev.oracle.append("key %s %s: raised %s" % (ps, tag, type(e2).__name__))
                continue
            if nm2 not in VALID_KEYS:
                ev.oracle.append("key %s %s: %r is not a valid key name" % (ps, tag, nm2))
                continue
            if top is None:
                continue
            allowed = set(names[(i // 12) * 12 + ((i % 12) + shift) % 12] for i in top)
            if name in set(names[i] for i in top) and nm2 not in allowed:
                ev.oracle.append("key %s %s: estimate %r for the original, %r after %s (expected %s)" % (
                    ps, tag, name, nm2,
                    {"octave": "octave shifts", "scale": "scaling durations by %d/%d" % (num, den), "transpose": "transposing by %d" % s}[tag],
                    sorted(allowed)))
        if top is not None and name not in set(names[i] for i in top):
            # the estimate is not an exact maximiser: report through the correspondence (margin permitting), and
            # as an oracle failure only when the gap is far beyond rounding
            got = names.index(name)
            if max(rs) - rs[got] > 1e-3:
                ev.oracle.append("key %s: estimate %r has correlation %.6f, the maximum is %.6f (%s)" % (ps, name, rs[got], max(rs), names[rs.index(max(rs))]))
    return ev


def build_midi(d):
    import mido

    mid = mido.MidiFile(ticks_per_beat=d["ppq"])
    kept = []
    if d.get("meta_track"):
        tr = mido.MidiTrack()
        tr.append(mido.MetaMessage("set_tempo", tempo=500000, time=0))
        if d.get("timesig"):
            tr.append(mido.MetaMessage("time_signature", numerator=3, denominator=4, time=0))
        tr.append(mido.MetaMessage("key_signature", key="Eb", time=0))
        mid.tracks.append(tr)
    for t in range(d["ntr"]):
        evs = []
        busy = {}
        for kidx, (on, du, p, trk, ch) in enumerate(d["notes"]):
            if trk != t:
                continue
            # a (channel, pitch) can sound once at a time in a MIDI stream: drop notes that would collide
            iv = busy.setdefault((ch, p), [])
            if any(not (on + du < a or b < on) for a, b in iv):
                continue
            iv.append((on, on + du))
            kept.append((on, du, p, trk, ch))
            evs.append((on, 1, kidx, mido.Message("note_on", note=p, velocity=64, channel=ch)))
            evs.append((on + du, 2 if du == 0 else 0, kidx, mido.Message("note_off", note=p, velocity=0, channel=ch)))
        evs.sort(key=lambda e: (e[0], e[1], e[2]))
        tr = mido.MidiTrack()
        if not d.get("meta_track") and d.get("timesig") and t == 0:
            tr.append(mido.MetaMessage("time_signature", numerator=6, denominator=8, time=0))
        last = 0
        for (tt, _, _, m) in evs:
            tr.append(m.copy(time=tt - last))
            last = tt
        mid.tracks.append(tr)
    return mid, kept


def ev_midi(d):
    import partitura as pt

    mid, kept = build_midi(d)
    ev = Eval(key="midi:%s" % h32(d) if len(kept) > 1 else None)
    if not kept:
        return ev
    fd, path = tempfile.mkstemp(suffix=".mid", prefix="c17-")
    os.close(fd)
    try:
        mid.save(path)
        with VosaCapture() as cap:
            sc, e = call(pt.load_score_midi, path, part_voice_assign_mode=d["mode"],
                         estimate_voice_info=d["voice"], estimate_key=d["key"])
    finally:
        os.unlink(path)
    tag = "mode %d%s%s" % (d["mode"], " +voices" if d["voice"] else "", " +key" if d["key"] else "")
    if e:
        ev.oracle.append("midi import (%s): load_score_midi raised %s: %s" % (tag, type(e).__name__, str(e)[:100]))
        return ev
    notes = [nn for p in sc.parts for nn in p.notes_tied]
    got = sorted(int(nn.midi_pitch) for nn in notes)
    exp = sorted(p for (_, _, p, _, _) in kept)
    if got != exp:
        from collections import Counter

        diff = (Counter(exp) - Counter(got), Counter(got) - Counter(exp))
        ev.oracle.append("midi import (%s): pitches of the score differ from the file's: missing %r, extra %r" % (tag, dict(diff[0]), dict(diff[1])))
    # ---- correspondence: the spelling of every imported note is ps13 of the file's notes
    req = "ps13 10 40 %s" % W.lst(lambda r: "%d %d" % (r[0], r[2]), kept)
    impl_rows = sorted((Fraction(int(nn.start.t)), int(nn.midi_pitch), str(nn.step), int(nn.alter or 0), int(nn.octave)) for nn in notes)
    ev.requests.append(req)
    ev.impl.append(fmt_spellings(impl_rows))
    # ---- key signature written by estimate_key is the estimate for the file's notes
    if d["key"]:
        ks = [(int(k.start.t), k.name) for p in sc.parts for k in p.iter_all(pt.score.KeySignature)]
        arr = np.array([(on, p, du) for (on, du, p, _, _) in kept], dtype=[("onset_div", int), ("pitch", int), ("duration_div", int)])
        from partitura.musicanalysis import estimate_key

        want = estimate_key(arr)
        nparts = len(sc.parts)
        if sorted(ks) != [(0, want)] * nparts:
            ev.oracle.append("midi import (%s): estimate_key=True wrote key signatures %r, the estimate is %r" % (tag, ks, want))
        if any(nm not in VALID_KEYS for _, nm in ks):
            ev.oracle.append("midi import (%s): invalid key name in %r" % (tag, ks))
    # ---- voices estimated by VoSA: numbering vs the model, given the captured search result
    if d["voice"] and len(cap.calls) == 1:
        inp, out = cap.calls[0]
        n = len(inp)
        order = np.argsort(inp["id"])
        rows = [(int(inp["pitch"][i]), exact(inp["onset"][i]), exact(inp["duration"][i])) for i in order]
        notes_tok = W.lst(lambda r: "%d %s %s" % (r[0], W.q(r[1]), W.q(r[2])), rows)
        byid = {}
        for nn in notes:
            byid[int(nn.id[1:])] = int(nn.voice)
        if d["mode"] in (1, 3, 4, 5) and len(byid) == n:
            ev.requests.append("voices 1 %s %s" % (notes_tok, W.lst(lambda x: "%d %d" % x, out)))
            ev.impl.append(W.f_list(W.f_int, [byid[i] for i in range(n)]))
            ev.oracle += voice_oracle("midi " + tag, [byid[i] for i in range(n)], [r[1] for r in rows], [r[2] for r in rows], False, n)
    return ev


def ev_rn(d):
    import partitura.musicanalysis.voice_separation as VS

    v = np.array(d["v"], dtype=int)
    r = VS.rename_voices(v)
    rr = max(r) - r + 1
    ev = Eval(key="rn:%s" % d["v"])
    ev.requests.append("rename %s" % W.lst(W.i, d["v"]))
    ev.impl.append(W.f_list(W.f_int, r))
    ev.requests.append("final %s" % W.lst(W.i, d["v"]))
    ev.impl.append(W.f_list(W.f_int, rr))
    k = len(set(d["v"]))
    if set(int(x) for x in rr) != set(range(1, k + 1)):
        ev.oracle.append("voices rename: %r renumbered to %r, not onto 1..%d" % (d["v"], rr.tolist(), k))
    return ev


# ------------------------------------------------------------------ reporting / shrinking
def finding_key(d, f):
    return d["k"] + ":" + f.split(":")[0].split("(")[0].strip()


def shrink(d):
    k = d["k"]
    field = "notes" if k == "midi" else ("rows" if k in ("ps", "vo", "key") else None)
    if field is None:
        return
    rows = d[field]
    n = len(rows)
    if n <= 1:
        return
    size = n // 2
    while size >= 1:
        for start in range(0, n, size):
            cand = rows[:start] + rows[start + size:]
            if cand:
                dd = dict(d)
                dd[field] = cand
                yield dd
        size //= 2
    if k == "midi":
        for kk in ("voice", "key", "meta_track", "timesig"):
            if d.get(kk):
                dd = dict(d)
                dd[kk] = False
                yield dd


def distribution(descs, results):
    from collections import Counter

    c = Counter(d["k"] for d in descs)
    sizes = Counter()
    for d in descs:
        rows = d.get("rows") or d.get("notes") or []
        n = len(rows)
        sizes["1" if n <= 1 else "2-10" if n <= 10 else "11-50" if n <= 50 else "51-150" if n <= 150 else "151-400"] += 1
    zero = sum(1 for d in descs if any(r[1] == 0 for r in (d.get("rows") or d.get("notes") or [])))
    units = Counter(d.get("unit") for d in descs if d.get("unit"))
    near = sum(1 for r in results for kk in r.get("info", {}) if kk.startswith("near_tie"))
    uncovered = sum(1 for r in results for kk, v in r.get("info", {}).items() if kk.startswith("vosa_covers") and not v)
    modes = Counter(d["mode"] for d in descs if d["k"] == "midi")
    return {"by_kind": dict(c), "rows": dict(sizes), "cases_with_zero_length_notes": zero, "units": dict(units),
            "key_comparisons_skipped_as_near_ties": near, "vosa_outputs_not_covering_ids": uncovered,
            "midi_modes": dict(modes)}
