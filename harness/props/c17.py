"""C17 - spelling, voice and key estimation are total, well-formed and pitch-preserving.

Readings chosen (the property text is fixed; where a phrase is open the reading is the one under
which the minimally repaired code is right):

* "the result for a note does not depend on the order of the input rows": rows that agree in onset
  AND pitch are indistinguishable to ps13 (it sorts by onset, then pitch, with an unstable first
  sort); for them the claim is about the multiset of spellings the group receives.  For every
  other row it is the per-note claim.  Oracle and correspondence therefore compare the list of
  (onset, pitch, step, alter, octave) sorted lexicographically.
* "numbers voices from 1 without gaps": the set of returned numbers is {1..k}.
* "is unaffected by shifting by octaves / rescaling / transposing": key estimation is an argmax of
  24 binary64 correlations.  When two keys are tied in EXACT arithmetic (e.g. one note: C major and
  C minor of the cbms profiles are permutations of each other) binary64 noise decides, and no
  implementation could honour the invariance literally.  The oracle therefore demands: the
  estimate for the transformed input is one of the (transformed) keys whose exact correlation is
  within 1e-9 of the exact maximum of the original input (1e-4 when float32 duration sums are
  inexact).  With a unique exact maximum that is plain equality.  Nothing is skipped.
* "one positive voice number for every input note", "returns one of the valid key names", "every note a step ...": for every
  documented way of passing the input and the options - a structured array with any set of unit fields (the selected unit's
  onset/duration fields and `pitch` present), a Part / Score / PerformedPart / Performance, every name VALID_KEY_PROFILES
  lists for "the three key-profile sets", `return_sorted_keys`.  An array lacking the selected unit's duration field (or
  `pitch`) may be rejected (ValueError) - that is compared with the model, not an oracle failure.
* the same phrases for every documented way of passing OPTIONS: `estimate_spelling(x, method="ps13s1", K_pre=.., K_post=..)` and
  `estimate_key(x, method="krumhansl", key_profiles=<name in VALID_KEY_PROFILES>, return_sorted_keys=<bool>)` must answer (kind
  `opt`); any other method, keyword or extra positional argument may be rejected - which calls ARE rejected is compared with the
  model (`estimateSpellingOpts`, `estimateKeyOpts`), not judged by the oracle.  "At most a double accidental" is demanded only
  when K_post >= 1 (with K_post = 0 the claim is false for the algorithm itself, see PARTIAL).
* "a score imported from MIDI contains exactly the file's pitches": the multiset of Note.midi_pitch
  over all parts (tied chains counted once) equals the multiset of note-on/off pairs of the file - for every combination
  of part_voice_assign_mode, estimate_voice_info, estimate_key, quantization_unit and assign_note_ids.
  On files given message by message (kind `mx`) "the file's pitches" are the pitches of the note-on messages with a positive
  velocity, and the clause is demanded of files whose tracks form complete notes (every key (channel, note) alternates
  note-on / note-off - written either way - and nothing is left sounding: `WellPaired` of Props/C17Midi.lean); for any other
  file (a note-on of a sounding key, a note-off of a silent one, notes never ended) only "no pitch that no note-on has" is
  demanded, and what the importer makes of it is compared with the model.
"""
import math
import os
import zlib
import tempfile
from fractions import Fraction

import numpy as np

import wire as W
from core import Eval

PROPERTY = "C17"
DRIVER = "drv_c17"
PROPS = ["PartituraModel.Props.C17", "PartituraModel.Props.C17Search", "PartituraModel.Props.C17Options",
         "PartituraModel.Props.C17Tables", "PartituraModel.Props.C17Float", "PartituraModel.Props.C17Dispatch",
         "PartituraModel.Props.C17Stable", "PartituraModel.Props.C17Midi"]
TRUSTED = [
    "VoSA is modelled completely (Model/Vosa.lean) over exact rationals; the only arithmetic on times in the code is "
    "offset = onset + duration in the field's dtype (binary32/64/int): the offsets VSNote computed are captured and handed "
    "to the model as a column, everything else compares times (when the captured offsets are the exact sums the model with "
    "exact sums, Vosa.estimateVoicesExact, is compared as well: stream voicesxx)",
    "object identity of VSNote / NoteStream / Contig / Voice (the code shares mutable objects) is modelled by row numbers and "
    "stream numbers; set iteration order of est_best_connections' unassigned streams (only used for commuting increments)",
    "np.ma masked argmin: masked entries are +inf, first minimum wins, index 0 when everything is masked (compared on random "
    "matrices including the everything-masked case)",
    "Contig.offset / Contig.duration are computed by the code but never read: not modelled",
    "np.corrcoef in binary64 (and float32 duration sums): the 24 numbers _similarity_with_pitch_profile returns are compared "
    "with the model's exact correlations (stream corrs, signed squares, 1e-11) whenever the duration sums are exact; where they "
    "are within 1e-12 and the exact margin exceeds 2e-12 the agreement of the code's argmax with the model's answer follows from "
    "C17.key_argmax_stable (the evidence counts these cases); otherwise the argmax is compared unless the exact top-two margin "
    "is < 1e-9 (1e-4 when float32 sums are inexact); the full ranking of return_sorted_keys is compared when every adjacent gap "
    "is above the tolerance",
    "numpy's float64 + - / are IEEE 754 correctly rounded (nearest, ties to even) and compute_morphetic_pitch / p2pn meet no "
    "overflow or subnormal: Model/C17Float.lean mirrors each binary64 operation of these two functions over dyadic integers; "
    "that its rounding IS round-to-nearest-even is proved (C17.binary64_round / _add / _sub / _div, leading_bit) and also compared "
    "with the machine's floats (streams fl / fop / lg); integer-valued float intermediates (octaves, chroma, 12 * floor(mp / 7), "
    "the subtraction of UND_CHROMA) are exact in binary64 below 2^53 and kept as integers",
    "numpy argsort(kind='mergesort'/'stable') and Python sorted/list.sort stable, default argsort an arbitrary order of ties, "
    "np.argmax/argmin first extremum, np.unique sorted, np.mod/np.floor floor semantics, dict/defaultdict insertion order, "
    "statistics.mode of an all-None list is None",
    "Python's binding of method= / *args / **kwargs to the parameters of ps13s1 / ks_kid (TypeError on an unknown keyword or on "
    "a positional argument that collides with a keyword; UnboundLocalError for a method that binds no algorithm): the model "
    "takes the parameter lists from the signatures (Gen/C17Tables.lean) and mirrors these rules",
    "note_array construction of Part / Score / PerformedPart / Performance (ensure_notearray path): the model starts from the "
    "fields of the note array the object yields (its own properties are C03/C14)",
    "mido file (de)serialisation (the model starts from the message list mido yields: type, delta time, channel, note, "
    "velocity); add_measures / tie_notes / find_tuplets, time / key signatures and tempi of the MIDI importer are not "
    "modelled - a tied chain is observed as one note (onset, pitch, total duration, voice, spelling, id; their own properties "
    "are C04/C11); `quantize` is `unit * np.round(t / unit)` in binary64, modelled as exact round-half-even of the rational "
    "t / unit (equal for tick counts below 2^52; compared on random units and times: stream quant)",
    "Python dict semantics of the importer (`setdefault`, `len`, insertion order of `defaultdict(list)` and of `notes_by_part`, "
    "`sorted` on (track, channel) tuples, `dict(pairs)` keeping the last value) are mirrored by association lists in "
    "Model/C17Midi.lean; str.format of the id formats is `String.replace` of the one `{}`",
    "translator harness/translate_c17midi.py: reads `note_hash`'s return expression operator by operator, the set `relevant`, "
    "the defaults of load_score_midi / estimate_voices, the `mode == n` constants and the id format strings from the live "
    "source (ast / inspect); what it cannot read is pinned and named in C17MIDI_PINNED (breaks C17.midi_tables_extracted)",
    "translators harness/translate_ps13.py, translate_c17.py: they read the tables by ROLE from the live source (ast, aliases and "
    "module constants followed) and the live matrices; what they cannot read is emitted with its last known value and named in "
    "PS13_PINNED / C17_PINNED, which breaks C17.ps13_tables_extracted / c17_tables_extracted while the driver keeps building",
]
PARTIAL = [
    "voice estimation is now proved total and well-formed for the MODEL of the search (vosa_total, voices_total: no "
    "hypothesis left); that the code's VoSA is that model is the correspondence (complete search results - ids, voices, "
    "contigs and streams - compared on every generated case), not a proof",
    "key_transpose / sorted_keys_head need a unique exact maximum (hypothesis UniqueMax; an example proves the claim false "
    "without it: one note is equally C major and C minor for the cbms profiles); ties are decided by binary64 noise in the code",
    "binary64 np.corrcoef vs the exact correlation order: key_argmax_stable / key_order_stable prove that the code's argmax / "
    "ranking IS the model's under two side conditions - the 24 computed numbers are eps-close to the real correlations and the "
    "exact margin exceeds 2 eps - which the harness evaluates on every case (eps = 1e-12); an a-priori error bound for "
    "np.corrcoef (which would discharge the first condition for all inputs) is not proved, and cases with a smaller margin or "
    "inexact float32 duration sums stay compared only",
    "spelling_binary64 (the binary64 steps of ps13 take the same decisions as exact arithmetic) is proved for MIDI pitches "
    "0..127, a superset of the property's 21..108, by kernel evaluation of the whole table; it is false far outside (example at "
    "2^51 semitones in Props/C17Float.lean)",
    "double_acc_bound needs K_post >= 1 (default 40): with K_post = 0 the first note's window is empty and the model "
    "(like the code) can produce six sharps on an A for an E flat (example in Props/C17.lean)",
    "MIDI import: midi_score_has_exactly_the_files_pitches is a theorem about the MODEL of load_score_midi (message loop, "
    "note_hash, quantize, key sorting, assign_group_part_voice, the zip feeding create_part, routing into parts / groups) for "
    "files whose tracks form complete notes (hypothesis WellPaired - validity of the input; examples show the claim false "
    "without it: a repeated note-on overwrites the first onset); that the code is this model is the correspondence (stream "
    "midix: every part and every note of the score; midinotes; midiassign; notehash whole table; quant), not a proof; part / "
    "group NAMES, time and key signatures of the file, tempi, measures and ties are outside the model; midi_voices_from_one "
    "(voices of the imported score positive and gapless) covers the modes that leave the voice open (1, 3, 4, 5) - in modes 0 "
    "and 2 voices come from channels / tracks and estimated voices are not used",
    "estimate_key(key_profiles=<matrix>) (an ndarray instead of a name) raises in the validation of estimate_key "
    "(`array not in list`); only ks_kid accepts a matrix - outside the property's 'three key-profile sets', not covered; "
    "a string passed as return_sorted_keys (its truth value) is not modelled",
]
RULE = ("random note arrays (1-400 rows; simultaneous, overlapping, zero-length notes; shuffled; score units "
        "beat/quarter/div and performance units sec/tick; float32/float64/int fields) for ps13 (pitches 21-108), "
        "plus the ps13 family `dom`: every pair (pitch class of the first note, pitch class dominating every context window) with "
        "all twelve pitch classes present, so that the real code reaches every entry of the 12^3 table of double_acc_table; "
        "voices (pitches 0-127, both modes; the real VoSA's input, offsets, contigs/streams and output captured and compared "
        "with the modelled search, plus the wrapper+search end to end) and key (three profile sets under every accepted name, "
        "return_sorted_keys, the 24 correlations themselves); arrays holding several unit families at once / missing fields / "
        "extra fields (field selection); method / positional / keyword arguments of estimate_spelling and estimate_key, valid and "
        "invalid (kind opt); Part, Score, PerformedPart, Performance inputs; pairwise_cost on note lists with shared objects and "
        "skip flags, est_best_connections on random matrices in both modes; MIDI files written with mido from such arrays, loaded "
        "with all six part_voice_assign modes x estimate_voice_info x estimate_key x quantization_unit x assign_note_ids; binary64 "
        "rounding of random rationals, exact ties and the operands of compute_morphetic_pitch against the machine's floats (kind "
        "flt); MIDI files given message by message (kind mx: note-offs written both ways, skipped message types, tempo / time "
        "signature messages, several tracks and channels, tracks without notes, zero-length notes, well-paired and irregular "
        "streams - repeated note-ons, unmatched note-offs, notes left sounding -, the six modes plus undocumented ones, "
        "arguments given or omitted, quantization units incl. 0 and None), assign_group_part_voice on random key lists for modes "
        "0-7 and quantize on random integers (kind ma), the whole 16 x 128 table of note_hash (kind mt); whole finite tables (KEYS, chroma x morph incl. pitches far outside the keyboard where rounding matters, "
        "profile-name tables); distinct = distinct case content; non-trivial = at least two rows (or a table case)")
LEVEL_TEXT = ("Lean 4 theorems over ALL note lists about an executable model of ps13 stage 1 (complete, INCLUDING the binary64 "
              "operations of compute_morphetic_pitch and p2pn: the rounding model is proved to be IEEE round-to-nearest-even and "
              "to take the decisions of exact arithmetic on every MIDI pitch), of voice estimation "
              "INCLUDING the contig-mapping search (the modelled search is proved never to raise on a non-empty array and to answer "
              "every id exactly once, so one positive, gaplessly numbered voice per note is a theorem without hypotheses about the "
              "search), of the field/unit selection, the method/args/kwargs dispatch and profile-name "
              "tables of the wrappers, and of the exact-rational Krumhansl-Schmuckler argmax and ranking (proved to be the code's "
              "binary64 argmax whenever the computed correlations are close and the margin is not tiny - both checked per case), and of "
              "the MIDI score importer from the messages of the file to the notes of the parts (for every file whose tracks form "
              "complete notes, each of the six modes, any quantization unit and switches: the import succeeds and the score holds "
              "exactly the pitches of the file's note-ons, each spelled so that it sounds its pitch - note_hash proved injective "
              "over its whole regenerated table); "
              "the model is tied to the "
              "code by regenerating ps13's tables (found by role in the source), KEYS, the profiles and the live 24 x 12 matrices, "
              "MAX_COST, the name tables, method tuples, keyword lists and the unit-preference chain from "
              "the source on each run (a table that cannot be read is pinned and reported as a broken obligation) and by an exact "
              "differential run (complete VoSA results included) on random arrays, objects and MIDI files.")
SEARCH_LIMIT = 1500

STEP_PC = {"C": 0, "D": 2, "E": 4, "F": 5, "G": 7, "A": 9, "B": 11}
MAJ = ["Cb", "Gb", "Db", "Ab", "Eb", "Bb", "F", "C", "G", "D", "A", "E", "B", "F#", "C#"]
MIN = ["Ab", "Eb", "Bb", "F", "C", "G", "D", "A", "E", "B", "F#", "C#", "G#", "D#", "A#"]
VALID_KEYS = set(MAJ) | set(k + "m" for k in MIN)
PROFILE_ARG = {"kk": "krumhansl_kessler", "cbms": "temperley", "kp": "kostka_payne"}
# further documented spellings of each profile set (None = argument absent)
PROFILE_ALIASES = {"kk": [None, "kk"], "cbms": ["tp"], "kp": ["kp"]}
UNIT_ORDER = ["beat", "quarter", "div", "sec", "tick"]   # the preference the estimators document / implement
UNITS = {"beat": True, "quarter": True, "div": True, "sec": False, "tick": False}


# ------------------------------------------------------------------ generators
def gen_rows(rng, n, lo, hi, zero=True):
    """rows [onset_units, duration_units, pitch] on an integer grid: chords, overlaps, zero-length notes, gaps"""
    rows = []
    t = 0
    style = rng.random()
    durs = [1, 1, 2, 2, 3, 4, 6, 8, 12, 16]
    if zero:
        durs = durs + [0, 0]
    centre = rng.randint(lo + 5, hi - 5)
    for _ in range(n):
        r = rng.random()
        if style < 0.3:      # melodic, mostly monophonic
            adv = rng.choice([1, 2, 2, 4]) if r < 0.9 else 0
        elif style < 0.7:    # polyphonic / chords
            adv = 0 if r < 0.55 else rng.choice([1, 2, 4, 8])
        else:                # sparse, with gaps
            adv = rng.choice([0, 1, 3, 5, 16, 40])
        t += adv
        if rng.random() < 0.7:
            centre = min(hi, max(lo, centre + rng.randint(-7, 7)))
            p = min(hi, max(lo, centre + rng.choice([0, 0, 2, -2, 3, 4, -5, 7, 12, -12])))
        else:
            p = rng.randint(lo, hi)
        rows.append([t, rng.choice(durs), p])
    rng.shuffle(rows)
    return rows


def dominated_share(rows, dom, kpre=10, kpost=40):
    """the share of ps13's context windows (rows in onset / pitch order; window of note i = notes i-kpre .. i+kpost-1)
    in which pitch class `dom` outnumbers all other pitch classes together"""
    pcs = [r[2] % 12 for r in sorted(rows, key=lambda r: (r[0], r[2]))]
    n = len(pcs)
    good = 0
    for i in range(n):
        w = pcs[max(0, i - kpre):min(n, i + kpost)]
        good += 2 * sum(1 for x in w if x == dom) > len(w)
    return good / max(1, n)


def gen_dominated(rng, pc0, dom, variant):
    """rows for ps13 that reach one line (first-note chroma, *, tonic chroma) of the 12 x 12 x 12 table of
    `double_acc_table` through the real code: the FIRST note (alone at the earliest onset) has pitch class `pc0`;
    after it every pitch class occurs, in random order and octaves, among so many notes of pitch class `dom` that
    `dom` outnumbers all other pitch classes together in every context window - so ps13 takes `dom` as the tonic
    of every note and note j receives morph_for_tonic(first chroma, chroma j, dom).  Variants: 0 = one onset per
    note, 1 = the other pitch classes twice and chords (several notes per onset), 2 = a long piece whose windows
    (10 before, 40 after) slide, the non-dominant notes spread out."""
    def pitch(pc):
        return rng.choice([q for q in range(pc, 128, 12) if 21 <= q <= 108])

    others = list(range(12)) * (2 if variant == 1 else 1)
    if variant == 2:
        others = [rng.randrange(12) for _ in range(rng.randint(12, 30))]
    rng.shuffle(others)
    rows = []
    for attempt in range(20):
        body = []
        for pc in others:       # so many dominant notes between two others that every window is dominated
            body += [dom] * rng.randint(2 + attempt // 4, 4 + attempt // 2) + [pc]
        body += [dom] * (4 + attempt)
        rows = [[0, rng.choice([1, 2, 4]), pitch(pc0)]]
        t = 0
        for pc in body:
            t += 1 if variant != 1 or rng.random() < 0.6 else 0
            rows.append([max(t, 1), rng.choice([0, 1, 1, 2, 4]), pitch(pc)])
        if dominated_share(rows, dom) == 1.0:
            break
    rng.shuffle(rows)
    return rows


def rand_n(rng, tier, cap):
    r = rng.random()
    if r < 0.15:
        return rng.randint(1, 3)
    if r < 0.6:
        return rng.randint(4, min(cap, 30))
    if r < 0.9:
        return rng.randint(20, min(cap, 120))
    return rng.randint(min(cap, 100), cap)


def rand_unit(rng):
    unit = rng.choice(["beat", "beat", "quarter", "div", "sec", "sec", "tick"])
    if unit in ("div", "tick"):
        return unit, "i8", [rng.choice([1, 1, 12, 120]), 1]
    dt = rng.choice(["f4", "f4", "f8"])
    if unit == "sec":
        step = rng.choice([[1, 8], [137, 10000], [1, 100], [3, 7]])
    else:
        step = rng.choice([[1, 4], [1, 4], [1, 8], [1, 3], [1, 1], [1, 12]])
    return unit, dt, step

NOTE_TYPES = ("note_on", "note_off")


def gen_tracks(rng, wellpaired):
    """tracks of raw MIDI messages [type, delta, channel, note, velocity] for `load_score_midi`: note-ons, note-offs written
    either way (note_off, or note_on with velocity 0), messages the loop skips (control_change, program_change, text),
    set_tempo, a time signature at time 0, tracks without notes, several channels; `wellpaired`: every key (channel, note)
    alternates on / off and nothing is left sounding - otherwise also a note-on of a sounding key (the onset is
    overwritten), a note-off of a silent key (ignored) and notes left sounding at the end of the track"""
    ntr = rng.choice([1, 1, 2, 3])
    tracks = []
    centre = rng.randint(40, 90)
    for t in range(ntr):
        if ntr > 1 and rng.random() < 0.2:
            tracks.append([["set_tempo", 0, 0, 0, 0], ["text", rng.randint(0, 5), 0, 0, 0]])
            continue
        msgs = []
        if rng.random() < 0.4:
            msgs.append(["time_signature", 0, 0, 0, 0])
        chans = rng.sample(range(16), rng.choice([1, 1, 2, 3]))
        pool = sorted(set(min(108, max(21, centre + rng.randint(-9, 9))) for _ in range(rng.choice([2, 4, 8, 16]))))
        sounding = []
        zero = rng.random() < 0.4
        for _ in range(rng.choice([2, 6, 12, 30, 60])):
            r = rng.random()
            dt = rng.choice([0, 0, 1, 1, 2, 3, 4, 6, 8, 12]) if zero else rng.choice([1, 1, 2, 3, 4, 6, 8, 12])
            ch = rng.choice(chans)
            if r < 0.07:
                msgs.append([rng.choice(["control_change", "program_change", "text"]), dt, ch, 0, rng.randint(0, 127)])
            elif r < 0.10:
                msgs.append(["set_tempo", dt, 0, 0, 0])
            elif r < 0.55 or not sounding:
                key = (ch, rng.choice(pool))
                if key in sounding and (wellpaired or rng.random() < 0.5):
                    continue
                if key not in sounding:
                    sounding.append(key)
                msgs.append(["note_on", dt, key[0], key[1], rng.randint(1, 127)])
            else:
                if not wellpaired and rng.random() < 0.1:
                    key = (ch, rng.choice(pool))       # perhaps silent: ignored by the importer
                else:
                    key = rng.choice(sounding)
                if key in sounding:
                    sounding.remove(key)
                msgs.append(["note_off", dt, key[0], key[1], rng.choice([0, 64])] if rng.random() < 0.6 else ["note_on", dt, key[0], key[1], 0])
        if wellpaired or rng.random() < 0.5:
            for key in list(sounding):
                msgs.append(["note_off", rng.choice([0, 1, 2, 4]), key[0], key[1], 0])
        tracks.append(msgs)
    return tracks


def cases(rng, tier):
    big = tier != "quick"
    # ---- whole finite tables
    yield {"k": "tbl"}
    yield {"k": "cm"}
    # ---- hand-picked edge arrays (all estimators)
    edge = [
        [[0, 4, 60]],
        [[0, 0, 60]],
        [[0, 0, 60], [0, 0, 64]],
        [[0, 0, 53], [0, 1, 106], [1, 1, 100], [1, 1, 43], [0, 0, 43]],
        [[0, 4, 60], [4, 0, 62], [8, 4, 64]],
        [[0, 4, 60], [4, 4, 62], [8, 0, 64]],
        [[0, 4, 60], [0, 4, 60], [0, 4, 60]],
        [[0, 4, 61], [0, 4, 66], [0, 4, 70], [4, 4, 63], [4, 4, 68]],
        [[0, 2, 21], [1, 2, 108], [2, 2, 21], [3, 2, 108]],
    ]
    for rows in edge:
        for unit, dt, step in (("beat", "f4", [1, 4]), ("sec", "f4", [137, 10000])):
            yield {"k": "ps", "unit": unit, "dt": dt, "step": step, "rows": [r if 21 <= r[2] <= 108 else [r[0], r[1], 60] for r in rows], "kpre": None, "kpost": None, "pseed": 1}
            yield {"k": "vo", "unit": unit, "dt": dt, "step": step, "rows": rows}
            yield {"k": "key", "unit": unit, "dt": dt, "step": step, "rows": [r if 21 <= r[2] <= 108 else [r[0], r[1], 60] for r in rows], "s": 5, "scale": [3, 1], "oseed": 3}
    # ---- ps13: first-note pitch class x dominating pitch class (every line of the 12^3 morph table, see gen_dominated)
    # (the witness of seeded change C17-i - first note E flat, D-dominated window holding a G sharp - is corpus/C17/)
    for pc0 in range(12):
        for dom in range(12):
            for variant in ((0,) if tier == "quick" else (0, 1, 2) if tier == "thorough" else (rng.randrange(3),)):
                unit, dt, step = rand_unit(rng)
                yield {"k": "ps", "unit": unit, "dt": dt, "step": step, "rows": gen_dominated(rng, pc0, dom, variant),
                       "kpre": None, "kpost": None, "pseed": rng.randrange(10**6), "fam": "dom", "pc0": pc0, "dom": dom, "variant": variant}
    # ---- random arrays
    n_ps, n_vo, n_key, n_midi, n_rn = (250, 220, 250, 90, 40) if not big else (3500, 2500, 3500, 900, 600)
    n_pc, n_mu, n_obj = (60, 70, 40) if not big else (800, 900, 500)
    if tier == "search":
        n_ps, n_vo, n_key, n_midi, n_rn = (500, 400, 500, 100, 0)
        n_pc, n_mu, n_obj = 0, 150, 80
    for _ in range(n_ps):
        unit, dt, step = rand_unit(rng)
        n = rand_n(rng, tier, 400)
        kpre = kpost = None
        if rng.random() < 0.15:
            kpre, kpost = rng.choice([0, 1, 3, 10, 25]), rng.choice([0, 1, 2, 5, 40, 60])
        yield {"k": "ps", "unit": unit, "dt": dt, "step": step, "rows": gen_rows(rng, n, 21, 108), "kpre": kpre, "kpost": kpost,
               "pseed": rng.randrange(10**6)}
    for _ in range(n_vo):
        unit, dt, step = rand_unit(rng)
        n = rand_n(rng, tier, 70 if not big else 400)
        yield {"k": "vo", "unit": unit, "dt": dt, "step": step, "rows": gen_rows(rng, n, 0, 127, zero=rng.random() < 0.6)}
    for _ in range(n_key):
        unit, dt, step = rand_unit(rng)
        n = rand_n(rng, tier, 400)
        rows = gen_rows(rng, n, 21, 108)
        if rng.random() < 0.2:   # few pitch classes: exact ties and constant histograms become likely
            pcs = [rng.randrange(12) for _ in range(rng.choice([1, 2, 3, 12]))]
            rows = [[r[0], rng.choice([1, 2]) if rng.random() < 0.7 else r[1], 60 + rng.choice(pcs) + 12 * rng.randint(-3, 3)] for r in rows]
        yield {"k": "key", "unit": unit, "dt": dt, "step": step, "rows": rows, "s": rng.randint(-11, 11),
               "scale": rng.choice([[2, 1], [1, 4], [3, 1], [1, 3], [7, 5], [1000, 1], [1, 1000]]), "oseed": rng.randrange(10**6)}
    for i in range(n_midi):
        n = rand_n(rng, tier, 40 if not big else 150)
        ppq = rng.choice([1, 4, 12, 96, 480, 960])
        ntr = rng.choice([1, 1, 2, 3])
        rows = gen_rows(rng, n, 21, 108, zero=rng.random() < 0.5)
        g = rng.choice([1, max(1, ppq // 4), max(1, ppq // 4), max(1, ppq // 3), ppq])
        notes = [[r[0] * g, r[1] * g, r[2], rng.randrange(ntr), rng.randrange(rng.choice([1, 2, 3]))] for r in rows]
        yield {"k": "midi", "ppq": ppq, "ntr": ntr, "notes": notes, "mode": i % 6,
               "voice": rng.random() < 0.6, "key": rng.random() < 0.6, "meta_track": rng.random() < 0.4,
               "timesig": rng.random() < 0.5,
               "qu": rng.choice([None, None, 1, g, 2 * g, max(1, ppq // 2), 3, 7, ppq]), "ids": rng.random() < 0.85}
    for _ in range(n_mu):
        n = rand_n(rng, tier, 40 if not big else 150)
        units = [u for u in UNIT_ORDER if rng.random() < 0.45] or [rng.choice(UNIT_ORDER)]
        rng.shuffle(units)
        yield {"k": "mu", "rows": gen_rows(rng, n, 21, 108, zero=rng.random() < 0.5), "units": units,
               "drop": rng.choice(units) if rng.random() < 0.12 else None, "pitch": rng.random() > 0.04,
               "extra": rng.random() < 0.5, "f": rng.choice(["f4", "f8"]), "i": rng.choice(["i4", "i8"])}
    yield {"k": "mu", "rows": [[0, 2, 60], [2, 2, 64]], "units": [], "drop": None, "pitch": True, "extra": True, "f": "f4", "i": "i4"}
    for _ in range(n_obj):
        n = rand_n(rng, tier, 30 if not big else 120)
        yield {"k": "obj", "kind": rng.choice(["part", "part", "score", "ppart", "perf"]), "divs": rng.choice([1, 2, 4, 12]),
               "rows": gen_rows(rng, n, 21, 108, zero=rng.random() < 0.4), "ts": rng.choice([[4, 4], [3, 4], [6, 8], [2, 2]])}
    for _ in range(n_pc):
        pool = [[o, rng.randint(30, 90), rng.choice([0, 0, 0, 1, 2])] for o in range(rng.randint(1, 8))]
        prev = [rng.choice(pool) for _ in range(rng.randint(1, 6))]
        nxt = [rng.choice(pool) for _ in range(rng.randint(1, 6))]
        R, C = rng.randint(1, 6), rng.randint(1, 6)
        vals = rng.choice([[0, 1, 2, 3], [0, 5, 7, 12, 1000, -1000], list(range(0, 40))])
        yield {"k": "pc", "prev": prev, "next": nxt, "mat": [[rng.choice(vals) for _ in range(C)] for _ in range(R)]}
    for _ in range(n_rn):
        yield {"k": "rn", "v": [rng.randint(-3, 8) for _ in range(rng.randint(1, 30))]}
    # ---- method / *args / **kwargs of estimate_spelling and estimate_key
    for _ in range(60 if tier == "quick" else 600 if tier == "thorough" else 100):
        unit, dt, step = rand_unit(rng)
        skw = {}
        for nm in (["K_pre", "K_post"] if rng.random() < 0.8 else ["K_pre", "K_post", "Kpre", "k_post", "K", "key_profiles"]):
            if rng.random() < 0.4:
                skw[nm] = rng.choice([0, 1, 2, 5, 10, 40, 60])
        kkw = []
        if rng.random() < 0.6:
            kkw.append(["key_profiles", "s", rng.choice(["kk", "krumhansl_kessler", "temperley", "tp", "kostka_payne", "kp"] * 3 + ["ks", "cmbs", "KP", ""])]
                       if rng.random() < 0.95 else ["key_profiles", "b", rng.random() < 0.5])
        if rng.random() < 0.5:
            kkw.append(["return_sorted_keys", "b", rng.random() < 0.6])
        if rng.random() < 0.08:
            kkw.append([rng.choice(["similarity_func", "normalize_distribution", "K_pre", "method_", "sorted"]), "b", True])
        yield {"k": "opt", "unit": unit, "dt": dt, "step": step, "rows": gen_rows(rng, rand_n(rng, tier, 40), 21, 108),
               "sm": rng.choice([None] * 4 + ["ps13s1"] * 4 + ["ps13", "PS13S1", "ps13s2", ""]), "skw": skw,
               "km": rng.choice([None] * 4 + ["krumhansl"] * 4 + ["temperley", "ks", "Krumhansl", ""]),
               "nargs": rng.choice([0] * 10 + [1, 2]), "kkw": kkw}
    # ---- load_score_midi from raw messages to the notes of the parts (kind mx): the importer's own loops
    for i in range(150 if tier == "quick" else 1800 if tier == "thorough" else 250):
        wp = rng.random() < 0.7
        ppq = rng.choice([1, 4, 12, 96, 480])
        yield {"k": "mx", "ppq": ppq, "tracks": gen_tracks(rng, wp), "wp": wp,
               "mode": rng.choice([None, 0, 1, 2, 3, 4, 5, 0, 1, 2, 3, 4, 5, 6, 9]) if i % 7 else i % 6,
               "qu": rng.choice(["omit", "omit", None, 0, 1, 2, 3, 4, 7, ppq]),
               "voice": rng.choice([None, False, True, True]), "key": rng.choice([None, False, True]),
               "ids": rng.choice([None, True, True, False])}
    yield {"k": "mx", "ppq": 4, "tracks": [[["text", 3, 0, 0, 0]]], "wp": True, "mode": 0, "qu": "omit", "voice": None, "key": None, "ids": None}
    yield {"k": "mt"}
    for _ in range(30 if tier == "quick" else 300 if tier == "thorough" else 0):
        keys = sorted(set((rng.randrange(4), rng.randrange(rng.choice([2, 16]))) for _ in range(rng.randint(1, 9))))
        yield {"k": "ma", "keys": [list(x) for x in keys], "q": [[rng.choice([None, 0, 1, 2, 3, 5, 7, 12, 480]), rng.randrange(0, 5000)] for _ in range(10)]}
    # ---- binary64: the model's rounding (Model/C17Float.lean) against the machine's
    for _ in range(6 if tier == "quick" else 60 if tier == "thorough" else 0):
        yield {"k": "flt", "seed": rng.randrange(10**9), "n": 60}


# ------------------------------------------------------------------ helpers
def h32(x):
    return zlib.crc32(repr(x).encode())


def make_array(d, rows=None):
    rows = d["rows"] if rows is None else rows
    unit, dt = d["unit"], d["dt"]
    num, den = d["step"]
    a = np.zeros(len(rows), dtype=[("onset_" + unit, dt), ("duration_" + unit, dt), ("pitch", "i4")])
    if dt.startswith("i"):
        a["onset_" + unit] = [r[0] * num for r in rows]
        a["duration_" + unit] = [r[1] * num for r in rows]
    else:
        a["onset_" + unit] = [r[0] * num / den for r in rows]
        a["duration_" + unit] = [r[1] * num / den for r in rows]
    a["pitch"] = [r[2] for r in rows]
    return a


def exact(x):
    return W.as_fraction(x.item() if hasattr(x, "item") else x)


def call(f, *a, **kw):
    try:
        return f(*a, **kw), None
    except BaseException as e:
        if isinstance(e, (KeyboardInterrupt, SystemExit)):
            raise
        return None, e


def spelled_midi(step, alter, octave):
    return (int(octave) + 1) * 12 + STEP_PC[str(step)] + int(alter)


def canon_spelling(onsets, pitches, sp):
    rows = sorted((exact(o), int(p), str(s["step"]), int(s["alter"]), int(s["octave"])) for o, p, s in zip(onsets, pitches, sp))
    return rows


def fmt_spellings(rows):
    return W.f_list(lambda r: W.f_tuple(r[2], W.f_int(r[3]), W.f_int(r[4])), rows)


# ------------------------------------------------------------------ evaluation
def evaluate(d):
    k = d["k"]
    return {"ps": ev_ps, "vo": ev_vo, "key": ev_key, "midi": ev_midi, "tbl": ev_tbl, "cm": ev_cm, "rn": ev_rn,
            "pc": ev_pc, "mu": ev_mu, "obj": ev_obj, "flt": ev_flt, "opt": ev_opt, "mx": ev_mx, "mt": ev_mt, "ma": ev_ma}[k](d)


def ev_tbl(d):
    import partitura.musicanalysis.key_identification as KI
    import partitura.utils.music as M

    ev = Eval(key="tbl")
    for i, kk in enumerate(KI.KEYS):
        name = KI.format_key(*kk)
        ev.requests.append("keyname %d" % i)
        ev.impl.append(name)
        if name not in VALID_KEYS:
            ev.oracle.append("key name: KEYS[%d] formats to %r which is not a valid key name" % (i, name))
        else:
            r, e = call(M.key_name_to_fifths_mode, name)
            if e or tuple(r) != (kk[2], kk[1]):
                ev.oracle.append("key name: KEYS[%d]=%r but key_name_to_fifths_mode(%r) = %r" % (i, kk, name, e or r))
    ev.requests.append("keyname 24")
    ev.impl.append("err")
    # ---- the two tables of profile names: which matrix a name selects in ks_kid / estimate_key (or ValueError)
    import partitura.utils.globals as G
    from partitura.musicanalysis import estimate_key

    arr = np.array([(0, 60, 1), (1, 64, 1), (2, 67, 2)], dtype=[("onset_beat", "f4"), ("pitch", "i4"), ("duration_beat", "f4")])
    mats = [("kk", KI.KRUMHANSL_KESSLER), ("cbms", KI.CMBS), ("kp", KI.KOSTKA_PAYNE)]

    def selected(f):
        seen = []
        orig = KI._similarity_with_pitch_profile

        def spy(note_array, key_profiles=KI.KRUMHANSL_KESSLER, similarity_func=None, normalize_distribution=False):
            seen.append([nm for nm, m in mats if key_profiles is m])
            return orig(note_array=note_array, key_profiles=key_profiles, similarity_func=similarity_func)

        KI._similarity_with_pitch_profile = spy
        try:
            r, e = call(f)
        finally:
            KI._similarity_with_pitch_profile = orig
        if e or len(seen) != 1 or len(seen[0]) != 1:
            return "err"
        return seen[0][0]

    allnames = list(dict.fromkeys(list(G.VALID_KEY_PROFILES) + ["ks", "cmbs", "kk", "tp", "kp", "krumhansl", "x", "KK", ""]))
    for nm in allnames:
        ev.requests.append("kskid %s" % W.s(nm))
        ev.impl.append(selected(lambda: KI.ks_kid(arr, key_profiles=nm)))
        got = selected(lambda: estimate_key(arr, key_profiles=nm))
        ev.requests.append("profname %s" % W.s(nm))
        ev.impl.append(got)
        if nm in G.VALID_KEY_PROFILES and got == "err":
            ev.oracle.append("key names: estimate_key(key_profiles=%r) raises although VALID_KEY_PROFILES lists %r" % (nm, nm))
    ev.requests.append("profname -")
    ev.impl.append(selected(lambda: estimate_key(arr)))
    return ev


def ev_cm(d):
    """compute_morphetic_pitch and p2pn on every (chromatic pitch, morph) of the piano range"""
    import partitura.musicanalysis.pitch_spelling as PS

    ev = Eval(key="cm")
    cs = list(range(-21, 107))
    for m in range(7):
        ocp = np.column_stack((np.zeros(len(cs)), np.array(cs, dtype=float)))
        mp = PS.compute_morphetic_pitch(ocp, np.full(len(cs), m, dtype=int))
        step, alter, octave = PS.p2pn(ocp[:, 1], mp.reshape(-1,))
        for c, a, b, s, o in zip(cs, mp, alter, step, octave):
            ev.requests.append("cm %d %d" % (c, m))
            ev.impl.append(W.f_tuple(W.f_int(a), str(s), W.f_int(b), W.f_int(o)))
            ev.requests.append("cmf %d %d" % (c, m))      # the binary64 model: same answer on the MIDI range
            ev.impl.append(W.f_tuple(W.f_int(a), str(s), W.f_int(b), W.f_int(o)))
            if spelled_midi(s, b, o) != c + 21:
                ev.oracle.append("spelling: p2pn(%d, morph %d) = %r sounds %d, not %d" % (c, m, (str(s), int(b), int(o)), spelled_midi(s, b, o), c + 21))
    # far outside every keyboard the rounding of `octave + chroma / 12` changes the octave picked: the binary64 model
    # follows the code there, the exact model does not (C17.morphetic_pitch_binary64 is stated for MIDI pitches)
    far = [12 * 2 ** k + c for k in (20, 40, 45, 46, 47, 48, 49) for c in range(12)] + [1688849860263944, -1688849860263944 + 3]
    for m in range(7):
        ocp = np.column_stack((np.zeros(len(far)), np.array(far, dtype=float)))
        mp = PS.compute_morphetic_pitch(ocp, np.full(len(far), m, dtype=int))
        step, alter, octave = PS.p2pn(ocp[:, 1], mp.reshape(-1,))
        for c, a, b, s, o in zip(far, mp, alter, step, octave):
            ev.requests.append("cmf %d %d" % (c, m))
            ev.impl.append(W.f_tuple(W.f_int(a), str(s), W.f_int(b), W.f_int(o)))
    return ev


def rand_float(rng):
    """a binary64 number: 53-bit significand (sometimes short, sometimes all ones), exponent near the ones ps13 meets or far"""
    kind = rng.random()
    if kind < 0.1:
        return float(rng.randint(-130, 130))
    m = rng.getrandbits(53) | (1 << 52)
    if kind < 0.3:
        m = (m >> rng.randint(1, 52)) << rng.randint(0, 5)
    elif kind < 0.4:
        m = (1 << 53) - 1 - rng.randrange(3)
    e = rng.choice([-62, -60, -56, -55, -54, -53, -52, -51, -50, -49, -48, -45, -40, -30, 0, 10, 40, 200, -300])
    x = math.ldexp(m, e)
    return -x if rng.random() < 0.4 else x


def ev_flt(d):
    """`fl` (round to nearest, ties to even), binary64 + - / floor <, and the leading-bit search of Model/C17Float.lean
    against Python's floats (IEEE 754 binary64 on every supported machine; `int / int` and `Fraction.__float__` are
    correctly rounded)"""
    import random

    rng = random.Random(d["seed"])
    ev = Eval(key="flt:%d" % d["seed"])
    for _ in range(d["n"]):
        r = rng.random()
        if r < 0.35:        # arbitrary rationals
            num = rng.choice([1, -1]) * rng.getrandbits(rng.choice([3, 10, 40, 64, 90, 200]))
            den = rng.getrandbits(rng.choice([1, 3, 10, 40, 64, 90, 200])) + 1
            fr = Fraction(num, den)
        elif r < 0.6:       # exact ties and their neighbours: (2m + 1) * 2^(e-1) lies halfway between m 2^e and (m+1) 2^e
            m = rng.getrandbits(52) | (1 << 52)
            e = rng.randint(-80, 80)
            fr = Fraction(2 * m + 1, 2) * Fraction(2) ** e + rng.choice([0, 0, 0, 1, -1]) * Fraction(1, 3) * Fraction(2) ** (e - rng.choice([1, 30, 60, 200]))
            fr = fr * rng.choice([1, -1])
        elif r < 0.8:       # the quotients ps13 forms, and small integers
            fr = Fraction(rng.randint(-200, 200), rng.choice([7, 12, 1, 84]))
        else:
            fr = Fraction(*rand_float(rng).as_integer_ratio())
        ev.requests.append("fl %s" % W.q(fr))
        ev.impl.append(W.f_rat(Fraction(*float(fr).as_integer_ratio())) if abs(fr) < Fraction(2) ** 1000 else "0")
        x, y = rand_float(rng), rand_float(rng)
        if rng.random() < 0.5:   # operands close to each other: cancellation in a - b, quotients near 1
            y = x * (1 + rng.choice([1, -1, 3, 1000]) * 2.0 ** -rng.randint(30, 53))
        if rng.random() < 0.3:   # the operands of compute_morphetic_pitch
            o = rng.randint(-3, 10)
            x = o + rng.randrange(12) / 12
            y = (o + rng.choice([0, 1, -1])) + rng.randrange(7) / 7
        fx, fy = Fraction(*x.as_integer_ratio()), Fraction(*y.as_integer_ratio())
        for op, val in (("add", x + y), ("sub", x - y), ("div", x / y if y != 0 else None)):
            ev.requests.append("fop %s %s %s" % (op, W.q(fx), W.q(fy)))
            ev.impl.append("err" if val is None else W.f_rat(Fraction(*val.as_integer_ratio())))
        ev.requests.append("fop lt %s %s" % (W.q(fx), W.q(fy)))
        ev.impl.append("1" if x < y else "0")
        if abs(x) < 2.0 ** 200:
            ev.requests.append("fop floor %s 0" % W.q(fx))
            ev.impl.append(W.f_int(math.floor(x)))
        n = rng.getrandbits(rng.choice([1, 2, 8, 53, 64, 110, 255, 256, 511, 512, 513, 700])) + 1
        ev.requests.append("lg %d" % n)
        ev.impl.append(W.f_int(n.bit_length() - 1))
    return ev


def ev_ps(d):
    import partitura.musicanalysis.pitch_spelling as PS
    from partitura.musicanalysis import estimate_spelling
    import random

    a = make_array(d)
    unit = d["unit"]
    on = a["onset_" + unit]
    kw = {}
    if d.get("kpre") is not None:
        kw = {"K_pre": d["kpre"], "K_post": d["kpost"]}
    ev = Eval(key="ps:%d:%s" % (len(a), h32(d["rows"])) if len(a) > 1 else None)
    before = a.tobytes()
    sp, e = call(estimate_spelling, a, **kw)
    kpre, kpost = kw.get("K_pre", 10), kw.get("K_post", 40)
    req = "ps13 %d %d %s" % (kpre, kpost, W.lst(lambda r: "%s %d" % (W.q(exact(r[0])), int(r[1])), list(zip(on, a["pitch"]))))
    ev.requests.append(req)
    if e:
        ev.impl.append("err")
        ev.oracle.append("spelling: estimate_spelling raised %s: %s" % (type(e).__name__, str(e)[:100]))
        return ev
    rows = canon_spelling(on, a["pitch"], sp)
    ev.impl.append(fmt_spellings(rows))
    # ---- oracle
    if len(sp) != len(a):
        ev.oracle.append("spelling: %d spellings for %d notes" % (len(sp), len(a)))
    for i, (p, s) in enumerate(zip(a["pitch"], sp)):
        if str(s["step"]) not in STEP_PC or spelled_midi(s["step"], s["alter"], s["octave"]) != int(p):
            ev.oracle.append("spelling: note %d pitch %d spelled %r does not sound its pitch" % (i, int(p), (str(s["step"]), int(s["alter"]), int(s["octave"]))))
            break
    if kpost >= 1:   # the note lies in its own window (default K_post = 40)
        bad = [i for i, s in enumerate(sp) if abs(int(s["alter"])) > 2]
        if bad:
            s = sp[bad[0]]
            ev.oracle.append("spelling: alteration beyond a double accidental: note %d pitch %d -> %r (%d of %d notes)" % (
                bad[0], int(a["pitch"][bad[0]]), (str(s["step"]), int(s["alter"]), int(s["octave"])), len(bad), len(sp)))
    prng = random.Random(d.get("pseed", 0))
    perm = list(range(len(a)))
    prng.shuffle(perm)
    a2 = a[perm]
    sp2, e2 = call(estimate_spelling, a2, **kw)
    if e2:
        ev.oracle.append("spelling order: raised on a permutation of the rows: %r" % (e2,))
    elif canon_spelling(a2["onset_" + unit], a2["pitch"], sp2) != rows:
        ev.oracle.append("spelling order: result changed when the rows were permuted")
    if a.tobytes() != before:
        ev.oracle.append("spelling frame: estimate_spelling modified its argument")
    # ---- inner stages, same sorted chroma array, on a sample of the cases
    if len(a) <= 60:
        ev.requests.append("ps13x" + req[4:])       # the exact-rational model (the request above runs the binary64 one)
        ev.impl.append(fmt_spellings(rows))
        order = sorted(range(len(a)), key=lambda i: (exact(on[i]), int(a["pitch"][i])))
        chroma = [int((int(a["pitch"][i]) - 21) % 12) for i in order]
        cva = PS.compute_chroma_vector_array(np.array(chroma, dtype=int), kpre, kpost)
        ev.requests.append("cvec %d %d %s" % (kpre, kpost, W.lst(W.i, chroma)))
        ev.impl.append(W.f_list(lambda v: W.f_list(W.f_int, v), cva))
        ma = PS.compute_morph_array(np.array(chroma, dtype=int), cva)
        ev.requests.append("morphs %d %d %s" % (kpre, kpost, W.lst(W.i, chroma)))
        ev.impl.append(W.f_list(W.f_int, ma))
    return ev


class VosaCapture:
    """records the array handed to VoSA and the (id, voice) columns it answers"""

    def __init__(self):
        import partitura.musicanalysis.voice_separation as VS

        self.VS = VS
        self.calls = []
        self.offsets = []
        self.contigs = []

    def __enter__(self):
        self.orig = self.VS.VoSA.note_array
        cap = self

        def note_array(vosa):
            out = cap.orig(vosa)
            cap.calls.append((np.array(vosa.score, copy=True), [(int(i), int(v)) for i, v in zip(out["id"], out["voice"])]))
            # what the search computed on the way: the offset of every VSNote, the contigs as streams of ids
            cap.offsets.append(dict((int(nn.id), exact(nn.offset)) for nn in vosa.notes))
            cap.contigs.append([[[int(nn.id) for nn in st.notes] for st in c.streams] for c in vosa.contigs])
            return out

        self.VS.VoSA.note_array = note_array
        return self

    def __exit__(self, *a):
        self.VS.VoSA.note_array = self.orig


def vosa_rows_tok(inp, offs):
    """the array handed to VoSA as wire rows: id pitch onset duration offset"""
    return W.lst(lambda r: "%d %d %s %s %s" % (int(r["id"]), int(r["pitch"]), W.q(exact(r["onset"])), W.q(exact(r["duration"])),
                                               W.q(offs[int(r["id"])])), list(inp))


def voice_oracle(tag, v, onsets, durs, chord_mode, n):
    out = []
    if v is None:
        return out
    v = [int(x) for x in v]
    if len(v) != n:
        out.append("voices %s: %d voices for %d notes" % (tag, len(v), n))
        return out
    if any(x < 1 for x in v):
        out.append("voices %s: non-positive voice number %d" % (tag, min(v)))
    if set(v) != set(range(1, max(v) + 1)):
        out.append("voices %s: numbering has gaps: %r" % (tag, sorted(set(v))))
    if chord_mode:
        seen = {}
        for i, (o, du) in enumerate(zip(onsets, durs)):
            kk = (exact(o), exact(du))
            if kk in seen and v[seen[kk]] != v[i]:
                out.append("voices %s: chord rule: notes %d and %d share onset and duration but got voices %d and %d" % (tag, seen[kk], i, v[seen[kk]], v[i]))
                break
            seen.setdefault(kk, i)
    return out


def ev_vo(d):
    from partitura.musicanalysis import estimate_voices

    a = make_array(d)
    unit = d["unit"]
    on, du = a["onset_" + unit], a["duration_" + unit]
    n = len(a)
    ev = Eval(key="vo:%d:%s" % (n, h32(d["rows"])) if n > 1 else None)
    notes_tok = W.lst(lambda r: "%d %s %s" % (int(r[0]), W.q(exact(r[1])), W.q(exact(r[2]))), list(zip(a["pitch"], on, du)))
    for mono in (True, False):
        tag = "mono" if mono else "chord"
        with VosaCapture() as cap:
            v, e = call(estimate_voices, a, monophonic_voices=mono)
        if e:
            ev.oracle.append("voices %s: estimate_voices raised %s: %s" % (tag, type(e).__name__, str(e)[:100]))
            continue
        ev.oracle += voice_oracle(tag, v, on, du, not mono, n)
        if len(cap.calls) == 1:
            inp, out = cap.calls[0]
            ev.requests.append("vin %s %s" % (W.b(mono), notes_tok))
            ev.impl.append(W.f_list(W.f_int, inp["id"]))
            ev.requests.append("voices %s %s %s" % (W.b(mono), notes_tok, W.lst(lambda x: "%d %d" % x, out)))
            ev.impl.append(W.f_list(W.f_int, v))
            ids = sorted(i for i, _ in out)
            ev.info["vosa_covers_%s" % tag] = ids == sorted(int(i) for i in inp["id"])
            # ---- the search itself: the modelled VoSA on the same rows (offsets as the code computed them)
            offs = cap.offsets[0]
            ev.requests.append("vosa " + vosa_rows_tok(inp, offs))
            ev.impl.append(W.f_list(lambda x: W.f_tuple(W.f_int(x[0]), W.f_int(x[1])), out))
            ev.requests.append("contigs " + vosa_rows_tok(inp, offs))
            ev.impl.append(W.f_list(lambda c: W.f_list(lambda st: W.f_list(W.f_int, st), c), cap.contigs[0]))
            # ---- end to end: wrapper and search both inside the model
            alloff = [offs.get(i, exact(on[i] + du[i])) for i in range(n)]
            ev.requests.append("voicesx %s %s" % (W.b(mono), W.lst(
                lambda r: "%d %s %s %s" % (int(r[0]), W.q(exact(r[1])), W.q(exact(r[2])), W.q(r[3])), list(zip(a["pitch"], on, du, alloff)))))
            ev.impl.append(W.f_list(W.f_int, v))
            if all(alloff[i] == exact(on[i]) + exact(du[i]) for i in range(n)):
                # the offsets the code computed are the exact sums: the model with exact sums must answer the same
                ev.requests.append("voicesxx %s %s" % (W.b(mono), notes_tok))
                ev.impl.append(W.f_list(W.f_int, v))
                ev.info["exact_offsets"] = True
        else:
            ev.requests.append("vin %s %s" % (W.b(mono), notes_tok))
            ev.impl.append("VoSA called %d times" % len(cap.calls))
    return ev


def exact_corrs(pitches, durs, matrix):
    """exact histogram, and the 24 correlations (float of the exact value; None = undefined)"""
    h = [Fraction(0)] * 12
    for p, du in zip(pitches, durs):
        h[int(p) % 12] += exact(du)
    mx = sum(h) / 12
    vx = sum((x - mx) ** 2 for x in h)
    if vx == 0:
        return h, None
    rs = []
    for row in matrix:
        y = [Fraction(*float(v).as_integer_ratio()) for v in row]
        my = sum(y) / 12
        vy = sum((v - my) ** 2 for v in y)
        c = sum((x - mx) * (v - my) for x, v in zip(h, y))
        rs.append(float(c) / math.sqrt(float(vx) * float(vy)))
    return h, rs


def key_names():
    import partitura.musicanalysis.key_identification as KI

    return [KI.format_key(*kk) for kk in KI.KEYS]


def ev_key(d):
    import random
    import partitura.musicanalysis.key_identification as KI
    from partitura.musicanalysis import estimate_key

    a = make_array(d)
    unit = d["unit"]
    dfield = "duration_" + unit
    du = a[dfield]
    n = len(a)
    names = key_names()
    ev = Eval(key="key:%d:%s" % (n, h32(d["rows"])) if n > 1 else None)
    notes_tok = W.lst(lambda r: "%d %s" % (int(r[0]), W.q(exact(r[1]))), list(zip(a["pitch"], du)))
    mats = {"kk": KI.KRUMHANSL_KESSLER, "cbms": KI.CMBS, "kp": KI.KOSTKA_PAYNE}
    # are the implementation's histogram sums exact?
    pcs = np.mod(a["pitch"], 12)
    sums_exact = True
    for pc in range(12):
        s = du[np.where(pcs == pc)[0]].sum()
        if exact(s) != sum((exact(x) for x in du[pcs == pc]), Fraction(0)):
            sums_exact = False
    tol = 1e-9 if sums_exact else 1e-4
    orng = random.Random(d.get("oseed", 0))
    # transformed inputs
    a_oct = a.copy()
    for i in range(n):
        p = int(a["pitch"][i])
        choices = [q for q in range(p % 12, 128, 12) if 21 <= q <= 108]
        a_oct["pitch"][i] = orng.choice(choices)
    num, den = d["scale"]
    a_sc = a.copy()
    if a.dtype[dfield].kind == "i":
        a_sc[dfield] = a[dfield] * num        # integer fields: integer factor
        sc_ok = True
    else:
        a_sc[dfield] = a[dfield] * (num / den)
        sc_ok = True
    s = d["s"]
    a_tr = a.copy()
    tp = a["pitch"].astype(int) + s
    # keep the transposed input inside 21..108 by folding octaves (octave invariance is checked separately)
    tp = np.where(tp > 108, tp - 12, tp)
    tp = np.where(tp < 21, tp + 12, tp)
    a_tr["pitch"] = tp
    for ps, arg in PROFILE_ARG.items():
        seen_corrs = []
        orig_sim = KI._similarity_with_pitch_profile

        def spy(*aa, **kk):
            out = orig_sim(*aa, **kk)
            seen_corrs.append(out)
            return out

        KI._similarity_with_pitch_profile = spy
        try:
            name, e = call(estimate_key, a, key_profiles=arg)
        finally:
            KI._similarity_with_pitch_profile = orig_sim
        h, rs = exact_corrs(a["pitch"], du, mats[ps])
        if e:
            ev.oracle.append("key %s: estimate_key raised %s: %s" % (ps, type(e).__name__, str(e)[:100]))
            continue
        if name not in VALID_KEYS:
            ev.oracle.append("key %s: %r is not a valid key name" % (ps, name))
            continue
        if rs is None:
            top = None      # every correlation undefined: nothing to be invariant about except validity
            margin = 1.0
        else:
            mxr = max(rs)
            top = [i for i, r in enumerate(rs) if r >= mxr - tol]
            srt = sorted(rs, reverse=True)
            margin = srt[0] - srt[1]
        if margin >= tol:
            ev.requests.append("key %s %s" % (ps, notes_tok))
            ev.impl.append(name)
        else:
            ev.info["near_tie_" + ps] = margin
        # ---- the 24 numbers np.corrcoef produced against the model's exact correlations: hypotheses (a) and (b) of
        # C17.key_argmax_stable evaluated on this very case (eps = 1e-12); where both hold, the agreement of the code's
        # argmax with the model's answer is a consequence of the theorem, not a comparison
        rhat = seen_corrs[0] if len(seen_corrs) == 1 else None
        if rhat is not None and len(rhat) == 24 and sums_exact:
            rh = [float(x) for x in rhat]
            ev.requests.append("corrs %s %s" % (ps, notes_tok))
            ev.impl.append(("@approx", [None if x != x else math.copysign(x * x, x) for x in rh], 1e-11))
            if rs is not None and all(x == x for x in rh):
                eps = 1e-12
                close = max(abs(x - y) for x, y in zip(rh, rs)) <= eps
                ev.info["stable_" + ps] = "proved" if (close and margin > 2 * eps + 1e-15) else ("close-but-tied" if close else "not-close")
        # ---- invariances, on the implementation
        for tag, arr, shift in (("octave", a_oct, 0), ("scale", a_sc, 0), ("transpose", a_tr, s)):
            nm2, e2 = call(estimate_key, arr, key_profiles=arg)
            if e2:
                ev.oracle.append("key %s %s: raised %s" % (ps, tag, type(e2).__name__))
                continue
            if nm2 not in VALID_KEYS:
                ev.oracle.append("key %s %s: %r is not a valid key name" % (ps, tag, nm2))
                continue
            if top is None:
                continue
            allowed = set(names[(i // 12) * 12 + ((i % 12) + shift) % 12] for i in top)
            if tag == "scale" and any(exact(y) != exact(x) * Fraction(num, den) for x, y in zip(du, arr[dfield])):
                # the scaled durations were rounded to the field's type (float32: 3 * fl(1/12) is not fl(3/12)), so the
                # transformed input is NOT an exact multiple of the original and its own exact correlations decide
                # (found by the thorough tier, seed 7: an exact three-way tie A / Am / F of the cbms profiles,
                # separated only by those roundings)
                _, rs2 = exact_corrs(arr["pitch"], arr[dfield], mats[ps])
                if rs2 is None:
                    continue
                pcs2 = np.mod(arr["pitch"], 12)
                ex2 = all(exact(arr[dfield][np.where(pcs2 == pc)[0]].sum()) == sum((exact(x) for x in arr[dfield][pcs2 == pc]), Fraction(0))
                          for pc in range(12))
                tol2 = 1e-9 if ex2 else 1e-4
                allowed |= set(names[i] for i, r in enumerate(rs2) if r >= max(rs2) - tol2)
            if name in set(names[i] for i in top) and nm2 not in allowed:
                ev.oracle.append("key %s %s: estimate %r for the original, %r after %s (expected %s)" % (
                    ps, tag, name, nm2,
                    {"octave": "octave shifts", "scale": "scaling durations by %d/%d" % (num, den), "transpose": "transposing by %d" % s}[tag],
                    sorted(allowed)))
        # ---- the other documented names of the same profile set: same model answer, through the model's name tables
        for alias in PROFILE_ALIASES[ps]:
            nm_a, e_a = call(estimate_key, a, **({} if alias is None else {"key_profiles": alias}))
            atag = "default" if alias is None else repr(alias)
            if e_a:
                ev.oracle.append("key %s name %s: estimate_key raised %s: %s" % (ps, atag, type(e_a).__name__, str(e_a)[:80]))
            elif nm_a not in VALID_KEYS:
                ev.oracle.append("key %s name %s: %r is not a valid key name" % (ps, atag, nm_a))
            elif margin >= tol:
                ev.requests.append("keyarr %s %s" % ("-" if alias is None else W.s(alias), arr_tok(a)))
                ev.impl.append(nm_a)
        # ---- return_sorted_keys: all 24 names, by decreasing correlation
        lst, e_s = call(estimate_key, a, key_profiles=arg, return_sorted_keys=True)
        if e_s:
            ev.oracle.append("key %s sorted: estimate_key(return_sorted_keys=True) raised %s: %s" % (ps, type(e_s).__name__, str(e_s)[:80]))
        elif not isinstance(lst, list) or sorted(lst) != sorted(names):
            ev.oracle.append("key %s sorted: the answer is not a permutation of the 24 key names: %r" % (ps, lst))
        elif rs is not None:
            cs = [rs[names.index(x)] for x in lst]
            badpos = [i for i in range(23) if cs[i] < cs[i + 1] - tol]
            if badpos:
                i = badpos[0]
                ev.oracle.append("key %s sorted: %s (r=%.6f) is ranked before %s (r=%.6f)" % (ps, lst[i], cs[i], lst[i + 1], cs[i + 1]))
            gaps = sorted(rs, reverse=True)
            if min(gaps[i] - gaps[i + 1] for i in range(23)) >= tol:
                ev.requests.append("keysorted %s %s" % (ps, notes_tok))
                ev.impl.append(W.f_list(str, lst))
            else:
                ev.info["sorted_near_tie_" + ps] = True
        if top is not None and name not in set(names[i] for i in top):
            # the estimate is not an exact maximiser: report through the correspondence (margin permitting), and
            # as an oracle failure only when the gap is far beyond rounding
            got = names.index(name)
            if max(rs) - rs[got] > 1e-3:
                ev.oracle.append("key %s: estimate %r has correlation %.6f, the maximum is %.6f (%s)" % (ps, name, rs[got], max(rs), names[rs.index(max(rs))]))
    return ev


def build_midi(d):
    import mido

    mid = mido.MidiFile(ticks_per_beat=d["ppq"])
    kept = []
    if d.get("meta_track"):
        tr = mido.MidiTrack()
        tr.append(mido.MetaMessage("set_tempo", tempo=500000, time=0))
        if d.get("timesig"):
            tr.append(mido.MetaMessage("time_signature", numerator=3, denominator=4, time=0))
        tr.append(mido.MetaMessage("key_signature", key="Eb", time=0))
        mid.tracks.append(tr)
    for t in range(d["ntr"]):
        evs = []
        busy = {}
        for kidx, (on, du, p, trk, ch) in enumerate(d["notes"]):
            if trk != t:
                continue
            # a (channel, pitch) can sound once at a time in a MIDI stream: drop notes that would collide
            iv = busy.setdefault((ch, p), [])
            if any(not (on + du < a or b < on) for a, b in iv):
                continue
            iv.append((on, on + du))
            kept.append((on, du, p, trk, ch))
            evs.append((on, 1, kidx, mido.Message("note_on", note=p, velocity=64, channel=ch)))
            evs.append((on + du, 2 if du == 0 else 0, kidx, mido.Message("note_off", note=p, velocity=0, channel=ch)))
        evs.sort(key=lambda e: (e[0], e[1], e[2]))
        tr = mido.MidiTrack()
        if not d.get("meta_track") and d.get("timesig") and t == 0:
            tr.append(mido.MetaMessage("time_signature", numerator=6, denominator=8, time=0))
        last = 0
        for (tt, _, _, m) in evs:
            tr.append(m.copy(time=tt - last))
            last = tt
        mid.tracks.append(tr)
    return mid, kept


def ev_midi(d):
    import partitura as pt

    mid, kept = build_midi(d)
    ev = Eval(key="midi:%s" % h32(d) if len(kept) > 1 else None)
    if not kept:
        return ev
    fd, path = tempfile.mkstemp(suffix=".mid", prefix="c17-")
    os.close(fd)
    try:
        mid.save(path)
        with VosaCapture() as cap:
            sc, e = call(pt.load_score_midi, path, part_voice_assign_mode=d["mode"],
                         estimate_voice_info=d["voice"], estimate_key=d["key"],
                         quantization_unit=d.get("qu"), assign_note_ids=d.get("ids", True))
    finally:
        os.unlink(path)
    tag = "mode %d%s%s%s%s" % (d["mode"], " +voices" if d["voice"] else "", " +key" if d["key"] else "",
                               " quantization %d" % d["qu"] if d.get("qu") else "", "" if d.get("ids", True) else " no ids")
    qu = d.get("qu")
    if qu:
        # `quantize`: unit * round-half-even(t / unit), applied to every event time (independent reading, exact)
        qt = lambda t: qu * round(Fraction(t, qu))
        kept = [(qt(on), qt(on + du) - qt(on), p, trk, ch) for (on, du, p, trk, ch) in kept]
    if e:
        ev.oracle.append("midi import (%s): load_score_midi raised %s: %s" % (tag, type(e).__name__, str(e)[:100]))
        return ev
    notes = [nn for p in sc.parts for nn in p.notes_tied]
    got = sorted(int(nn.midi_pitch) for nn in notes)
    exp = sorted(p for (_, _, p, _, _) in kept)
    if got != exp:
        from collections import Counter

        diff = (Counter(exp) - Counter(got), Counter(got) - Counter(exp))
        ev.oracle.append("midi import (%s): pitches of the score differ from the file's: missing %r, extra %r" % (tag, dict(diff[0]), dict(diff[1])))
    # ---- correspondence: the spelling of every imported note is ps13 of the file's notes
    req = "ps13 10 40 %s" % W.lst(lambda r: "%d %d" % (r[0], r[2]), kept)
    impl_rows = sorted((Fraction(int(nn.start.t)), int(nn.midi_pitch), str(nn.step), int(nn.alter or 0), int(nn.octave)) for nn in notes)
    ev.requests.append(req)
    ev.impl.append(fmt_spellings(impl_rows))
    # ---- key signature written by estimate_key is the estimate for the file's notes
    if d["key"]:
        ks = [(int(k.start.t), k.name) for p in sc.parts for k in p.iter_all(pt.score.KeySignature)]
        arr = np.array([(on, p, du) for (on, du, p, _, _) in kept], dtype=[("onset_div", int), ("pitch", int), ("duration_div", int)])
        from partitura.musicanalysis import estimate_key

        want = estimate_key(arr)
        nparts = len(sc.parts)
        if sorted(ks) != [(0, want)] * nparts:
            ev.oracle.append("midi import (%s): estimate_key=True wrote key signatures %r, the estimate is %r" % (tag, ks, want))
        if any(nm not in VALID_KEYS for _, nm in ks):
            ev.oracle.append("midi import (%s): invalid key name in %r" % (tag, ks))
    # ---- voices estimated by VoSA: numbering vs the model, given the captured search result
    if d["voice"] and len(cap.calls) == 1:
        inp, out = cap.calls[0]
        n = len(inp)
        order = np.argsort(inp["id"])
        rows = [(int(inp["pitch"][i]), exact(inp["onset"][i]), exact(inp["duration"][i])) for i in order]
        notes_tok = W.lst(lambda r: "%d %s %s" % (r[0], W.q(r[1]), W.q(r[2])), rows)
        byid = {}
        for nn in notes:
            if nn.id is not None and d.get("ids", True):
                byid[int(nn.id[1:])] = int(nn.voice)
        # the search on the importer's array: the modelled VoSA again
        ev.requests.append("vosa " + vosa_rows_tok(inp, cap.offsets[0]))
        ev.impl.append(W.f_list(lambda x: W.f_tuple(W.f_int(x[0]), W.f_int(x[1])), out))
        if d["mode"] in (1, 3, 4, 5) and len(byid) == n and d.get("ids", True):
            ev.requests.append("voices 1 %s %s" % (notes_tok, W.lst(lambda x: "%d %d" % x, out)))
            ev.impl.append(W.f_list(W.f_int, [byid[i] for i in range(n)]))
            ev.oracle += voice_oracle("midi " + tag, [byid[i] for i in range(n)], [r[1] for r in rows], [r[2] for r in rows], False, n)
    return ev


def build_mx(d):
    import mido

    mid = mido.MidiFile(ticks_per_beat=d["ppq"])
    for tr in d["tracks"]:
        t = mido.MidiTrack()
        for ty, dt, ch, n, v in tr:
            if ty in NOTE_TYPES:
                t.append(mido.Message(ty, note=n, velocity=v, channel=ch, time=dt))
            elif ty == "control_change":
                t.append(mido.Message(ty, control=64, value=v, channel=ch, time=dt))
            elif ty == "program_change":
                t.append(mido.Message(ty, program=v, channel=ch, time=dt))
            elif ty == "set_tempo":
                t.append(mido.MetaMessage(ty, tempo=500000, time=dt))
            elif ty == "time_signature":
                t.append(mido.MetaMessage(ty, numerator=3, denominator=4, time=dt))
            else:
                t.append(mido.MetaMessage("text", text="x", time=dt))
        mid.tracks.append(t)
    return mid


def msgs_tok(tracks):
    return W.lst(lambda tr: W.lst(lambda m: "%s %d %d %d %d" % (W.s(m[0]), m[1], m[2], m[3], m[4]), tr), tracks)


def ev_mx(d):
    """`load_score_midi` on a file given message by message: the parts of the score, and every note of every part (onset,
    pitch, duration of the tied chain, voice, spelling, id), against Model/C17Midi.lean"""
    import partitura as pt
    import partitura.io.importmidi as IM
    import partitura.musicanalysis.key_identification as KI

    mid = build_mx(d)
    ons = sorted(m[3] for tr in d["tracks"] for m in tr if m[0] == "note_on" and m[4] > 0)
    ev = Eval(key="mx:%s" % h32(d) if len(ons) > 1 else None)
    kw = {}
    if d["mode"] is not None:
        kw["part_voice_assign_mode"] = d["mode"]
    if d["qu"] != "omit":
        kw["quantization_unit"] = d["qu"]
    for nm, arg in (("voice", "estimate_voice_info"), ("key", "estimate_key"), ("ids", "assign_note_ids")):
        if d[nm] is not None:
            kw[arg] = d[nm]
    seen = []
    an = getattr(IM, "analysis", None)
    orig = getattr(an, "estimate_spelling", None)
    if orig is not None:
        def spy(na, *a, **k):
            seen.append(np.array(na, copy=True))
            return orig(na, *a, **k)
        an.estimate_spelling = spy
    fd, path = tempfile.mkstemp(suffix=".mid", prefix="c17x-")
    os.close(fd)
    try:
        mid.save(path)
        sc, e = call(pt.load_score_midi, path, **kw)
    finally:
        os.unlink(path)
        if orig is not None:
            an.estimate_spelling = orig
    tag = "%r" % (kw,)
    mode_ok = d["mode"] is None or 0 <= d["mode"] <= 5
    ev.info["mx_shape"] = "%s%s" % ("wellpaired" if d["wp"] else "irregular", "" if mode_ok else " invalid-mode")
    # the note array handed to the estimators (when the importer still calls analysis.estimate_spelling)
    qgiven = d["qu"] != "omit"
    if len(seen) == 1 and seen[0].dtype.names and set(("onset_div", "pitch", "duration_div")) <= set(seen[0].dtype.names) and qgiven:
        ev.requests.append("midinotes %s %s" % (W.opt(W.i, d["qu"]), msgs_tok(d["tracks"])))
        ev.impl.append(W.f_list(lambda r: W.f_tuple(W.f_int(r["onset_div"]), W.f_int(r["pitch"]), W.f_int(r["duration_div"])), seen[0]))
    ek = d["key"]
    with_ids = d["ids"] is None or d["ids"]
    exp = None
    if e:
        exp = "err"
        if ons and mode_ok and d["wp"]:
            ev.oracle.append("midi import (%s): load_score_midi raised %s: %s" % (tag, type(e).__name__, str(e)[:100]))
    else:
        parts = list(sc.parts)
        notes = [nn for p in parts for nn in p.notes_tied]
        got = sorted(int(nn.midi_pitch) for nn in notes)
        from collections import Counter

        if d["wp"] and got != ons:
            diff = (Counter(ons) - Counter(got), Counter(got) - Counter(ons))
            ev.oracle.append("midi import (%s): pitches of the score differ from the file's: missing %r, extra %r" % (tag, dict(diff[0]), dict(diff[1])))
        elif Counter(got) - Counter(ons):
            ev.oracle.append("midi import (%s): the score has pitches no note-on of the file has: %r" % (tag, dict(Counter(got) - Counter(ons))))
        # key estimated on a near tie: binary64 decides, the model is asked without the key
        key_cmp = bool(ek)
        if ek:
            arr = seen[0] if len(seen) == 1 else None
            if arr is None:
                key_cmp = False
            else:
                _, rs = exact_corrs(arr["pitch"], arr["duration_div"], KI.KRUMHANSL_KESSLER)
                if rs is not None:
                    g = sorted(rs, reverse=True)
                    key_cmp = g[0] - g[1] >= 1e-4
            for p in parts:
                for ks in p.iter_all(pt.score.KeySignature):
                    if ks.name not in VALID_KEYS:
                        ev.oracle.append("midi import (%s): invalid key name %r" % (tag, ks.name))
        rows = []
        for p in parts:
            kss = [(int(ks.start.t), ks.name) for ks in p.iter_all(pt.score.KeySignature)]
            keytxt = "-"
            if ek and key_cmp:
                keytxt = kss[0][1] if len(kss) == 1 and kss[0][0] == 0 else "keysigs:%r" % (kss,)
            ns = []
            for nn in p.notes_tied:
                idx = int(nn.id[1:]) if (with_ids and nn.id is not None and str(nn.id)[1:].isdigit()) else 0
                ns.append((int(nn.start.t), int(nn.midi_pitch), int(nn.duration_tied), int(nn.voice), ord(str(nn.step)[0]),
                           int(nn.alter or 0), int(nn.octave), idx, str(nn.step), "-" if nn.id is None else str(nn.id)))
            ns.sort(key=lambda x: x[:8])
            rows.append(W.f_tuple(str(p.id), keytxt, W.f_list(
                lambda x: W.f_tuple(W.f_int(x[0]), W.f_int(x[1]), W.f_int(x[2]), W.f_int(x[3]), x[8], W.f_int(x[5]), W.f_int(x[6]), x[9]), ns)))
        exp = "[" + ",".join(rows) + "]"
        if ek and not key_cmp:
            ek = False
            ev.info["mx_key_near_tie"] = True
    ev.requests.append("midix %s %s %s %s %s %s %s" % (
        W.opt(W.i, d["mode"]), W.b(qgiven), W.opt(W.i, d["qu"] if qgiven else None), W.opt(W.b, d["voice"]),
        W.opt(W.b, ek if d["key"] is not None else None), W.opt(W.b, d["ids"]), msgs_tok(d["tracks"])))
    ev.impl.append(exp)
    return ev


def ev_mt(d):
    """whole table of `note_hash` (16 channels x 128 notes)"""
    import partitura.io.importmidi as IM

    ev = Eval(key="mt")
    f = getattr(IM, "note_hash", None)
    if f is None:
        return ev
    seen = {}
    for c in range(16):
        for p in range(128):
            h = f(c, p)
            ev.requests.append("notehash %d %d" % (c, p))
            ev.impl.append(W.f_int(h))
            if h in seen:
                ev.oracle.append("midi import: note_hash%r = note_hash%r = %r: two keys of one track share an entry of sounding_notes" % ((c, p), seen[h], h))
            seen.setdefault(h, (c, p))
    return ev


def ev_ma(d):
    """`assign_group_part_voice` for every mode on a sorted list of (track, channel) keys; `quantize` on integers"""
    import partitura.io.importmidi as IM

    ev = Eval(key="ma:%s" % h32(d))
    f = getattr(IM, "assign_group_part_voice", None)
    keys = [tuple(x) for x in d["keys"]]
    o = lambda x: "-" if x is None else W.f_int(x)
    if f is not None:
        for mode in range(8):
            r, e = call(f, mode, keys, {})
            ev.requests.append("midiassign %d %s" % (mode, W.lst(lambda x: "%d %d" % x, keys)))
            ev.impl.append("err" if e else W.f_list(lambda g: W.f_tuple(o(g[0]), o(g[1]), o(g[2])), r[0]))
            if not e and mode <= 5 and any(g[1] is None for g in r[0]):
                ev.oracle.append("midi import: assign_group_part_voice(mode %d) leaves a (track, channel) without a part" % mode)
    qf = getattr(IM, "quantize", None)
    if qf is not None:
        for u, t in d["q"]:
            if u:
                r, e = call(qf, t, u)
                ev.requests.append("quant %d %d" % (u, t))
                ev.impl.append("err" if e else W.f_int(r))
    return ev


def mu_array(d):
    """a structured array holding several unit families at once.  Every family is an INJECTIVE image of the same
    integer grid (so "identical onset and duration" means the same in every family) but the images differ in
    overlap structure, duration weights and (ticks) even time direction - reading the wrong family changes the answers."""
    rows = d["rows"]
    T = max(r[0] for r in rows) if rows else 0
    col = {
        "beat": (lambda t: t / 2, lambda x: x / 2),
        "quarter": (lambda t: t / 4 + 1, lambda x: x / 4 + (0.5 if x > 0 else 0)),
        "div": (lambda t: 3 * t, lambda x: 3 * x),
        "sec": (lambda t: t * 0.125, lambda x: x * x * 0.125),
        "tick": (lambda t: (T - t) * 10, lambda x: 5 * x + (3 if x > 0 else 0)),
    }
    dtype = []
    for u in d["units"]:
        ty = d["i"] if u in ("div", "tick") else d["f"]
        dtype.append(("onset_" + u, ty))
        if d.get("drop") != u:
            dtype.append(("duration_" + u, ty))
    if d.get("pitch", True):
        dtype.insert(len(dtype) // 2, ("pitch", "i4"))
    if d.get("extra"):
        dtype += [("velocity", "i4"), ("id", "U8")]
    a = np.zeros(len(rows), dtype=dtype)
    for u in d["units"]:
        fo, fd = col[u]
        a["onset_" + u] = [fo(r[0]) for r in rows]
        if d.get("drop") != u:
            a["duration_" + u] = [fd(r[1]) for r in rows]
    if d.get("pitch", True):
        a["pitch"] = [r[2] for r in rows]
    if d.get("extra"):
        a["velocity"] = 64
        a["id"] = ["n%d" % i for i in range(len(rows))]
    return a


def arr_tok(a):
    """a structured array as a wire token: the pitch column (or -) and every onset_/duration_ field"""
    names = a.dtype.names
    cols = [nm for nm in names if nm.startswith("onset_") or nm.startswith("duration_")]
    ptok = W.lst(W.i, a["pitch"]) if "pitch" in names else "-"
    return "%s %s" % (ptok, W.lst(lambda nm: "%s %s" % (W.s(nm), W.lst(lambda x: W.q(exact(x)), a[nm])), cols))


def preferred_unit(a):
    """independent reading of the documented preference: score units before performance units"""
    for u in UNIT_ORDER:
        if "onset_" + u in a.dtype.names:
            return u
    return None


def estimators_on(ev, tag, obj, a, grid=None):
    """the three estimators on `obj` (a structured array, or an object whose note array is `a`): correspondence with the
    wrapper model fed with the fields of `a`, and the property oracle on the answers"""
    from partitura.musicanalysis import estimate_voices, estimate_key, estimate_spelling

    names = a.dtype.names
    u = preferred_unit(a)
    complete = u is not None and "duration_" + u in names and "pitch" in names and len(a) > 0
    n = len(a)
    tok = arr_tok(a)
    # ---- voices, both modes
    for mono in (True, False):
        with VosaCapture() as cap:
            v, e = call(estimate_voices, obj, monophonic_voices=mono)
        offs = cap.offsets[0] if len(cap.offsets) == 1 else {}
        ev.requests.append("voarr %s %s %s" % (W.b(mono), tok, W.lst(W.q, [offs.get(i, 0) for i in range(n)])))
        ev.impl.append("err" if e else W.f_list(W.f_int, v))
        mt = "%s %s" % (tag, "mono" if mono else "chord")
        if e and complete:
            ev.oracle.append("voices %s: estimate_voices raised %s: %s" % (mt, type(e).__name__, str(e)[:100]))
        if not e:
            if grid is not None:
                ons, dus = [Fraction(r[0]) for r in grid], [Fraction(r[1]) for r in grid]
            else:
                ons, dus = a["onset_" + u], a["duration_" + u]
            ev.oracle += voice_oracle(mt, v, ons, dus, not mono, n)
    # ---- key (default profiles)
    name, e = call(estimate_key, obj)
    if e:
        ev.requests.append("keyarr - %s" % tok)
        ev.impl.append("err")
        if complete:
            ev.oracle.append("key %s: estimate_key raised %s: %s" % (tag, type(e).__name__, str(e)[:100]))
    else:
        if name not in VALID_KEYS:
            ev.oracle.append("key %s: %r is not a valid key name" % (tag, name))
        import partitura.musicanalysis.key_identification as KI

        h, rs = exact_corrs(a["pitch"], a["duration_" + u], KI.KRUMHANSL_KESSLER)
        srt = sorted(rs, reverse=True) if rs else [1.0, 0.0]
        if srt[0] - srt[1] >= 1e-4:
            ev.requests.append("keyarr - %s" % tok)
            ev.impl.append(name)
    # ---- spelling
    sp, e = call(estimate_spelling, obj)
    ev.requests.append("psarr %s" % tok)
    if e:
        ev.impl.append("err")
        if u is not None and "pitch" in names and len(a) > 0:
            ev.oracle.append("spelling %s: estimate_spelling raised %s: %s" % (tag, type(e).__name__, str(e)[:100]))
    else:
        ev.impl.append(fmt_spellings(canon_spelling(a["onset_" + u], a["pitch"], sp)))
        if len(sp) != n:
            ev.oracle.append("spelling %s: %d spellings for %d notes" % (tag, len(sp), n))
        for i, (pp, x) in enumerate(zip(a["pitch"], sp)):
            if str(x["step"]) not in STEP_PC or spelled_midi(x["step"], x["alter"], x["octave"]) != int(pp):
                ev.oracle.append("spelling %s: note %d pitch %d spelled %r does not sound its pitch" % (
                    tag, i, int(pp), (str(x["step"]), int(x["alter"]), int(x["octave"]))))
                break
            if abs(int(x["alter"])) > 2:
                ev.oracle.append("spelling %s: alteration beyond a double accidental: note %d -> %r" % (
                    tag, i, (str(x["step"]), int(x["alter"]), int(x["octave"]))))
                break


def ev_mu(d):
    """arrays with several unit families, missing fields, extra fields: field selection of the three estimators"""
    import partitura.musicanalysis.voice_separation as VS
    from partitura.utils.music import get_time_units_from_note_array

    a = mu_array(d)
    ev = Eval(key="mu:%s" % h32(d) if len(a) > 1 else None)
    r, e = call(get_time_units_from_note_array, a)
    ev.requests.append("units %s" % W.lst(W.s, a.dtype.names))
    ev.impl.append("err" if e or r is None else W.f_tuple(*r))
    pr, e = call(VS.prepare_notearray, a)
    ev.requests.append("prep %s" % arr_tok(a))
    if e:
        ev.impl.append("err")
    else:
        ev.impl.append(W.f_list(lambda x: W.f_tuple(W.f_int(x["pitch"]), W.f_rat(exact(x["onset"])), W.f_rat(exact(x["duration"]))), pr))
        if [int(x) for x in pr["id"]] != list(range(len(a))):
            ev.oracle.append("voices prepare: ids %r are not the row numbers" % (pr["id"].tolist()[:10],))
    estimators_on(ev, "multi-unit", a, a, grid=d["rows"])
    return ev


def build_object(d):
    """a Part / Score / PerformedPart / Performance holding the rows"""
    import partitura as pt
    from partitura import score as S
    from partitura.performance import PerformedPart, Performance
    from partitura.utils.music import midi_pitch_to_pitch_spelling

    rows = d["rows"]
    if d["kind"] in ("ppart", "perf"):
        notes = [dict(midi_pitch=int(p), note_on=on * 0.125, note_off=(on + du) * 0.125, velocity=64, id="n%d" % i)
                 for i, (on, du, p) in enumerate(rows)]
        pp = PerformedPart(notes)
        obj = pp if d["kind"] == "ppart" else Performance(pp)
        return obj, obj.note_array()
    parts = []
    split = [rows] if d["kind"] == "part" or len(rows) < 2 else [rows[0::2], rows[1::2]]
    for k, rr in enumerate(split):
        part = S.Part("P%d" % k, quarter_duration=d["divs"])
        part.add(S.TimeSignature(*d["ts"]), 0)
        for i, (on, du, p) in enumerate(rr):
            st, al, oc = midi_pitch_to_pitch_spelling(p)
            if du > 0:
                part.add(S.Note(step=st, alter=al, octave=oc, id="p%dn%d" % (k, i), voice=1), on, on + du)
            else:
                part.add(S.GraceNote(grace_type="appoggiatura", step=st, alter=al, octave=oc, id="p%dn%d" % (k, i), voice=1), on, on)
        parts.append(part)
    if d["kind"] == "part":
        return parts[0], parts[0].note_array()
    sc = S.Score(parts)
    return sc, sc.note_array()


def ev_obj(d):
    """Part / Score / PerformedPart / Performance inputs: the `ensure_notearray` path of the three estimators"""
    obj, a = build_object(d)
    ev = Eval(key="obj:%s" % h32(d) if len(a) > 1 else None)
    if len(a) != len(d["rows"]):
        ev.oracle.append("object input: note array has %d rows for %d notes" % (len(a), len(d["rows"])))
        return ev
    estimators_on(ev, d["kind"], obj, a)
    return ev


def ev_opt(d):
    """`estimate_spelling(array, method=.., **kwargs)` and `estimate_key(array, method, *args, **kwargs)`: which calls are
    accepted, which defaults apply, and what is answered"""
    from partitura.musicanalysis import estimate_key, estimate_spelling

    a = make_array(d)
    unit = d["unit"]
    ev = Eval(key="opt:%s" % h32(d))
    tok = arr_tok(a)
    names = key_names()
    # ---- spelling
    kw = dict(d["skw"])
    if d["sm"] is not None:
        kw["method"] = d["sm"]
    sp, e = call(estimate_spelling, a, **kw)
    ev.requests.append("psopt %s %s %s" % (W.opt(W.s, d["sm"]), W.lst(lambda x: "%s %d" % (W.s(x[0]), x[1]), sorted(d["skw"].items())), tok))
    documented = d["sm"] in (None, "ps13s1") and set(d["skw"]) <= {"K_pre", "K_post"}
    ev.info["opt_spelling"] = ("rejected" if e else "answered") + ("" if documented else " (outside the documented interface)")
    if e:
        ev.impl.append("err")
        if documented:
            ev.oracle.append("spelling options: estimate_spelling(method=%r, %r) raised %s: %s" % (d["sm"], d["skw"], type(e).__name__, str(e)[:80]))
    else:
        ev.impl.append(fmt_spellings(canon_spelling(a["onset_" + unit], a["pitch"], sp)))
        if len(sp) != len(a):
            ev.oracle.append("spelling options: %d spellings for %d notes" % (len(sp), len(a)))
        for i, (p, x) in enumerate(zip(a["pitch"], sp)):
            if str(x["step"]) not in STEP_PC or spelled_midi(x["step"], x["alter"], x["octave"]) != int(p):
                ev.oracle.append("spelling options: note %d pitch %d spelled %r does not sound its pitch (%r)" % (
                    i, int(p), (str(x["step"]), int(x["alter"]), int(x["octave"])), d["skw"]))
                break
        if d["skw"].get("K_post", 40) >= 1 and any(abs(int(x["alter"])) > 2 for x in sp):
            ev.oracle.append("spelling options: alteration beyond a double accidental with %r" % (d["skw"],))
    # ---- key
    kkw = dict((nm, v) for nm, _, v in d["kkw"])
    args = [d["km"] if d["km"] is not None else "krumhansl"] + [("kp", True, "kk")[i] for i in range(d["nargs"])]
    if d["km"] is None and d["nargs"] == 0:
        args = []
    r, e = call(estimate_key, a, *args, **kkw)
    ev.requests.append("keyopt %s %d %s %s" % (W.opt(W.s, d["km"]), d["nargs"], W.lst(
        lambda x: "%s %s %s" % (W.s(x[0]), x[1], W.s(x[2]) if x[1] == "s" else W.b(x[2])), d["kkw"]), tok))
    import partitura.utils.globals as G
    documented = (d["km"] in (None, "krumhansl") and d["nargs"] == 0 and set(kkw) <= {"key_profiles", "return_sorted_keys"}
                  and kkw.get("key_profiles", "kk") in G.VALID_KEY_PROFILES)
    ev.info["opt_key"] = ("rejected" if e else "ranking" if isinstance(r, list) else "one name") + (
        "" if documented else " (outside the documented interface)")
    if e:
        ev.impl.append("err")
        if documented:
            ev.oracle.append("key options: estimate_key(%r, %r) raised %s: %s" % (args, kkw, type(e).__name__, str(e)[:80]))
    else:
        # the answer itself is compared when the exact ranking has no near tie (binary64 decides those)
        import partitura.musicanalysis.key_identification as KI
        prof = kkw.get("key_profiles", "krumhansl_kessler")
        mat = {"kk": KI.KRUMHANSL_KESSLER, "krumhansl_kessler": KI.KRUMHANSL_KESSLER, "temperley": KI.CMBS, "tp": KI.CMBS,
               "kostka_payne": KI.KOSTKA_PAYNE, "kp": KI.KOSTKA_PAYNE}.get(prof)
        ranked = isinstance(r, list)
        if ranked and sorted(r) != sorted(names):
            ev.oracle.append("key options: the ranking is not a permutation of the 24 key names: %r" % (r,))
        if not ranked and r not in VALID_KEYS:
            ev.oracle.append("key options: %r is not a valid key name" % (r,))
        if ranked != bool(kkw.get("return_sorted_keys", False)):
            ev.oracle.append("key options: return_sorted_keys=%r answered %s" % (kkw.get("return_sorted_keys"), type(r).__name__))
        safe = False
        if mat is not None:
            _, rs = exact_corrs(a["pitch"], a["duration_" + unit], mat)
            if rs is not None:
                g = sorted(rs, reverse=True)
                safe = (min(g[i] - g[i + 1] for i in range(23)) if ranked else g[0] - g[1]) >= 1e-4
            else:
                safe = not ranked
        if safe:
            ev.impl.append(W.f_list(str, r) if ranked else r)
        else:
            ev.requests.pop()
    return ev


def ev_pc(d):
    """`pairwise_cost` on lists of notes (shared objects, skip flags) and `est_best_connections` on a matrix, both modes"""
    import partitura.musicanalysis.voice_separation as VS

    ev = Eval(key="pc:%s" % h32(d))
    objs = {}
    for o, p, sk in d["prev"] + d["next"]:
        if o not in objs:
            nn = VS.VSNote(pitch=np.int32(p), onset=0.0, duration=1.0, note_id=o)
            nn.skip_contig = sk
            objs[o] = nn
    tok = lambda l: W.lst(lambda r: "%d %d %d" % tuple(r), l)
    c, e = call(VS.pairwise_cost, [objs[r[0]] for r in d["prev"]], [objs[r[0]] for r in d["next"]])
    ev.requests.append("cost %s %s" % (tok(d["prev"]), tok(d["next"])))
    ev.impl.append("err" if e else W.f_list(lambda row: W.f_list(W.f_int, row), c))
    for mode in ("prev", "next"):
        r, e = call(VS.est_best_connections, np.array(d["mat"], dtype=float), mode)
        ev.requests.append("best %s %s" % (W.b(mode == "next"), W.lst(lambda row: W.lst(W.i, row), d["mat"])))
        if e:
            ev.impl.append("err")
        else:
            ev.impl.append(W.f_tuple(W.f_list(lambda x: W.f_tuple(W.f_int(x[0]), W.f_int(x[1])), r[0]), W.f_list(W.f_int, sorted(r[1]))))
    return ev


def ev_rn(d):
    import partitura.musicanalysis.voice_separation as VS

    v = np.array(d["v"], dtype=int)
    r = VS.rename_voices(v)
    rr = max(r) - r + 1
    ev = Eval(key="rn:%s" % d["v"])
    ev.requests.append("rename %s" % W.lst(W.i, d["v"]))
    ev.impl.append(W.f_list(W.f_int, r))
    ev.requests.append("final %s" % W.lst(W.i, d["v"]))
    ev.impl.append(W.f_list(W.f_int, rr))
    k = len(set(d["v"]))
    if set(int(x) for x in rr) != set(range(1, k + 1)):
        ev.oracle.append("voices rename: %r renumbered to %r, not onto 1..%d" % (d["v"], rr.tolist(), k))
    return ev


# ------------------------------------------------------------------ reporting / shrinking
def finding_key(d, f):
    return d["k"] + ":" + f.split(":")[0].split("(")[0].strip()


def shrink(d):
    k = d["k"]
    if k == "mx":
        trs = d["tracks"]
        if len(trs) > 1:
            for i in range(len(trs)):
                yield dict(d, tracks=trs[:i] + trs[i + 1:])
        for i, tr in enumerate(trs):
            size = len(tr) // 2
            while size >= 1:
                for start in range(0, len(tr), size):
                    cand = tr[:start] + tr[start + size:]
                    if cand:
                        yield dict(d, tracks=trs[:i] + [cand] + trs[i + 1:])
                size //= 2
        for kk in ("voice", "key"):
            if d.get(kk):
                yield dict(d, **{kk: False})
        if d.get("qu") not in ("omit", None):
            yield dict(d, qu=None)
        return
    field = "notes" if k == "midi" else ("rows" if k in ("ps", "vo", "key", "mu", "obj", "opt") else None)
    if field is None:
        return
    rows = d[field]
    n = len(rows)
    if n <= 1:
        return
    size = n // 2
    while size >= 1:
        for start in range(0, n, size):
            cand = rows[:start] + rows[start + size:]
            if cand:
                dd = dict(d)
                dd[field] = cand
                yield dd
        size //= 2
    if k == "midi":
        for kk in ("voice", "key", "meta_track", "timesig"):
            if d.get(kk):
                dd = dict(d)
                dd[kk] = False
                yield dd
        if d.get("qu"):
            dd = dict(d)
            dd["qu"] = None
            yield dd
    if k == "mu":
        for u in d["units"]:
            if len(d["units"]) > 1:
                dd = dict(d)
                dd["units"] = [x for x in d["units"] if x != u]
                if dd.get("drop") == u:
                    dd["drop"] = None
                yield dd
        if d.get("extra"):
            dd = dict(d)
            dd["extra"] = False
            yield dd


def distribution(descs, results):
    from collections import Counter

    c = Counter(d["k"] for d in descs)
    sizes = Counter()
    for d in descs:
        rows = d.get("rows") or d.get("notes") or []
        n = len(rows)
        sizes["1" if n <= 1 else "2-10" if n <= 10 else "11-50" if n <= 50 else "51-150" if n <= 150 else "151-400"] += 1
    zero = sum(1 for d in descs if any(r[1] == 0 for r in (d.get("rows") or d.get("notes") or [])))
    units = Counter(d.get("unit") for d in descs if d.get("unit"))
    near = sum(1 for r in results for kk in r.get("info", {}) if kk.startswith("near_tie"))
    uncovered = sum(1 for r in results for kk, v in r.get("info", {}).items() if kk.startswith("vosa_covers") and not v)
    modes = Counter(d["mode"] for d in descs if d["k"] == "midi")
    quant = sum(1 for d in descs if d["k"] == "midi" and d.get("qu"))
    sorted_skipped = sum(1 for r in results for kk in r.get("info", {}) if kk.startswith("sorted_near_tie"))
    objs = Counter(d["kind"] for d in descs if d["k"] == "obj")
    domc = [d for d in descs if d.get("fam") == "dom" and "pc0" in d]
    optsp = Counter((r.get("info") or {}).get("opt_spelling") for r in results if (r.get("info") or {}).get("opt_spelling"))
    optkey = Counter((r.get("info") or {}).get("opt_key") for r in results if (r.get("info") or {}).get("opt_key"))
    stable = Counter(v for r in results for kk, v in (r.get("info") or {}).items() if kk.startswith("stable_"))
    mxs = Counter((r.get("info") or {}).get("mx_shape") for r in results if (r.get("info") or {}).get("mx_shape"))
    mxd = [d for d in descs if d["k"] == "mx"]
    mxm = Counter(m[0] for d in mxd for tr in d["tracks"] for m in tr)
    return {"mx_files": dict(mxs), "mx_modes": dict(Counter(str(d["mode"]) for d in mxd)),
            "mx_quantization": dict(Counter("omitted" if d["qu"] == "omit" else "None" if d["qu"] is None else "0" if d["qu"] == 0 else "unit" for d in mxd)),
            "mx_messages": dict(mxm), "mx_note_on_velocity_0_as_off": sum(1 for d in mxd for tr in d["tracks"] for m in tr if m[0] == "note_on" and m[4] == 0),
            "mx_key_near_ties_not_compared": sum(1 for r in results if (r.get("info") or {}).get("mx_key_near_tie")),
            "midi_quantized": quant, "sorted_key_comparisons_skipped_as_near_ties": sorted_skipped, "object_inputs": dict(objs),
            "by_kind": dict(c), "rows": dict(sizes), "cases_with_zero_length_notes": zero, "units": dict(units),
            "key_comparisons_skipped_as_near_ties": near, "vosa_outputs_not_covering_ids": uncovered,
            "midi_modes": dict(modes),
            "key_argmax_stable_hypotheses_checked (eps=1e-12)": dict(stable),
            "voice_cases_with_exact_offsets (stream voicesxx)": sum(1 for r in results if (r.get("info") or {}).get("exact_offsets")),
            "estimate_spelling_option_calls": dict(optsp), "estimate_key_option_calls": dict(optkey),
            "ps13_dominated_window_cases": len(domc),
            "ps13_first_pc_x_dominant_pc_pairs_reached": len(set((d["pc0"], d["dom"]) for d in domc)),
            "ps13_dominated_variants": dict(Counter(d["variant"] for d in domc))}
