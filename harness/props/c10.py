"""C10 - signature, clef and measure maps return what is in force at the queried time.

Reading (how the words of the property are taken; the oracle below implements exactly this)
* "timeline positions": the integers first_point.t .. last_point.t of the part (the oracle judges
  these; the correspondence also compares a few positions before and after, where scipy answers
  NaN / the last value).
* "latest such element starting at or before t": the elements of that kind (and staff, for clefs)
  with the greatest start <= t; if several start at that same time any of them is accepted;
  "of the first one for positions before it": the elements with the smallest start.
* documented defaults: 4/4 (musical beats 4), fifths 0 / mode +1, clef row (staff, code of "none", 0, 0),
  one measure (first_point.t, last_point.t) with number 1; metrical position (0, 0) everywhere for a
  part WITHOUT measures (the warning "No measures found, metrical position 0 everywhere").
* staves: 1 .. the largest staff number carried by any note/rest, clef, direction or words (at least 1).
* measures do not overlap.  A position is judged for the measure maps only when exactly one measure
  [start, end) contains it.  The measure *length* reported by the metrical-position map is judged
  only for a measure that is directly followed by the next one (or is the last one): the code takes
  the distance between consecutive bar starts, and the property's quantifier has no gaps between
  measures.
* pickup: "treated as ending a full bar as documented" = when the first measure is shorter than
  beats x (divs per beat), its start is moved back to end - beats x (divs per beat), the time signature
  and the beat length being those at time 0 (the code measures both at time 0).  The oracle computes
  this independently and judges it only where it is unambiguous: the timeline starts at 0, a time
  signature starts at 0 (or the part has none: 4/4), no time-signature or quarter-duration change
  inside the first beat, and the timeline is at least one beat long.  A non-integral corrected start
  may be rounded either way.  Elsewhere only the end (and everything about later measures) is judged.
* a measure without a number has no number to report: not judged.
* scalar/array agreement: f(x) for a Python int, f(np.array(xs)) and f(list(xs)) give the same rows.
"""
import json
import math
from fractions import Fraction

import numpy as np

import wire as W
from core import Eval

PROPERTY = "C10"
DRIVER = "drv_c10"
PROPS = ["PartituraModel.Props.C10"]
TRUSTED = [
    "scipy.interpolate.interp1d(kind='previous', fill_value='extrapolate'): index = #{x_i <= q} clipped to 1..n, "
    "NaN below the first sample (modelled by lastLE; exercised at positions before the first sample)",
    "scipy PPoly([[1..],[0..]], barlines): x - (start of the interval holding x), first/last interval outside",
    "Part.iter_all yields elements in time order (the tables reach scipy already sorted; argsort is the identity)",
    "divs_per_beat = inv_beat_map(1 + beat_map(0)) is an input of the measure model, taken from the implementation "
    "(the beat maps are property C02); the oracle recomputes it as quarter_duration*4/beat_type where unambiguous",
    "NaN -> int64 conversion yields INT64_MIN on this platform (printed as `nan` on both sides)",
    "binary64 arithmetic on the generated domain (integer times, power-of-two beat types) is exact",
]
PARTIAL = [
    "scalar/array/list agreement of the implementation is compared (oracle), the theorem is about the model's vec",
    "ts/ks/clef_spec assume at most one element of a kind (and staff) per time (the Reading); for coincident "
    "elements lookup_spec states that the value of one of the rows in force is returned",
    "measure_spec/number_spec assume measures in time order without overlap (gaps allowed); the length component of "
    "metrical_spec assumes they tile (metrical_position_no_tiling gives the position component without that)",
    "pickup correction is specified relative to the time signature and beat length at time 0 (as the code measures them); "
    "divs_per_beat is a parameter of the model",
    "agreement of the note-array columns with the maps is compared on the implementation, not proved",
]
RULE = ("two structured generators over abstract parts built through Part.add/set_quarter_duration: 'musical' "
        "(tiling measures from a sequence of time signatures, optional pickup, irregular bars, late first signature/"
        "key/clef, staves without clef, missing key mode, missing measure numbers) and 'adversarial' (elements at "
        "arbitrary integer times, gaps before the first element, no measures / one measure / gaps between measures, "
        "coincident elements, malformed mode or clef sign); every map is queried at every integer position of the "
        "timeline (plus 2 before and after) as scalar, ndarray and list; distinct = distinct part description; "
        "non-trivial = the part has at least one element")
LEVEL_TEXT = ("Lean 4 theorems over an executable model of the six maps (all tables, all positions, by induction on the "
              "table) tied to the code by a differential run over generated parts (scalar and vector calls, note-array "
              "columns) and the regenerated MUSICAL_BEATS / CLEF_TO_INT tables.")

INT_MIN = -(2 ** 63)
CLEF_CODE = {"G": 0, "F": 1, "C": 2, "percussion": 3, "TAB": 4, "jianpu": 5, "none": 6}
MODES = ["major", "minor", None, "none", 1, -1]
SIGNS = ["G", "F", "C", "percussion", "TAB", "jianpu", "none"]


# ------------------------------------------------------------------ generators
def _sorted(l):
    return sorted(l, key=lambda e: e[0])  # stable: coincident elements keep their order


def gen_musical(rng):
    q0 = rng.choice([4, 4, 8, 12, 16, 24])
    nbars = rng.randint(1, 6)
    offset = rng.choice([0, 0, 0, 0, 0, 0, 0, q0, 3, 7])
    sigs = [(rng.choice([2, 3, 4, 4, 5, 6, 6, 7, 9, 12]), rng.choice([2, 4, 4, 8, 8, 16]))]
    ts, ms, ks, clefs, notes, words, dirs = [], [], [], [], [], [], []
    t = offset
    late_ts = rng.random() < 0.2
    cur = sigs[0]
    pickup = rng.random() < 0.45
    for i in range(nbars):
        if i > 0 and rng.random() < 0.3:
            cur = (rng.choice([2, 3, 4, 5, 6, 7, 9, 12]), rng.choice([2, 4, 8, 16]))
            ts.append([t, cur[0], cur[1]])
        elif i == 0 and not late_ts:
            ts.append([t, cur[0], cur[1]])
        elif i == 1 and late_ts:
            ts.append([t, cur[0], cur[1]])
        full = cur[0] * q0 * 4 // cur[1]
        ln = full
        if i == 0 and pickup and full > 1:
            ln = rng.randint(1, full - 1)
        elif rng.random() < 0.15:
            ln = max(1, full + rng.choice([-2, -1, 1, 2, q0]))
        num = i + 1
        if i > 0 and rng.random() < 0.1:
            num = None
        ms.append([t, t + ln, num])
        t += ln
    end = t
    if rng.random() < 0.1:
        ms = []
    elif rng.random() < 0.1 and len(ms) > 1:
        ms = ms[:1] if rng.random() < 0.5 else ms[:-1]
    # key signatures
    for _ in range(rng.choice([0, 1, 1, 2, 3])):
        kt = rng.choice([offset, offset, rng.randint(offset, end)] + [m[0] for m in ms])
        if all(k[0] != kt for k in ks):
            ks.append([kt, rng.randint(-7, 7), rng.choice(MODES)])
    nst = rng.choice([1, 1, 2, 2, 3])
    for _ in range(rng.choice([0, 1, 2, 3, 4])):
        ct = rng.choice([offset, offset, rng.randint(offset, end)])
        st = rng.randint(1, nst)
        if all((c[0], c[1]) != (ct, st) for c in clefs):
            clefs.append([ct, st, rng.choice(SIGNS), rng.randint(0, 5), rng.choice([None, 0, 0, 1, -1, 2])])
    for j in range(rng.choice([0, 1, 2, 4, 6])):
        nt = rng.randint(offset, max(offset, end - 1))
        notes.append([nt, rng.randint(1, max(1, q0)), rng.choice([None, 1, rng.randint(1, nst + 1)]), rng.choice([None, 1, 2])])
    if rng.random() < 0.2:
        words.append([rng.randint(offset, end), rng.choice([None, 1, nst + 1])])
    if rng.random() < 0.2:
        dirs.append([rng.randint(offset, end), rng.choice([None, 1, nst + 2])])
    qd = []
    if rng.random() < 0.12 and end > offset + 1:
        qd.append([rng.randint(1, end), rng.choice([q0 * 2, q0 // 2 or 1, 6])])
    return {"gen": "musical", "q0": q0, "qd": qd, "ts": _sorted(ts), "ks": _sorted(ks), "clefs": _sorted(clefs),
            "ms": _sorted(ms), "notes": _sorted(notes), "words": words, "dirs": dirs, "rev": rng.random() < 0.3}


def gen_adversarial(rng):
    q0 = rng.choice([1, 2, 4, 4, 8])
    T = rng.randint(1, 30)
    g = rng.choice([0, 0, 0, 0, 2, 5])
    rt = lambda: rng.randint(g, g + T)
    ts, ks, clefs, ms, notes, words, dirs = [], [], [], [], [], [], []
    dup = rng.random() < 0.08
    for _ in range(rng.choice([0, 1, 1, 2, 3, 4])):
        t = rng.choice([g, rt(), rt()])
        if dup or all(e[0] != t for e in ts):
            ts.append([t, rng.choice([1, 2, 3, 4, 5, 6, 7, 9, 11, 12, 13]), rng.choice([1, 2, 4, 8, 16, 32])])
    for _ in range(rng.choice([0, 1, 1, 2, 3, 4])):
        t = rng.choice([g, rt(), rt()])
        if dup or all(e[0] != t for e in ks):
            ks.append([t, rng.randint(-7, 7), rng.choice(MODES)])
    nst = rng.choice([1, 1, 2, 3, 4])
    for _ in range(rng.choice([0, 0, 1, 2, 3, 5])):
        t, st = rng.choice([g, rt(), rt()]), rng.randint(1, nst)
        if dup or all((e[0], e[1]) != (t, st) for e in clefs):
            clefs.append([t, st, rng.choice(SIGNS), rng.randint(0, 6), rng.choice([None, 0, 1, -1, -2])])
    mode = rng.choice(["none", "one", "tile", "tile", "tile", "gaps"])
    if mode == "one":
        s = rt()
        ms.append([s, s + rng.randint(1, T + 2), rng.choice([1, 5, None])])
    elif mode in ("tile", "gaps"):
        t = rng.choice([g, g, rt()])
        for i in range(rng.randint(2, 6)):
            ln = rng.randint(1, 8)
            num = rng.choice([i + 1, i + 1, i + 1, 10 * i, None]) if i > 0 else rng.choice([1, 1, 0, None])
            ms.append([t, t + ln, num])
            t += ln
            if mode == "gaps" and rng.random() < 0.5:
                t += rng.randint(1, 3)
    for _ in range(rng.choice([0, 1, 2, 3])):
        notes.append([rt(), rng.randint(1, 4), rng.choice([None, 1, rng.randint(1, nst + 1)]), rng.choice([None, 1, 3])])
    if rng.random() < 0.25:
        words.append([rt(), rng.choice([None, 1, nst + 1])])
    if rng.random() < 0.25:
        dirs.append([rt(), rng.choice([None, 2, nst + 1])])
    qd = []
    if rng.random() < 0.15:
        qd.append([rng.randint(1, g + T), rng.choice([1, 2, 3, 4, 8])])
    d = {"gen": "adversarial", "q0": q0, "qd": qd, "ts": _sorted(ts), "ks": _sorted(ks), "clefs": _sorted(clefs),
         "ms": _sorted(ms), "notes": _sorted(notes), "words": words, "dirs": dirs, "rev": rng.random() < 0.5}
    r = rng.random()
    if r < 0.03 and d["ks"]:
        d["ks"][rng.randrange(len(d["ks"]))][2] = rng.choice(["dorian", 0, "Major"])
    elif r < 0.06 and d["clefs"]:
        d["clefs"][rng.randrange(len(d["clefs"]))][2] = rng.choice(["g", "X"])
    return d


def cases(rng, tier):
    n = {"quick": 150, "thorough": 5000, "search": 3000}.get(tier, 150)
    for i in range(n):
        d = gen_musical(rng) if i % 2 == 0 else gen_adversarial(rng)
        # the maps of a part are also queried after switching it to musical beats (compound metres count
        # dotted beats): the measure maps must not depend on the beat mode
        if rng.random() < 0.3:
            d["musical_mode"] = True
        if rng.random() < 0.35:
            nobj = len(d["ts"]) + len(d["ks"]) + len(d["clefs"]) + len(d["ms"]) + len(d["notes"]) + len(d.get("words", [])) + len(d.get("dirs", []))
            if nobj >= 2:
                d["warm"] = rng.randint(1, nobj - 1)
                d["rev"] = d.get("rev") or rng.random() < 0.6  # adding from the end makes the timeline grow to the left
        yield d


# ------------------------------------------------------------------ building the real Part
def build(desc):
    import partitura.score as S

    part = S.Part("P0", quarter_duration=desc["q0"])
    for t, q in desc.get("qd", []):
        part.set_quarter_duration(t, q)
    objs = []
    for t, b, bt in desc["ts"]:
        objs.append((t, None, S.TimeSignature(b, bt)))
    for t, f, m in desc["ks"]:
        objs.append((t, None, S.KeySignature(f, m)))
    for t, st, sg, ln, oc in desc["clefs"]:
        objs.append((t, None, S.Clef(st, sg, ln, oc)))
    for s, e, num in desc["ms"]:
        objs.append((s, e, S.Measure(num)))
    for i, (t, dur, st, vc) in enumerate(desc["notes"]):
        objs.append((t, t + dur, S.Note("CDEFGAB"[i % 7], 4, 0, id="n%d" % i, voice=vc, staff=st)))
    for t, st in desc.get("words", []):
        objs.append((t, None, S.Words("w", staff=st)))
    for t, st in desc.get("dirs", []):
        objs.append((t, None, S.LoudnessDirection("f", staff=st)))
    if desc.get("rev"):
        objs.sort(key=lambda o: -o[0])  # stable: coincident elements keep their relative order
    warm = desc.get("warm")
    for k, (t, e, o) in enumerate(objs):
        if warm is not None and k == warm:
            # the maps are views of the part as it is NOW: querying them while the part is half built and then
            # going on editing must not leave anything stale behind
            for nm in ("time_signature_map", "key_signature_map", "clef_map", "measure_map", "measure_number_map",
                       "metrical_position_map"):
                try:
                    getattr(part, nm)(0)
                except Exception:
                    pass
        part.add(o, t, e)
    if desc.get("musical_mode"):
        part.use_musical_beat()
    return part


# ------------------------------------------------------------------ canonical forms of the implementation's answers
def _f(v):
    v = float(v)
    return None if v != v else v


def _i(v):
    v = int(v)
    return "nan" if v == INT_MIN else "%d" % v


def canon_float_rows(a, k):
    a = np.asarray(a)
    if a.ndim == 1:
        assert a.shape == (k,), a.shape
        return [_f(v) for v in a]
    assert a.ndim == 2 and a.shape[1] == k, a.shape
    return [[_f(v) for v in r] for r in a]


def _tuple_i(vals):
    vals = [_i(v) for v in vals]
    return "nan" if "nan" in vals and all(v == "nan" for v in vals) else "(" + ",".join(vals) + ")"


def canon_clef(a, n=None):
    """scalar: (S,4) -> one text; vector: (S,N,4) -> list of texts"""
    a = np.asarray(a)
    if a.ndim == 2:
        assert a.shape[1] == 4
        return "[" + ",".join(_tuple_i(r) for r in a) + "]"
    assert a.ndim == 3 and a.shape[2] == 4 and (n is None or a.shape[1] == n), a.shape
    return ["[" + ",".join(_tuple_i(a[s, i]) for s in range(a.shape[0])) + "]" for i in range(a.shape[1])]


def canon_mm(a):
    a = np.asarray(a)
    if a.ndim == 1:
        assert a.shape == (2,)
        return _tuple_i(a)
    assert a.ndim == 2 and a.shape[1] == 2
    return [_tuple_i(r) for r in a]


def canon_mn(a):
    a = np.asarray(a)
    if a.ndim == 0:
        return _i(a)
    assert a.ndim == 1
    return [_i(v) for v in a]


def canon_mp(a):
    if isinstance(a, tuple):
        assert len(a) == 2
        return "(" + _i(a[0]) + "," + _i(a[1]) + ")"
    a = np.asarray(a)
    if a.ndim == 1:
        assert a.shape == (2,)
        return "(" + _i(a[0]) + "," + _i(a[1]) + ")"
    assert a.ndim == 2 and a.shape[1] == 2
    return ["(" + _i(r[0]) + "," + _i(r[1]) + ")" for r in a]


def _same(a, b):
    """equality of canonical forms (None = NaN equals itself)"""
    return a == b


# ------------------------------------------------------------------ oracle helpers (plain Python, independent of the model)
def in_force(elems, x):
    """elems: [(t, value)]; the set of acceptable values at x, None when there is no element"""
    if not elems:
        return None
    le = [t for t, _ in elems if t <= x]
    t0 = max(le) if le else min(t for t, _ in elems)
    return [v for t, v in elems if t == t0]


def musical_beats(beats):
    return {6: 2, 9: 3, 12: 4}.get(beats, beats)


def mode_code(m):
    return -1 if m in ("minor", -1) else 1


def expected_first_start(desc, first_t, last_t):
    """pickup-corrected start of the first measure: a set of acceptable integers, or None = not judged"""
    s0, e0 = desc["ms"][0][0], desc["ms"][0][1]
    if first_t != 0:
        return None
    ts = desc["ts"]
    if ts:
        at0 = [e for e in ts if e[0] == 0]
        if len(at0) != 1:
            return None
        beats0, bt0 = at0[0][1], at0[0][2]
    else:
        beats0, bt0 = 4, 4
    d = Fraction(desc["q0"] * 4, bt0)
    if any(0 < e[0] < d for e in ts) or any(0 < t < d for t, _ in desc.get("qd", [])):
        return None
    if any(t == 0 for t, _ in desc.get("qd", [])):
        return None
    if last_t < d:
        return None
    full = beats0 * d
    if e0 - s0 < full:
        v = e0 - full
        return {math.floor(v), math.ceil(v)}
    return {s0}


def valid_desc(desc):
    """inside the property's quantifier: known modes and clef signs"""
    return all(k[2] in MODES for k in desc["ks"]) and all(c[2] in CLEF_CODE for c in desc["clefs"])


def measures_ok(desc):
    ms = desc["ms"]
    return all(ms[i][1] <= ms[i + 1][0] for i in range(len(ms) - 1)) and all(m[0] < m[1] for m in ms)


# ------------------------------------------------------------------ evaluation
def call(f, *a):
    try:
        return f(*a), None
    except BaseException as e:
        if isinstance(e, (KeyboardInterrupt, SystemExit)):
            raise
        return None, e


class ShapeError(Exception):
    pass


def query_all(getmap, xs, canon0):
    """returns (scalar rows, vector rows, list rows, error): each a list with one canonical entry per x;
    a result of an unexpected shape counts as an error of the implementation (not of the harness)"""

    def canon(r, n=None):
        try:
            c = canon0(r)
        except (AssertionError, TypeError, ValueError, IndexError) as e:
            raise ShapeError("result of unexpected shape/type: %r" % (getattr(r, "shape", type(r).__name__),))
        def is_row(v):
            return isinstance(v, str) or (isinstance(v, list) and len(v) > 0 and all(w is None or isinstance(w, float) for w in v))

        if n is None:
            if not is_row(c):
                raise ShapeError("scalar call gave %s rows" % (len(c) if isinstance(c, list) else "?"))
        elif is_row(c) or not isinstance(c, list) or len(c) != n or not all(is_row(v) for v in c):
            raise ShapeError("vector call gave %s for %d positions" % ("one row" if is_row(c) else "%d rows" % len(c), n))
        return c

    m, e = call(getmap)
    if e:
        return None, None, None, e
    sc = []
    for x in xs:
        r, e = call(m, int(x))
        if not e:
            r, e = call(canon, r)
        if e:
            return None, None, None, e
        sc.append(r)
    r, e = call(m, np.array(xs, dtype=int))
    if not e:
        r, e = call(canon, r, len(xs))
    if e:
        return sc, None, None, e
    vec = r
    r, e = call(m, [int(x) for x in xs])
    if not e:
        r, e = call(canon, r, len(xs))
    if e:
        return sc, vec, None, e
    return sc, vec, r, None


def evaluate(desc):
    import warnings

    warnings.filterwarnings("ignore")
    np.seterr(all="ignore")
    from partitura.utils.music import note_array_from_part

    ev = Eval()
    orc = ev.oracle
    part = build(desc)
    fp, lp = part.first_point, part.last_point
    first_t = None if fp is None else fp.t
    last_t = None if lp is None else lp.t
    span_tok = "-" if fp is None else "%d %d" % (first_t, last_t)
    lo = 0 if fp is None else max(0, first_t - 2)
    hi = 0 if fp is None else last_t + 2
    xs = list(range(lo, hi + 1))
    judged = [] if fp is None else [x for x in xs if first_t <= x <= last_t]
    xs_tok = W.lst(W.i, xs)
    valid = valid_desc(desc)

    tss_tok = W.lst(lambda e: "%d %d %d" % (e[0], e[1], e[2]), desc["ts"])
    kss_tok = W.lst(lambda e: "%d %d %s" % (e[0], e[1], W.s(e[2])), desc["ks"])
    clefs_tok = W.lst(lambda e: "%d %d %s %d %s" % (e[0], e[1], W.s(e[2]), e[3], W.opt(W.i, e[4])), desc["clefs"])
    others = [n[2] for n in desc["notes"] if n[2] is not None] + [w[1] for w in desc.get("words", []) if w[1] is not None] \
        + [w[1] for w in desc.get("dirs", []) if w[1] is not None]
    others_tok = W.lst(W.i, others)
    ms_tok = W.lst(lambda e: "%d %d" % (e[0], e[1]), desc["ms"])
    msn_tok = W.lst(lambda e: "%d %d %s" % (e[0], e[1], W.opt(W.i, e[2])), desc["ms"])

    # divs_per_beat as the implementation computes it (input of the measure model; see TRUSTED)
    d_tok = "-"
    stable = True  # binary64 and exact evaluation of the pickup rule agree (else the measure maps are not compared)
    if desc["ms"]:
        dv, e = call(lambda: float(part.inv_beat_map(1 + part.beat_map(0))))
        if e:
            d_tok = "err"
        elif dv == dv:
            b0, e2 = call(lambda: float(part.time_signature_map(0)[0]))
            if desc.get("musical_mode") and not e2 and b0 == b0 and b0 > 0:
                # with musical beats in use the beat map (hence dv) counts musical beats; the model's bar length is
                # beats0 * d with the NOTATED beat count, so hand it the divisions per notated beat (exact rescaling)
                mb0 = float(part.time_signature_map(0)[2])
                dv_model = Fraction(dv) * Fraction(mb0) / Fraction(b0)
                d_tok = W.q(dv_model)
                dv = float(dv_model)
            else:
                d_tok = W.q(dv)
            if not e2 and b0 == b0:
                s0, e0 = desc["ms"][0][0], desc["ms"][0][1]
                pf, pq = b0 * dv, Fraction(b0) * Fraction(dv)
                if ((e0 - s0) < pf) != ((e0 - s0) < pq):
                    stable = False
                v = Fraction(e0) - pq
                if abs((v - math.floor(v)) - Fraction(1, 2)) < Fraction(1, 10 ** 6):
                    stable = False

    def emit(name, req, sc, vec, lst, err, approx_k=None):
        """two observations per map: the scalar calls and the array call"""
        for tag, rows in (("s", sc), ("v", vec)):
            if not stable and name in ("measure_map", "measure_number_map", "metrical_position_map"):
                break
            ev.requests.append(req)
            if rows is None:
                ev.impl.append("err")
            elif approx_k is not None:
                ev.impl.append(("@approx", rows, 1e-9))
            else:
                ev.impl.append("[" + ",".join(rows) + "]")
        if err is None:
            if not _same(sc, vec):
                bad = [x for x, a, b in zip(xs, sc, vec) if a != b]
                orc.append("scalar-vector: %s: scalar and ndarray calls differ at positions %s" % (name, bad[:5]))
            if not _same(vec, lst):
                orc.append("scalar-vector: %s: ndarray and list calls differ (list call gives %d rows for %d positions)" % (
                    name, len(lst) if isinstance(lst, list) else -1, len(xs)))
        elif isinstance(err, ShapeError):
            orc.append("scalar-vector: %s: %s" % (name, str(err)[:160]))
        elif valid and not (name in ("measure_number_map",) and mn_unfillable):
            orc.append("raises: %s raised %s: %s" % (name, type(err).__name__, str(err)[:120]))

    # does a None measure number survive the one-step back-fill of measure_number_map? (then nothing to report)
    nums = [m[2] for m in desc["ms"]]
    mn_unfillable = any(n is None and nums[i - 1] is None for i, n in enumerate(nums))

    # ---- the six maps
    ts_s, ts_v, ts_l, ts_e = query_all(lambda: part.time_signature_map, xs, lambda a: canon_float_rows(a, 3))
    emit("time_signature_map", "ts %s %s %s" % (span_tok, tss_tok, xs_tok), ts_s, ts_v, ts_l, ts_e, 3)
    ks_s, ks_v, ks_l, ks_e = query_all(lambda: part.key_signature_map, xs, lambda a: canon_float_rows(a, 2))
    emit("key_signature_map", "ks %s %s %s" % (span_tok, kss_tok, xs_tok), ks_s, ks_v, ks_l, ks_e, 2)
    cl_s, cl_v, cl_l, cl_e = query_all(lambda: part.clef_map, xs, lambda a: canon_clef(a))
    emit("clef_map", "clef %s %s %s %s" % (span_tok, clefs_tok, others_tok, xs_tok), cl_s, cl_v, cl_l, cl_e)
    mm_s, mm_v, mm_l, mm_e = query_all(lambda: part.measure_map, xs, canon_mm)
    emit("measure_map", "mm %s %s %s %s %s" % (span_tok, tss_tok, ms_tok, d_tok, xs_tok), mm_s, mm_v, mm_l, mm_e)
    mn_s, mn_v, mn_l, mn_e = query_all(lambda: part.measure_number_map, xs, canon_mn)
    emit("measure_number_map", "mn %s %s %s %s %s" % (span_tok, tss_tok, msn_tok, d_tok, xs_tok), mn_s, mn_v, mn_l, mn_e)
    mp_s, mp_v, mp_l, mp_e = query_all(lambda: part.metrical_position_map, xs, canon_mp)
    emit("metrical_position_map", "mp %s %s %s %s %s" % (span_tok, tss_tok, ms_tok, d_tok, xs_tok), mp_s, mp_v, mp_l, mp_e)

    # ---- oracle: the property statement by direct scan of the elements
    if valid and fp is not None:
        idx = {x: i for i, x in enumerate(xs)}
        ts_el = [(e[0], (e[1], e[2], musical_beats(e[1]))) for e in desc["ts"]]
        ks_el = [(e[0], (e[1], mode_code(e[2]))) for e in desc["ks"]]
        staffs = [c[1] for c in desc["clefs"] if c[1] is not None] + others
        nst = max([1] + staffs)
        for x in judged:
            i = idx[x]
            if ts_s is not None:
                want = in_force(ts_el, x) or [(4, 4, 4)]
                got = ts_s[i]
                if None in got or tuple(got) not in [tuple(float(v) for v in w) for w in want]:
                    orc.append("ts-in-force: time_signature_map(%d) = %s, in force %s" % (x, got, want))
            if ks_s is not None:
                want = in_force(ks_el, x) or [(0, 1)]
                got = ks_s[i]
                if None in got or tuple(got) not in [tuple(float(v) for v in w) for w in want]:
                    orc.append("ks-in-force: key_signature_map(%d) = %s, in force %s" % (x, got, want))
            if cl_s is not None:
                rows = []
                for s in range(1, nst + 1):
                    el = [(c[0], (s, CLEF_CODE[c[2]], c[3], c[4] if c[4] is not None else 0)) for c in desc["clefs"] if c[1] == s]
                    rows.append(in_force(el, x) or [(s, CLEF_CODE["none"], 0, 0)])
                # any combination of acceptable rows
                got = cl_s[i]
                ok = got.startswith("[") and got.endswith("]")
                parts = got[1:-1].replace("),(", ")|(").split("|") if ok and got != "[]" else []
                if len(parts) != nst:
                    ok = False
                else:
                    for p, want in zip(parts, rows):
                        if p not in ["(%d,%d,%d,%d)" % w for w in want]:
                            ok = False
                if not ok:
                    orc.append("clef-in-force: clef_map(%d) = %s, in force per staff %s" % (x, got, rows))
        # measures
        ms = desc["ms"]
        if not ms:
            for x in judged:
                i = idx[x]
                if mm_s is not None and mm_s[i] != "(%d,%d)" % (first_t, last_t):
                    orc.append("measure-default: measure_map(%d) = %s without measures, timeline is (%d,%d)" % (x, mm_s[i], first_t, last_t))
                if mn_s is not None and mn_s[i] != "1":
                    orc.append("measure-default: measure_number_map(%d) = %s without measures" % (x, mn_s[i]))
                if mp_s is not None and mp_s[i] != "(0,0)":
                    orc.append("measure-default: metrical_position_map(%d) = %s without measures" % (x, mp_s[i]))
        elif measures_ok(desc):
            first_ok = expected_first_start(desc, first_t, last_t)
            ev.info["pickup_judged"] = first_ok is not None
            ev.info["pickup_corrected"] = first_ok is not None and ms[0][0] not in first_ok
            for x in judged:
                i = idx[x]
                inside = [k for k, m in enumerate(ms) if m[0] <= x < m[1]]
                if len(inside) != 1:
                    continue
                k = inside[0]
                s, e, num = ms[k]
                starts = {s} if k > 0 else first_ok
                if mm_s is not None:
                    got = mm_s[i]
                    good = got != "nan" and got.endswith(",%d)" % e) and (starts is None or got in ["(%d,%d)" % (a, e) for a in starts])
                    if not good:
                        orc.append("measure-extent: measure_map(%d) = %s, containing measure (%s,%d)%s" % (
                            x, got, sorted(starts) if starts else "?", e, " [first measure, pickup rule]" if k == 0 else ""))
                if mn_s is not None and num is not None and mn_s[i] != "%d" % num:
                    orc.append("measure-number: measure_number_map(%d) = %s, containing measure has number %d" % (x, mn_s[i], num))
                if mp_s is not None:
                    got = mp_s[i]
                    tiles = k == len(ms) - 1 or ms[k + 1][0] == e
                    if starts is not None:
                        want = ["(%d,%d)" % (x - a, e - a) for a in starts]
                        if tiles:
                            good = got in want
                        else:
                            good = any(got.startswith("(%d," % (x - a)) for a in starts)
                        if not good:
                            orc.append("metrical-position: metrical_position_map(%d) = %s, expected (t-start, length) in %s%s" % (
                                x, got, want, "" if tiles else " [length not judged: gap follows]"))

    # ---- note-array columns against the maps at the onsets
    if desc["notes"] and valid:
        onsets = {"n%d" % i: n[0] for i, n in enumerate(desc["notes"])}
        ms = desc["ms"]
        inside_all = (not ms) or all(any(m[0] <= t < m[1] for m in ms) for t in onsets.values())
        inc_mp = inside_all and mp_e is None and measures_ok(desc)
        na, e = call(lambda: note_array_from_part(part, include_key_signature=True, include_time_signature=True,
                                                  include_metrical_position=inc_mp, include_staff=True))
        if e:
            orc.append("note-array: note_array_from_part raised %s: %s" % (type(e).__name__, str(e)[:120]))
        else:
            ids = sorted(onsets, key=lambda s: int(s[1:]))
            rows = {str(r["id"]): r for r in na}
            if sorted(rows) != sorted(ids):
                orc.append("note-array: ids %s != %s" % (sorted(rows), sorted(ids)))
            else:
                on = [onsets[i] for i in ids]
                on_tok = W.lst(W.i, on)
                tsm, ksm = part.time_signature_map, part.key_signature_map
                mpm = part.metrical_position_map if inc_mp else None
                col_ts = [[float(rows[i]["ts_beats"]), float(rows[i]["ts_beat_type"]), float(rows[i]["ts_mus_beats"])] for i in ids]
                col_ks = [[float(rows[i]["ks_fifths"]), float(rows[i]["ks_mode"])] for i in ids]
                ev.requests.append("ts %s %s %s" % (span_tok, tss_tok, on_tok))
                ev.impl.append(("@approx", col_ts, 1e-9))
                ev.requests.append("ks %s %s %s" % (span_tok, kss_tok, on_tok))
                ev.impl.append(("@approx", col_ks, 1e-9))
                for i, t, cts, cks in zip(ids, on, col_ts, col_ks):
                    if [float(v) for v in tsm(t)] != cts:
                        orc.append("note-array: note %s at %d has time-signature columns %s, the map says %s" % (i, t, cts, list(tsm(t))))
                    if [float(v) for v in ksm(t)] != cks:
                        orc.append("note-array: note %s at %d has key-signature columns %s, the map says %s" % (i, t, cks, list(ksm(t))))
                    st = desc["notes"][int(i[1:])][2]
                    if int(rows[i]["staff"]) != (st or 0):
                        orc.append("note-array: note %s staff column %d, note staff %r" % (i, int(rows[i]["staff"]), st))
                if inc_mp and stable:
                    col_mp = ["(%d,%d)" % (int(rows[i]["rel_onset_div"]), int(rows[i]["tot_measure_div"])) for i in ids]
                    ev.requests.append("mp %s %s %s %s %s" % (span_tok, tss_tok, ms_tok, d_tok, on_tok))
                    ev.impl.append("[" + ",".join(col_mp) + "]")
                    for i, t, c in zip(ids, on, col_mp):
                        if canon_mp(mpm(t)) != c:
                            orc.append("note-array: note %s at %d has metrical columns %s, the map says %s" % (i, t, c, canon_mp(mpm(t))))
                        if int(rows[i]["is_downbeat"]) != (1 if int(rows[i]["rel_onset_div"]) == 0 else 0):
                            orc.append("note-array: note %s is_downbeat %d with rel_onset_div %d" % (i, int(rows[i]["is_downbeat"]), int(rows[i]["rel_onset_div"])))

    nontrivial = any(desc[k] for k in ("ts", "ks", "clefs", "ms", "notes"))
    ev.key = json.dumps(desc, sort_keys=True, default=str) if nontrivial else None
    ev.info.update({"gen": desc.get("gen"), "n_ms": len(desc["ms"]), "first_t": first_t, "stable": stable,
                    "positions_judged": len(judged)})
    return ev


def finding_key(desc, failure):
    return failure.split(":")[0]


def shrink(desc):
    for k in ("notes", "words", "dirs", "qd", "clefs", "ks", "ts", "ms"):
        l = desc.get(k, [])
        for i in range(len(l)):
            d = dict(desc)
            d[k] = l[:i] + l[i + 1:]
            yield d
    if desc.get("rev"):
        d = dict(desc)
        d["rev"] = False
        yield d


def distribution(descs, results):
    from collections import Counter

    c = Counter()
    for d in descs:
        c["gen:" + str(d.get("gen", "corpus"))] += 1
        c["measures:%s" % min(len(d["ms"]), 3)] += 1
        c["ts:%s" % min(len(d["ts"]), 3)] += 1
        c["ks:%s" % min(len(d["ks"]), 3)] += 1
        c["clefs:%s" % min(len(d["clefs"]), 3)] += 1
        if d["ts"] and d["ts"][0][0] > 0:
            c["late_first_ts"] += 1
        if any(k[2] is None for k in d["ks"]):
            c["missing_mode"] += 1
        if d.get("qd"):
            c["quarter_duration_change"] += 1
    errs = sum(1 for r in results for x in r["impl"] if x == "err")
    for r in results:
        inf = r.get("info") or {}
        for k in ("pickup_judged", "pickup_corrected"):
            if inf.get(k):
                c[k] += 1
        if inf.get("stable") is False:
            c["pickup_rule_float_unstable(not compared)"] += 1
        if inf.get("first_t"):
            c["timeline_starts_after_0"] += 1
        c["positions_judged"] += inf.get("positions_judged", 0)
    c["error_observations"] = errs
    return dict(c)
