"""C10 - signature, clef and measure maps return what is in force at the queried time.

Reading (how the words of the property are taken; the oracle below implements exactly this)
* "timeline positions": the integers first_point.t .. last_point.t of the part (the oracle judges
  these; the correspondence also compares a few positions before and after, where scipy answers
  NaN / the last value).  Every one of them is queried when the timeline has at most 160 positions (or the case
  says probe=all); a longer timeline (divisions 96 .. 10080) is queried at every time point of the timeline and
  its neighbours (+-2), one beat / one bar after 0, the middle of and a random point in every stretch, and 24
  positions drawn from a generator seeded with the description (function `positions`).
* everything the measure maps and the derived note-array columns return is a whole number of divisions and is
  judged EXACTLY (Fraction arithmetic on the description), at every resolution: divisions 1..48, MIDI-like
  96..10080, odd 5..35; only a bar that is not a whole number of divisions may be rounded either way.
* "latest such element starting at or before t": the elements of that kind (and staff, for clefs)
  with the greatest start <= t; if several start at that same time any of them is accepted;
  "of the first one for positions before it": the elements with the smallest start.
* documented defaults: 4/4 (musical beats 4), fifths 0 / mode +1, clef row (staff, code of "none", 0, 0),
  one measure (first_point.t, last_point.t) with number 1; metrical position (0, 0) everywhere for a
  part WITHOUT measures (the warning "No measures found, metrical position 0 everywhere").
* staves: 1 .. the largest staff number carried by any note/rest, clef, direction or words (at least 1).
* measures do not overlap.  A position is judged for the measure maps only when exactly one measure
  [start, end) contains it.  The measure *length* reported by the metrical-position map is judged
  only for a measure that is directly followed by the next one (or is the last one): the code takes
  the distance between consecutive bar starts, and the property's quantifier has no gaps between
  measures.
* pickup: "treated as ending a full bar as documented" = when the first measure is shorter than
  beats x (divs per beat), its start is moved back to end - beats x (divs per beat), the time signature
  and the beat length being those at time 0 (the code measures both at time 0).  The oracle computes
  this independently and judges it only where it is unambiguous: the timeline starts at 0, a time
  signature starts at 0 (or the part has none: 4/4), no time-signature or quarter-duration change
  inside the first beat, and the timeline is at least one beat long.  A non-integral corrected start
  may be rounded either way.  Elsewhere only the end (and everything about later measures) is judged.
* the three measure maps speak of one "measure containing t": where measure_map places t in a measure, the number map
  reports that measure's number and the metrical map the distance from that start; where measure_map has none (before
  the pickup-corrected start of the first measure) the number map has none either (clause `measure-consistency`).
* a measure without a number has no number to report: not judged.
* scalar/array agreement: f(x) for a Python int, f(np.array(xs)) and f(list(xs)) give the same rows; so do a numpy
  integer scalar (one row) and a tuple; an empty list / array gives no rows.  A 0-dimensional array np.array(x) is
  both a scalar (np.ndim 0) and an array (an Iterable ndarray): the row of f(x), as a row or as a one-row array, is
  accepted by the oracle; which of the two each map gives is mirrored by the model and compared (round 6).
* "every part": a part is what its edit history left on the timeline.  The maps are views of the part as it is NOW:
  after any history of add / remove / set_quarter_duration / use_musical_beat / use_notated_beat /
  set_musical_beat_per_ts calls, interleaved with queries of the maps, every map equals the map of a part freshly
  built from the elements that are on the timeline (with their current musical_beats and the current beat mode).
  The musical beats of a time signature are those stored on it (default table 6->2, 9->3, 12->4; the table handed to
  use_musical_beat / set_musical_beat_per_ts for the signatures on the timeline at that moment; use_notated_beat
  resets them) - the harness simulates this documented rule in plain Python.
* a clef without a line (MusicXML percussion / TAB clefs carry none) is reported with line 0 (repaired, C10-11).
* outside the quantifier (compared with the model, never judged): unknown mode / clef sign, a time signature with
  0 beats, a clef that belongs to no staff (staff=None: no importer produces one; not generated), two consecutive
  measures without a number (the code back-fills one step; every importer numbers its measures).
* "the maps agree with the optional note-array columns derived from them": for ANY list of notes (rests) of the part
  handed to the public note_array_from_note_list (rest_array_from_rest_list) in ANY order together with the part's
  maps - and for note_array_from_part / rest_array_from_part with the include_* flags - every row's ks_* / ts_* /
  is_downbeat / rel_onset_div / tot_measure_div cells are the maps evaluated at THAT row's onset_div (and what is in
  force there by the clauses above); a map that is not handed in adds no column.  The order of the rows is not part of
  this property (C05); the correspondence compares it up to the order inside runs of equal onset and pitch.
* not covered: attributes of elements changed in place after a query (`note.staff = 3`): Part.number_of_staves is a
  cache that only add/remove invalidate (upstream design; a history of add/remove/switch calls is what is generated).
"""
import json
import math
from fractions import Fraction

import numpy as np

import wire as W
from core import Eval

PROPERTY = "C10"
DRIVER = "drv_c10"
PROPS = ["PartituraModel.Props.C10", "PartituraModel.Props.C10Part", "PartituraModel.Props.C10Timeline",
         "PartituraModel.Props.C10Exact", "PartituraModel.Props.C10Notes", "PartituraModel.Props.C10Source",
         "PartituraModel.Props.C10Order", "PartituraModel.Props.C10Hist",
         "PartituraModel.Props.C10Start", "PartituraModel.Props.C10Calls", "PartituraModel.Props.C10Fresh"]
TRUSTED = [
    "scipy.interpolate.interp1d(kind='previous', fill_value='extrapolate'): index = #{x_i <= q} clipped to 1..n, "
    "NaN below the first sample (modelled by lastLE; exercised at positions before the first sample)",
    "scipy PPoly([[1..],[0..]], barlines): x - (start of the interval holding x), first/last interval outside",
    "Part.iter_all yields the elements of a class in time order: no longer assumed silently - the start times the real "
    "iter_all delivers are handed to the model's `sortedTimes` (observation `sorted`), `sorted_check_sound` shows that this "
    "check is exactly the hypothesis of lookup_spec, and `tables_sorted_any_history` derives it for every valid edit "
    "history from C01's iterAll_correct over Model/Timeline.lean; what remains trusted is that the rows the harness "
    "simulates from the case description (stable order of coincident elements: insertion order, re-added elements last) "
    "are the rows the property builds - the independent oracle compares them with iter_all as multisets",
    "scipy.interpolate.interp1d(kind='linear') of the beat maps as modelled in Model/TimeMap.lean (property C02)",
    "NaN -> int64 conversion yields INT64_MIN on this platform (printed as `nan` on both sides)",
    "np.argsort(note_array['pitch']) (numpy's default sort, not stable) is modelled as a stable sort; the order of rows with "
    "equal onset and pitch is not compared.  With beat_map / quarter_map handed in, the array is sorted by the float32 "
    "onset_beat column (C05): the rows are then compared as a set ordered by (onset_div, pitch)",
    "a NaN measure length (position before the first bar line of a part with several measures) is INT64_MIN after "
    ".astype(int) and the i4 column of the note array keeps its low 32 bits (0): the harness prints that cell as `nan`",
    "harness/translate_c10.py reads defaults, pickup rounding, column layout and the one-row/array answer per kind of "
    "argument off the live functions by running them "
    "on probe parts (a part with one note and one rest; 3/8 at 3 divisions per quarter; 3/4 with two bars): that these probes are "
    "representative is what the correspondence streams check on every generated part",
    "binary64 arithmetic: the model is exact; that the float bar length beats_per_bar * divs_per_beat is within half a "
    "division of the exact one is what pickup_start_noise_free needs (observed within 1e-9 relative by the `dpb` "
    "comparison at every generated resolution, not proved about IEEE arithmetic); "
    "divs_per_beat / beats_per_bar are compared within 1e-9; a case whose "
    "corrected start is within 1e-6 of a rounding tie, or whose `1 + beat_map(0)` is within 1e-9 of the end of the beat "
    "map's range, is not compared for the three measure maps (counted in the distribution)",
]
PARTIAL = [
    "scalar/array agreement: the dispatch on the kind of argument (scipy / the wrapper's single-sample broadcast and "
    "np.ndim test / PPoly, the Iterable test and np.column_stack of the metrical map / the clef collator) is modelled "
    "as the code dispatches (Model/StepMapCalls.lean) and proved to agree without hypotheses (*_calls_agree, "
    "zerod_calls_agree, call_shapes) for a number, a 0-dimensional array and a flat sequence; the implementation is "
    "compared with it for int, np.int64, np.array(x), list, tuple, 1-d array, empty list and empty array; for a "
    "0-dimensional array metrical_position_map of a part with measures answers with a ONE-ROW ARRAY (numpy.ndarray is "
    "Iterable) where the other maps answer with the row: the values agree (theorem and oracle), the shape is mirrored, "
    "not judged; nested sequences and float positions are not modelled (outside the quantifier: 'integer positions, "
    "scalar and vector arguments')",
    "ts/ks/clef_spec assume at most one element of a kind (and staff) per time (the Reading); for coincident elements "
    "ks/ts/clef_coincident (Props/C10Order.lean) state which one is returned (the last in iter_all order, the first of the "
    "table before all of them); the ORACLE still accepts any of the coincident elements (the Reading)",
    "measure_spec/number_spec assume measures in time order without overlap (gaps allowed); for the part an edit "
    "history leaves the time order is derived (measures_ordered_after_history, measure_after_history, "
    "number_after_history: non-empty pairwise disjoint measures, added in any order, is all that is assumed); the length "
    "component of metrical_spec assumes they tile (metrical_position_no_tiling gives the position component without that)",
    "pickup_spec_described gives the closed form (full bar = beats * 4/beat_type quarters at the quarter duration in force "
    "at 0, in both beat modes) for a description whose first signature and quarter duration start at 0, with no later "
    "signature / quarter-duration change inside the first beat and a timeline at least one beat long (DescribedStart: "
    "conditions on the description only; the key-point conditions of SimpleStart are derived); without them "
    "divs_per_beat_spec still characterises divs_per_beat as the position one beat after position 0",
    "histories: Model/StepMapHist.lean models add / remove / re-add / beat-mode switches / set_quarter_duration on the "
    "elements the maps read and is compared with the state of the real part after every generated history (`hist`) and "
    "with the state of the harness's fresh build (`rebuild`); rebuild_same_tables proves that a fresh build of what is "
    "on the timeline has the same tables, time points and beat mode for EVERY history, rebuild_same_maps that the "
    "time-signature, key-signature and clef maps are therefore the same functions for EVERY history; the "
    "quarter-duration table is reproduced exactly when it has no redundant entry (rebuild_qd_normal, "
    "rebuild_any_history_normal; the counter-example with a redundant entry is in Props/C10Hist.lean).  For the three "
    "MEASURE maps of a part whose table has redundant entries the equality with the fresh build is proved where the "
    "part starts simply (rebuild_same_maps_described: the DescribedStart conditions of the pickup rule); outside that "
    "domain it needs `divs_per_beat` of the fresh build to be the same (rebuild_same_maps states exactly that; that a "
    "redundant entry does not change the beat map is property C02, here observed by the `rebuilddpb` stream and judged "
    "by the fresh-build oracle, not proved); set_quarter_duration at negative times is not generated (qd_head_zero and "
    "the fresh-build theorems assume times >= 0) and objects whose attributes are changed in place are not modelled",
    "the note-array theorems (Props/C10Notes.lean) are about the modelled columns: object, onset_div, pitch and the eight "
    "cells derived from the maps; the other columns (beats, quarters, duration, voice, id, spelling, grace, staff, "
    "divs_pq) and the voice pass are property C05; rows_sorted is about the model's stable sorts (sort key onset_div)",
    "pickup_maps_exact(_described) assume a bar of a whole number of divisions; pickup_start_nearest covers the other "
    "bars up to the direction of rounding",
]
RULE = ("three structured generators over abstract parts built through Part.add/set_quarter_duration (quick: 75 + 75 "
        "+ 300 cases): 'resolution' (divisions 96..10080, odd 5..35 and small ones; x/2 .. x/16 signatures; a pickup of an "
        "arbitrary number of divs - tuplet fractions of the beat, one div, one div short of the bar, anything - followed by "
        "1..8 bars, later signature and quarter-duration changes at bar lines, notes inside the pickup; 60% lean parts, the "
        "others with keys, clefs and more notes; long timelines are probed at the positions listed in the Reading), "
        "'musical' "
        "(tiling measures from a sequence of time signatures, optional pickup, irregular bars, late first signature/"
        "key/clef, staves without clef, missing key mode, missing measure numbers, clefs without line; 30% of them at the "
        "resolutions above) and 'adversarial' "
        "(elements at arbitrary integer times, gaps before the first element, no measures / one measure / gaps between "
        "measures, coincident elements, malformed mode or clef sign, 0 beats); where a kind (and staff) has three or more "
        "elements the piece mostly RETURNS to an earlier signature / clef (A B A); 40% of the cases continue with an edit "
        "history (queries of all maps, removal and re-adding of any element, use_musical_beat with default and custom "
        "tables, use_notated_beat, set_musical_beat_per_ts, set_quarter_duration; one history in four ends by setting a "
        "quarter duration and setting it back, which leaves a REDUNDANT table entry) and are compared with a fresh build "
        "of what is left; every map is queried at every integer position of the timeline (plus 2 before and after) as "
        "scalar, ndarray and list, and once each with a numpy integer, a 0-dimensional array, a tuple, an empty list and "
        "an empty array; every map object is also HELD while the caller overwrites in place the array it returned (for an "
        "int, an ndarray and a list query, when the array is writable) and is then asked again with ints and an array - "
        "the answers must be those of a map nobody wrote to; every case with notes also builds the note / rest arrays four ways: "
        "note_array_from_note_list / rest_array_from_rest_list called directly with a subset of the three maps (all 8 "
        "subsets; 30% also with beat and quarter maps) on the notes in score order / by pitch / reversed / shuffled / a "
        "hand-picked shuffled sub-list, and note_array_from_part / rest_array_from_part with the same include_* flags; 40% "
        "of the cases get 3-10 more notes with spellings of their own (octaves 2-6, accidentals), chords, repeated pitches "
        "and rests at and around every signature change and bar line; the state every history leaves (time points, quarter "
        "durations, all element tables with stored musical beats, beat mode, staves) is compared with the Lean history "
        "model; distinct = distinct part description; non-trivial = the part has at least one element")
LEVEL_TEXT = ("Lean 4 theorems over an executable model of the six maps as functions of the part description alone (all "
              "tables, all positions, by induction on the table; the pickup rule composed with C02's beat-map model, the "
              "table order derived from C01's timeline model for every edit history) tied to the code by a differential "
              "run over generated parts and edit histories (scalar and vector calls, divs_per_beat, note-array columns, "
              "iter_all order) and the regenerated MUSICAL_BEATS / CLEF_TO_INT tables.  Round 3: the integer tables are exact "
              "at every resolution (pickup_start_exact, pickup_maps_exact for all quarter durations), np.round absorbs any "
              "float noise below half a division while truncation is off by one (round_absorbs_noise, "
              "pickup_trunc_off_by_one), and the generators sample realistic divisions with exact Fraction expectations.  "
              "Round 5: the note / rest arrays built from the maps are in the model (loop in list order, i4 conversion, the "
              "two sorts, the include_* dispatch) with theorems for every list in every order (row_at_own_onset, "
              "columns_agree_with_maps, note_*_column_in_force, list_order_irrelevant, note_array_total); coincident "
              "elements (last in iter_all order) and edit histories (rebuild_same_tables: a fresh build of what is on the "
              "timeline reads the same) are theorems over a Lean history model compared with the real part's state; the "
              "pickup rule needs description-level hypotheses only (pickup_spec_described); defaults, the rounding of the "
              "pickup rule and the column layout are regenerated from the live functions (Gen/C10Tables.lean).  "
              "Round 6: metrical_position_map's call is modelled as the code dispatches (PPoly / wrapper / Iterable test / "
              "column_stack) and every *_calls_agree theorem is hypothesis-free, with 0-dimensional arrays as a third kind "
              "of argument (zerod_calls_agree, call_shapes; the one-row/array table is regenerated from the live maps: "
              "arg_shapes_from_source); for the part ANY history leaves the clef map and the measure maps are specified "
              "with the table order derived (clef_after_history, measure_after_history, number_after_history); a fresh "
              "build reproduces the whole description when the quarter-duration table has no redundant entry "
              "(rebuild_any_history_normal, qd_head_zero) and, redundant entries or not, has the same ts/ks/clef maps "
              "(rebuild_same_maps) and - where the part starts simply - the same six maps (rebuild_same_maps_described); "
              "the model of the fresh build is itself compared with the real fresh build (`rebuild`, `rebuilddpb`).")

INT_MIN = -(2 ** 63)
GEN_LINE_NONE = True  # clefs without a line (repaired by fixes/C10-11)
CLEF_CODE = {"G": 0, "F": 1, "C": 2, "percussion": 3, "TAB": 4, "jianpu": 5, "none": 6}
MODES = ["major", "minor", None, "none", 1, -1]
SIGNS = ["G", "F", "C", "percussion", "TAB", "jianpu", "none"]


# ------------------------------------------------------------------ generators
def _sorted(l):
    return sorted(l, key=lambda e: e[0])  # stable: coincident elements keep their order


def gen_musical(rng):
    q0 = rng.choice([4, 4, 8, 12, 16, 24]) if rng.random() < 0.7 else pick_resolution(rng)
    nbars = rng.randint(1, 6)
    offset = rng.choice([0, 0, 0, 0, 0, 0, 0, q0, 3, 7])
    sigs = [(rng.choice([2, 3, 4, 4, 5, 6, 6, 7, 9, 12]), rng.choice([2, 4, 4, 8, 8, 16]))]
    ts, ms, ks, clefs, notes, words, dirs = [], [], [], [], [], [], []
    t = offset
    late_ts = rng.random() < 0.2
    cur = sigs[0]
    pickup = rng.random() < 0.45
    for i in range(nbars):
        if i > 0 and rng.random() < 0.3:
            cur = (rng.choice([2, 3, 4, 5, 6, 7, 9, 12]), rng.choice([2, 4, 8, 16]))
            ts.append([t, cur[0], cur[1]])
        elif i == 0 and not late_ts:
            ts.append([t, cur[0], cur[1]])
        elif i == 1 and late_ts:
            ts.append([t, cur[0], cur[1]])
        full = cur[0] * q0 * 4 // cur[1]
        ln = full
        if i == 0 and pickup and full > 1:
            ln = rng.randint(1, full - 1)
        elif rng.random() < 0.15:
            ln = max(1, full + rng.choice([-2, -1, 1, 2, q0]))
        num = i + 1
        if i > 0 and rng.random() < 0.1:
            num = None
        ms.append([t, t + ln, num])
        t += ln
    end = t
    if rng.random() < 0.1:
        ms = []
    elif rng.random() < 0.1 and len(ms) > 1:
        ms = ms[:1] if rng.random() < 0.5 else ms[:-1]
    # key signatures
    for _ in range(rng.choice([0, 1, 1, 2, 3, 3, 4])):
        kt = rng.choice([offset, offset, rng.randint(offset, end)] + [m[0] for m in ms])
        if all(k[0] != kt for k in ks):
            ks.append([kt, rng.randint(-7, 7), rng.choice(MODES)])
    nst = rng.choice([1, 1, 2, 2, 3])
    for _ in range(rng.choice([0, 1, 2, 3, 4])):
        ct = rng.choice([offset, offset, rng.randint(offset, end)])
        st = rng.randint(1, nst)
        if all((c[0], c[1]) != (ct, st) for c in clefs):
            clefs.append([ct, st, rng.choice(SIGNS), rng.choice([None, 0, 1, 2, 3, 4, 5]), rng.choice([None, 0, 0, 1, -1, 2])])
    for j in range(rng.choice([0, 1, 2, 4, 6])):
        nt = rng.randint(offset, max(offset, end - 1))
        notes.append([nt, rng.randint(1, max(1, q0)), rng.choice([None, 1, rng.randint(1, nst + 1)]), rng.choice([None, 1, 2])])
    if rng.random() < 0.2:
        words.append([rng.randint(offset, end), rng.choice([None, 1, nst + 1])])
    if rng.random() < 0.2:
        dirs.append([rng.randint(offset, end), rng.choice([None, 1, nst + 2])])
    qd = []
    if rng.random() < 0.12 and end > offset + 1:
        qd.append([rng.randint(1, end), rng.choice([q0 * 2, q0 // 2 or 1, 6, pick_resolution(rng)])])
    return {"gen": "musical", "q0": q0, "qd": qd, "ts": _sorted(ts), "ks": _sorted(ks), "clefs": _sorted(clefs),
            "ms": _sorted(ms), "notes": _sorted(notes), "words": words, "dirs": dirs, "rev": rng.random() < 0.3}


# resolutions: the divisions real scores come with (MIDI-like ppq, MusicXML divisions with tuplets, odd ones);
# the float error of the two interpolations behind `divs_per_beat` cancels for 1..6, 8, 10, 12, 24 and shows up here
RES_LARGE = [96, 120, 192, 240, 360, 384, 420, 480, 768, 840, 960, 1024, 10080]
RES_ODD = [5, 7, 9, 11, 13, 15, 21, 25, 35]
RES_SMALL = [1, 2, 3, 4, 6, 8, 10, 12, 16, 24, 48]
RES_SIGS = [(4, 4), (3, 4), (2, 4), (6, 8), (2, 2), (3, 8), (9, 8), (12, 8), (5, 4), (3, 2), (7, 8), (4, 8), (5, 8),
            (12, 16), (6, 4), (4, 2), (7, 4), (6, 16), (3, 16), (1, 4)]


def pick_resolution(rng):
    r = rng.random()
    return rng.choice(RES_LARGE if r < 0.55 else RES_ODD if r < 0.9 else RES_SMALL)


def gen_resolution(rng):
    """parts at realistic resolutions: a pickup of an arbitrary number of divs (tuplet fractions of the beat, one div,
    one div short of the bar, anything), 1..8 full bars, x/2 .. x/16 signatures, later signature and quarter-duration
    changes at bar lines, notes at tuplet positions inside the pickup.  `lean` parts carry little else (many of them
    are cheap); the others carry keys, clefs, more notes."""
    lean = rng.random() < 0.6
    q0 = pick_resolution(rng)
    sig = rng.choice(RES_SIGS)
    for _ in range(6):  # mostly bars of a whole number of divs (a non-integral bar may be rounded either way)
        if (4 * q0 * sig[0]) % sig[1] == 0 and 4 * q0 * sig[0] // sig[1] >= 2:
            break
        if rng.random() < 0.15 and 4 * q0 * sig[0] >= 2 * sig[1]:
            break
        sig = rng.choice(RES_SIGS)
    else:
        sig = (4, 4)
    offset = 0 if rng.random() < 0.92 else rng.choice([q0, 1, 7])
    late_ts = rng.random() < 0.06
    nbars = rng.randint(1, 8)
    pickup = lean or rng.random() < 0.75
    ts, ms, ks, clefs, notes, words, dirs, qd = [], [], [], [], [], [], [], []
    q, cur, t = q0, sig, offset
    if not late_ts:
        ts.append([t, cur[0], cur[1]])
    beat = Fraction(4 * q0, sig[1])
    full0 = max(2, int(Fraction(4 * q0 * sig[0], sig[1])))
    plen = None
    if pickup:
        k = rng.random()
        cands = []
        if k < 0.5:  # a tuplet fraction of the beat (or of the quarter)
            for n in (3, 3, 5, 6, 7, 9, 10, 12, 15):
                for unit in (beat, Fraction(q0), Fraction(full0)):
                    for m in range(1, 2 * n):
                        v = unit * m / n
                        if v.denominator == 1 and 1 <= v < full0:
                            cands.append(int(v))
        if cands:
            plen = rng.choice(cands)
        elif k < 0.6:
            plen = rng.choice([1, full0 - 1, max(1, full0 // 2), max(1, full0 - int(beat) if beat >= 1 else 1)])
        else:
            plen = rng.randint(1, full0 - 1)
        ms.append([t, t + plen, rng.choice([0, 1, 1])])
        t += plen
    first_num = (ms[0][2] + 1) if ms else 1
    for i in range(nbars):
        if i > 0 and rng.random() < (0.1 if lean else 0.25):
            cur = rng.choice(RES_SIGS)
            ts.append([t, cur[0], cur[1]])
        elif i == 1 and late_ts:
            ts.append([t, cur[0], cur[1]])
        if i > 0 and rng.random() < (0.06 if lean else 0.15):
            q = pick_resolution(rng)
            qd.append([t, q])
        ln = max(1, int(Fraction(4 * q * cur[0], cur[1])))
        if rng.random() < 0.06:
            ln = max(1, ln + rng.choice([-1, 1, -q, q]))
        ms.append([t, t + ln, None if (i > 0 and rng.random() < 0.05) else first_num + i])
        t += ln
    end = t
    nst = 1 if lean else rng.choice([1, 2, 2, 3])
    # notes: in the pickup (their rel_onset_div / tot_measure_div come from the corrected start) and elsewhere
    if plen:
        notes.append([offset, plen, rng.choice([None, 1, nst]), 1])
        if plen > 2 and rng.random() < 0.5:
            notes.append([offset + rng.randint(1, plen - 1), 1, rng.choice([None, 1, nst]), rng.choice([None, 1, 2])])
    for _ in range(rng.choice([0, 1] if lean else [1, 2, 4, 6])):
        nt = rng.randint(offset, max(offset, end - 1))
        notes.append([nt, rng.randint(1, max(1, q0)), rng.choice([None, 1, rng.randint(1, nst + 1)]), rng.choice([None, 1, 2])])
    if not lean:
        bounds = [offset] + [m[0] for m in ms]
        for _ in range(rng.choice([0, 1, 2, 3])):
            kt = rng.choice(bounds + [rng.randint(offset, end)])
            if all(k[0] != kt for k in ks):
                ks.append([kt, rng.randint(-7, 7), rng.choice(MODES)])
        for _ in range(rng.choice([0, 1, 2, 3])):
            ct, st = rng.choice(bounds + [rng.randint(offset, end)]), rng.randint(1, nst)
            if all((c[0], c[1]) != (ct, st) for c in clefs):
                clefs.append([ct, st, rng.choice(SIGNS), rng.choice([None, 1, 2, 3, 4]), rng.choice([None, 0, 1, -1])])
        if rng.random() < 0.15:
            words.append([rng.randint(offset, end), rng.choice([None, 1, nst + 1])])
    return {"gen": "resolution", "q0": q0, "qd": qd, "ts": _sorted(ts), "ks": _sorted(ks), "clefs": _sorted(clefs),
            "ms": _sorted(ms), "notes": _sorted(notes), "words": words, "dirs": dirs, "rev": rng.random() < 0.3}


def gen_adversarial(rng):
    q0 = rng.choice([1, 2, 4, 4, 8])
    T = rng.randint(1, 30)
    g = rng.choice([0, 0, 0, 0, 2, 5])
    rt = lambda: rng.randint(g, g + T)
    ts, ks, clefs, ms, notes, words, dirs = [], [], [], [], [], [], []
    dup = rng.random() < 0.08
    for _ in range(rng.choice([0, 1, 1, 2, 3, 4])):
        t = rng.choice([g, rt(), rt()])
        if dup or all(e[0] != t for e in ts):
            ts.append([t, rng.choice([1, 2, 3, 4, 5, 6, 7, 9, 11, 12, 13]), rng.choice([1, 2, 4, 8, 16, 32])])
    for _ in range(rng.choice([0, 1, 1, 2, 3, 4])):
        t = rng.choice([g, rt(), rt()])
        if dup or all(e[0] != t for e in ks):
            ks.append([t, rng.randint(-7, 7), rng.choice(MODES)])
    nst = rng.choice([1, 1, 2, 3, 4])
    for _ in range(rng.choice([0, 0, 1, 2, 3, 5])):
        t, st = rng.choice([g, rt(), rt()]), rng.randint(1, nst)
        if dup or all((e[0], e[1]) != (t, st) for e in clefs):
            clefs.append([t, st, rng.choice(SIGNS), rng.choice([None, 0, 1, 2, 3, 4, 5, 6]), rng.choice([None, 0, 1, -1, -2])])
    mode = rng.choice(["none", "one", "tile", "tile", "tile", "gaps"])
    if mode == "one":
        s = rt()
        ms.append([s, s + rng.randint(1, T + 2), rng.choice([1, 5, None])])
    elif mode in ("tile", "gaps"):
        t = rng.choice([g, g, rt()])
        for i in range(rng.randint(2, 6)):
            ln = rng.randint(1, 8)
            num = rng.choice([i + 1, i + 1, i + 1, 10 * i, None]) if i > 0 else rng.choice([1, 1, 0, None])
            ms.append([t, t + ln, num])
            t += ln
            if mode == "gaps" and rng.random() < 0.5:
                t += rng.randint(1, 3)
    for _ in range(rng.choice([0, 1, 2, 3])):
        notes.append([rt(), rng.randint(1, 4), rng.choice([None, 1, rng.randint(1, nst + 1)]), rng.choice([None, 1, 3])])
    if rng.random() < 0.25:
        words.append([rt(), rng.choice([None, 1, nst + 1])])
    if rng.random() < 0.25:
        dirs.append([rt(), rng.choice([None, 2, nst + 1])])
    qd = []
    if rng.random() < 0.15:
        qd.append([rng.randint(1, g + T), rng.choice([1, 2, 3, 4, 8])])
    d = {"gen": "adversarial", "q0": q0, "qd": qd, "ts": _sorted(ts), "ks": _sorted(ks), "clefs": _sorted(clefs),
         "ms": _sorted(ms), "notes": _sorted(notes), "words": words, "dirs": dirs, "rev": rng.random() < 0.5}
    r = rng.random()
    if r < 0.03 and d["ks"]:
        d["ks"][rng.randrange(len(d["ks"]))][2] = rng.choice(["dorian", 0, "Major"])
    elif r < 0.06 and d["clefs"]:
        d["clefs"][rng.randrange(len(d["clefs"]))][2] = rng.choice(["g", "X"])
    elif r < 0.08 and d["ts"]:
        d["ts"][rng.randrange(len(d["ts"]))][1] = 0  # ZeroDivisionError of the musical beat map
    return d


NA_MAP_COLUMNS = ("ks_fifths", "ks_mode", "ts_beats", "ts_beat_type", "ts_mus_beats", "is_downbeat", "rel_onset_div",
                  "tot_measure_div")
STEPS = "CDEFGAB"
STEP_PC = {"C": 0, "D": 2, "E": 4, "F": 5, "G": 7, "A": 9, "B": 11}
NA_ORDERS = ["score", "pitch", "rev", "shuffle", "shuffle", "pick"]


def midi_of(pit, i):
    """MIDI pitch of note number i of a description (plain arithmetic on its spelling; a rest has none)"""
    if pit == "rest":
        return 0
    st, oc, al = pit if pit else (STEPS[i % 7], 4, 0)
    return 12 * (oc + 1) + STEP_PC[st] + (al or 0)


def enrich_notes(rng, d):
    """more notes (and rests) for the direct note-array calls: onsets at and around every signature change and bar
    line, chords (equal onsets), repeated pitches, a melody whose pitch order is unrelated to its onset order"""
    times = sorted({e[0] for k in ("ts", "ks", "ms") for e in d[k]} | {m[1] for m in d["ms"]}
                   | {n[0] for n in d["notes"]} | {n[0] + n[1] for n in d["notes"]})
    if len(times) < 2:
        return
    lo, hi = times[0], times[-1]
    nst = max([1] + [c[1] for c in d["clefs"] if c[1]] + [n[2] for n in d["notes"] if n[2]])
    spell = lambda: [rng.choice(STEPS), rng.randint(2, 6), rng.choice([0, 0, 0, 1, -1])]
    pit = {}
    for i in range(len(d["notes"])):
        if rng.random() < 0.7:
            pit["n%d" % i] = spell()
    cands = [t for t in times if t < hi]
    for _ in range(rng.randint(3, 10)):
        r = rng.random()
        t = rng.choice(cands) if r < 0.45 else rng.randint(lo, hi - 1)
        if r > 0.85 and d["notes"]:
            t = rng.choice(d["notes"])[0]  # a chord
        t = min(max(t, lo), hi - 1)
        i = len(d["notes"])
        d["notes"].append([t, rng.randint(1, max(1, min(d["q0"], hi - t))), rng.choice([None, 1, rng.randint(1, nst)]),
                           rng.choice([None, 1, 2])])
        pit["n%d" % i] = "rest" if rng.random() < 0.2 else spell()
    d["pit"] = pit


KINDS = ["ts", "ks", "clefs", "ms", "notes", "words", "dirs"]
MAPS = ("time_signature_map", "key_signature_map", "clef_map", "measure_map", "measure_number_map",
        "metrical_position_map")


def gen_table(rng, d):
    """a table for use_musical_beat / set_musical_beat_per_ts: mostly signatures of the part"""
    tbl = {}
    sigs = [(e[1], e[2]) for e in d["ts"]] + [(6, 8), (4, 4)]
    for b, bt in rng.sample(sigs, min(len(sigs), rng.randint(0, 2))):
        if b >= 1:
            divisors = [k for k in range(1, b + 1) if b % k == 0]
            tbl["%d/%d" % (b, bt)] = rng.choice(divisors + [rng.randint(1, b + 1)])
    return tbl


def gen_history(rng, d):
    """edits and queries after the part was built; indices refer to the lists of the description"""
    hist = []
    removed = []
    elems = [(k, i) for k in KINDS for i in range(len(d.get(k, [])))]
    tmax = max([1] + [e[0] for k in KINDS for e in d.get(k, [])] + [m[1] for m in d["ms"]])
    def extent(k, i):
        e = d[k][i]
        return e[0], (e[1] if k == "ms" else e[0] + e[1] if k == "notes" else e[0])

    for _ in range(rng.randint(1, 6)):
        r = rng.random()
        if r < 0.12 and elems:
            # make the timeline shrink: remove everything that touches its first (or last) time point
            alive = [x for x in elems if x not in removed]
            if alive:
                edge = min(extent(*x)[0] for x in alive) if rng.random() < 0.5 else max(extent(*x)[1] for x in alive)
                for x in alive:
                    if edge in extent(*x):
                        hist.append(["rm", x[0], x[1]])
                        removed.append(x)
                hist.append(["q"])
        elif r < 0.30:
            hist.append(["q"])
        elif r < 0.60 and elems:
            k, i = rng.choice(elems)
            if (k, i) in removed:
                continue
            hist.append(["rm", k, i])
            removed.append((k, i))
        elif r < 0.70 and removed:
            k, i = removed.pop(rng.randrange(len(removed)))
            hist.append(["add", k, i])
        elif r < 0.82:
            hist.append(["mus", gen_table(rng, d) if rng.random() < 0.6 else {}])
        elif r < 0.90:
            hist.append(["not"])
        elif r < 0.95:
            hist.append(["setmb", gen_table(rng, d)])
        else:
            hist.append(["qd", rng.randint(0, tmax), rng.choice([1, 2, 3, 4, 6, 8, 12, 7, 120, 480])])
    if hist and hist[0] != ["q"] and rng.random() < 0.7:
        hist.insert(0, ["q"])  # stale state needs a query before the edit
    return hist


def redundant_qd(d):
    """round 6: one history in four ends by setting the quarter duration at some time t > 0 to another value and then
    back to the duration in force before t: the table keeps a REDUNDANT entry (t, same value) - the one thing a fresh
    build of the part does not reproduce (Props/C10Hist.lean: rebuild_qd_normal needs a table without one; the maps
    must not care).  Drawn from a generator seeded with the description, so that the main stream of random numbers
    (and with it every other case) is the one of the earlier rounds."""
    import random
    import zlib

    r = random.Random(zlib.crc32(json.dumps(d, sort_keys=True, default=str).encode()))
    if r.random() >= 0.25:
        return
    table = [[0, d["q0"]]]
    for t, q in d.get("qd", []):
        qd_set(table, t, q)
    for op in d["hist"]:
        if op[0] == "qd":
            qd_set(table, op[1], op[2])
    tmax = max([1] + [e[0] for k in KINDS for e in d.get(k, [])] + [m[1] for m in d["ms"]])
    t = r.choice([e[0] for e in table if e[0] > 0] + [r.randint(1, tmax)] * 3)
    before = [e for e in table if e[0] < t][-1][1]
    other = r.choice([q for q in (1, 2, 3, 4, 6, 8, 12, 7) if q != before])
    d["hist"].append(["qd", t, other])
    if r.random() < 0.5:
        d["hist"].append(["q"])
    d["hist"].append(["qd", t, before])


def restate(rng, d):
    """a piece that RETURNS to a signature / clef it has used before (A B A): the third element of a kind (and staff)
    takes the values of the first - a map that merges 'restated' elements by value must not lose the return"""
    for k, lo, kinds in (("ks", 1, None), ("clefs", 2, None), ("ts", 1, ("adversarial",))):
        if kinds is not None and d.get("gen") not in kinds:
            continue
        rows = d[k]
        groups = {}
        for i, e in enumerate(rows):
            groups.setdefault(e[1] if k == "clefs" else None, []).append(i)
        for idx in groups.values():
            if len(idx) >= 3 and rng.random() < 0.6:
                j = rng.randint(2, len(idx) - 1)
                a, b, c = rows[idx[j - 2]], rows[idx[j - 1]], rows[idx[j]]
                if a[lo:] == b[lo:]:
                    continue
                c[lo:] = list(a[lo:])


def cases(rng, tier):
    n = {"quick": 450, "thorough": 15000, "search": 9000}.get(tier, 450)
    for i in range(n):
        # of every six cases: one musical, one adversarial, four at realistic resolutions (mostly lean parts)
        d = gen_musical(rng) if i % 6 == 0 else gen_adversarial(rng) if i % 6 == 1 else gen_resolution(rng)
        if d["gen"] == "resolution" and tier != "quick" and rng.random() < 0.08 and max(m[1] for m in d["ms"]) <= 6000:
            d["probe"] = "all"  # every integer position of the timeline, however long
        # the maps of a part are also queried after switching it to musical beats (compound metres count
        # dotted beats): the measure maps must not depend on the beat mode
        restate(rng, d)
        # the note / rest arrays are also requested directly (note_array_from_note_list with the part's maps) for a
        # list of notes in an arbitrary order; four cases in ten get more notes with pitches of their own and rests
        if rng.random() < 0.4:
            enrich_notes(rng, d)
        if d["notes"]:
            d["na"] = {"order": rng.choice(NA_ORDERS), "seed": rng.randrange(10 ** 6),
                       "flags": [1, 1, 1] if rng.random() < 0.6 else [rng.randint(0, 1) for _ in range(3)],
                       "beat": rng.random() < 0.3}
        if rng.random() < 0.3:
            d["musical_mode"] = True
        if rng.random() < 0.35:
            nobj = len(d["ts"]) + len(d["ks"]) + len(d["clefs"]) + len(d["ms"]) + len(d["notes"]) + len(d.get("words", [])) + len(d.get("dirs", []))
            if nobj >= 2:
                d["warm"] = rng.randint(1, nobj - 1)
                d["rev"] = d.get("rev") or rng.random() < 0.6  # adding from the end makes the timeline grow to the left
        if not GEN_LINE_NONE:
            for c in d["clefs"]:
                if c[3] is None:
                    c[3] = 0
        if rng.random() < 0.4:
            d["hist"] = gen_history(rng, d)
            redundant_qd(d)
        yield d


# ------------------------------------------------------------------ building the real Part
def build(desc):
    import partitura.score as S

    part = S.Part("P0", quarter_duration=desc["q0"])
    for t, q in desc.get("qd", []):
        part.set_quarter_duration(t, q)
    objs = []
    for i, e in enumerate(desc["ts"]):
        o = S.TimeSignature(e[1], e[2])
        if len(e) > 3:
            o.musical_beats = e[3]  # a description of a part's current state carries the stored musical beats
        objs.append((e[0], None, o, ("ts", i)))
    for i, (t, f, m) in enumerate(desc["ks"]):
        objs.append((t, None, S.KeySignature(f, m), ("ks", i)))
    for i, (t, st, sg, ln, oc) in enumerate(desc["clefs"]):
        objs.append((t, None, S.Clef(st, sg, ln, oc), ("clefs", i)))
    for i, (s, e, num) in enumerate(desc["ms"]):
        objs.append((s, e, S.Measure(num), ("ms", i)))
    for i, n in enumerate(desc["notes"]):
        t, dur, st, vc = n[:4]
        nid = n[4] if len(n) > 4 else "n%d" % i
        pit = (desc.get("pit") or {}).get(nid)
        if pit == "rest":
            o = S.Rest(id=nid, voice=vc, staff=st)
        elif pit:
            o = S.Note(pit[0], pit[1], pit[2], id=nid, voice=vc, staff=st)
        else:
            o = S.Note("CDEFGAB"[i % 7], 4, 0, id=nid, voice=vc, staff=st)
        objs.append((t, t + dur, o, ("notes", i)))
    for i, (t, st) in enumerate(desc.get("words", [])):
        objs.append((t, None, S.Words("w", staff=st), ("words", i)))
    for i, (t, st) in enumerate(desc.get("dirs", [])):
        objs.append((t, None, S.LoudnessDirection("f", staff=st), ("dirs", i)))
    where = {key: (t, e, o) for t, e, o, key in objs}
    if desc.get("rev"):
        objs.sort(key=lambda o: -o[0])  # stable: coincident elements keep their relative order

    def query():
        # the maps are views of the part as it is NOW: querying them and then going on editing must not leave
        # anything stale behind
        for nm in MAPS:
            try:
                getattr(part, nm)(0)
            except Exception:
                pass

    warm = desc.get("warm")
    for k, (t, e, o, _) in enumerate(objs):
        if warm is not None and k == warm:
            query()
        part.add(o, t, e)
    if desc.get("musical_mode"):
        part.use_musical_beat()
    live = set(where)
    for op in desc.get("hist", []):
        if op[0] == "q":
            query()
        elif op[0] == "rm":
            key = (op[1], op[2])
            if key in live:
                part.remove(where[key][2])
                live.discard(key)
        elif op[0] == "add":
            key = (op[1], op[2])
            if key in where and key not in live:
                t, e, o = where[key]
                part.add(o, t, e)
                live.add(key)
        elif op[0] == "mus":
            part.use_musical_beat(dict(op[1]))
        elif op[0] == "not":
            part.use_notated_beat()
        elif op[0] == "setmb":
            part.set_musical_beat_per_ts(dict(op[1]))
        elif op[0] == "qd":
            part.set_quarter_duration(op[1], op[2])
    return part


# ------------------------------------------------------------------ the part a history leaves (plain Python simulation)
def qd_set(table, t, q):
    """set_quarter_duration as documented: replace an entry stored at t, add one unless it is redundant"""
    i = sum(1 for e in table if e[0] < t)
    if i < len(table) and table[i][0] == t:
        table[i] = [t, q]
    elif i == 0 or table[i - 1][1] != q:
        table.insert(i, [t, q])


def final_state(desc):
    """the description of the part as the history leaves it: elements on the timeline in iteration order (time, then
    order of insertion; a re-added element is the latest), the musical beats stored on the signatures, the beat mode,
    the quarter-duration table"""
    recs = {}
    for k in KINDS:
        recs[k] = []
        for i, e in enumerate(desc.get(k, [])):
            r = {"e": list(e), "seq": i, "live": True}
            if k == "ts":
                r["mb"] = e[3] if len(e) > 3 else musical_beats(e[1])
            if k == "notes":
                r["id"] = e[4] if len(e) > 4 else "n%d" % i
            recs[k].append(r)
    table = [[0, desc["q0"]]]
    for t, q in desc.get("qd", []):
        qd_set(table, t, q)
    musical = bool(desc.get("musical_mode"))
    seq = 10 ** 6

    def setmb(tbl):
        for r in recs["ts"]:
            if r["live"]:
                key = "%d/%d" % (r["e"][1], r["e"][2])
                r["mb"] = tbl[key] if key in tbl else musical_beats(r["e"][1])

    for op in desc.get("hist", []):
        if op[0] == "rm":
            if op[2] < len(recs[op[1]]):
                recs[op[1]][op[2]]["live"] = False
        elif op[0] == "add":
            if op[2] < len(recs[op[1]]) and not recs[op[1]][op[2]]["live"]:
                seq += 1
                recs[op[1]][op[2]].update(live=True, seq=seq)
        elif op[0] == "mus":
            if not musical:
                musical = True
                if op[1]:
                    setmb(op[1])
        elif op[0] == "not":
            if musical:
                musical = False
                setmb({})
        elif op[0] == "setmb":
            setmb(op[1])
        elif op[0] == "qd":
            qd_set(table, op[1], op[2])
    L = {"q0": table[0][1], "qd_table": table, "musical": musical, "pit": dict(desc.get("pit") or {})}
    for k in KINDS:
        rows = sorted((r for r in recs[k] if r["live"]), key=lambda r: (r["e"][0], r["seq"]))
        if k == "ts":
            L[k] = [r["e"][:3] + [r["mb"]] for r in rows]
        elif k == "notes":
            L[k] = [r["e"][:4] + [r["id"]] for r in rows]
        else:
            L[k] = [r["e"] for r in rows]
    times = set()
    for k in KINDS:
        for e in L[k]:
            times.add(e[0])
    for m in L["ms"]:
        times.add(m[1])
    for n in L["notes"]:
        times.add(n[0] + n[1])
    L["times"] = sorted(times)
    return L


def fresh_desc(L):
    """a description whose plain build is the part `L` describes"""
    d = {"gen": "fresh", "q0": L["q0"], "qd": [list(e) for e in L["qd_table"][1:]], "rev": False,
         "musical_mode": L["musical"], "pit": dict(L.get("pit") or {})}
    for k in KINDS:
        d[k] = [list(e) for e in L[k]]
    return d


# ------------------------------------------------------------------ canonical forms of the implementation's answers
def _f(v):
    v = float(v)
    return None if v != v else v


def _i(v):
    v = int(v)
    return "nan" if v == INT_MIN else "%d" % v


def canon_float_rows(a, k):
    a = np.asarray(a)
    if a.ndim == 1:
        assert a.shape == (k,), a.shape
        return [_f(v) for v in a]
    assert a.ndim == 2 and a.shape[1] == k, a.shape
    return [[_f(v) for v in r] for r in a]


def _tuple_i(vals):
    vals = [_i(v) for v in vals]
    return "nan" if "nan" in vals and all(v == "nan" for v in vals) else "(" + ",".join(vals) + ")"


def canon_clef(a, n=None):
    """scalar: (S,4) -> one text; vector: (S,N,4) -> list of texts"""
    a = np.asarray(a)
    if a.ndim == 2:
        assert a.shape[1] == 4
        return "[" + ",".join(_tuple_i(r) for r in a) + "]"
    assert a.ndim == 3 and a.shape[2] == 4 and (n is None or a.shape[1] == n), a.shape
    return ["[" + ",".join(_tuple_i(a[s, i]) for s in range(a.shape[0])) + "]" for i in range(a.shape[1])]


def canon_mm(a):
    a = np.asarray(a)
    if a.ndim == 1:
        assert a.shape == (2,)
        return _tuple_i(a)
    assert a.ndim == 2 and a.shape[1] == 2
    return [_tuple_i(r) for r in a]


def canon_mn(a):
    a = np.asarray(a)
    if a.ndim == 0:
        return _i(a)
    assert a.ndim == 1
    return [_i(v) for v in a]


def canon_mp(a):
    if isinstance(a, tuple):
        assert len(a) == 2
        return "(" + _i(a[0]) + "," + _i(a[1]) + ")"
    a = np.asarray(a)
    if a.ndim == 1:
        assert a.shape == (2,)
        return "(" + _i(a[0]) + "," + _i(a[1]) + ")"
    assert a.ndim == 2 and a.shape[1] == 2
    return ["(" + _i(r[0]) + "," + _i(r[1]) + ")" for r in a]


def _same(a, b):
    """equality of canonical forms (None = NaN equals itself)"""
    return a == b


# ------------------------------------------------------------------ oracle helpers (plain Python, independent of the model)
def in_force(elems, x):
    """elems: [(t, value)]; the set of acceptable values at x, None when there is no element"""
    if not elems:
        return None
    le = [t for t, _ in elems if t <= x]
    t0 = max(le) if le else min(t for t, _ in elems)
    return [v for t, v in elems if t == t0]


def musical_beats(beats):
    return {6: 2, 9: 3, 12: 4}.get(beats, beats)


def mode_code(m):
    return -1 if m in ("minor", -1) else 1


def expected_first_start(L, first_t, last_t):
    """pickup-corrected start of the first measure: a set of acceptable integers, or None = not judged"""
    s0, e0 = L["ms"][0][0], L["ms"][0][1]
    if first_t != 0:
        return None
    ts = L["ts"]
    if ts:
        at0 = [e for e in ts if e[0] == 0]
        if len(at0) != 1:
            return None
        beats0, bt0, mb0 = at0[0][1], at0[0][2], at0[0][3]
    else:
        beats0, bt0, mb0 = 4, 4, 4
    if beats0 < 1 or mb0 < 1:
        return None
    table = L["qd_table"]
    d = Fraction(table[0][1] * 4, bt0)
    # the stretch the code measures: one beat from time 0 - a notated beat, or a musical beat when those are in use
    reach = max(d, d * beats0 / mb0) if L["musical"] else d
    if any(0 < e[0] < reach for e in ts) or any(0 < t < reach for t, _ in table):
        return None
    if last_t < reach:
        return None
    full = beats0 * d
    if e0 - s0 < full:
        v = e0 - full
        return {math.floor(v), math.ceil(v)}
    return {s0}


def valid_desc(desc):
    """inside the property's quantifier: known modes and clef signs, at least one beat per bar"""
    return all(k[2] in MODES for k in desc["ks"]) and all(c[2] in CLEF_CODE for c in desc["clefs"]) \
        and all(e[1] >= 1 for e in desc["ts"])


def measures_ok(desc):
    ms = desc["ms"]
    return all(ms[i][1] <= ms[i + 1][0] for i in range(len(ms) - 1)) and all(m[0] < m[1] for m in ms)


# ------------------------------------------------------------------ the history as the Lean model reads it
def _tbl_tok(tbl):
    rows = []
    for k, v in dict(tbl).items():
        b, bt = k.split("/")
        rows.append((int(b), int(bt), int(v)))
    return W.lst(lambda r: "%d %d %d" % r, rows)


def history_ops(desc):
    """the calls `build` makes, as requests of Model/StepMapHist.lean (same order, same guards)"""
    ops = []
    for t, q in desc.get("qd", []):
        ops.append("qd %d %d" % (t, q))
    objs = []
    for i, e in enumerate(desc["ts"]):
        objs.append((e[0], "ts %d %d" % (e[1], e[2]), W.opt(W.i, e[3] if len(e) > 3 else None), ("ts", i)))
    for i, (t, f, m) in enumerate(desc["ks"]):
        objs.append((t, "ks %d %s" % (f, W.s(m)), "-", ("ks", i)))
    for i, (t, st, sg, ln, oc) in enumerate(desc["clefs"]):
        objs.append((t, "clef %d %s %s %s" % (st, W.s(sg), W.opt(W.i, ln), W.opt(W.i, oc)), "-", ("clefs", i)))
    for i, (s0, e0, num) in enumerate(desc["ms"]):
        objs.append((s0, "ms %d %s" % (e0, W.opt(W.i, num)), "-", ("ms", i)))
    for i, n in enumerate(desc["notes"]):
        objs.append((n[0], "other %d %s" % (n[0] + n[1], W.opt(W.i, n[2])), "-", ("notes", i)))
    for i, (t, st) in enumerate(desc.get("words", [])):
        objs.append((t, "other - %s" % W.opt(W.i, st), "-", ("words", i)))
    for i, (t, st) in enumerate(desc.get("dirs", [])):
        objs.append((t, "other - %s" % W.opt(W.i, st), "-", ("dirs", i)))
    ident = {key: k for k, (_, _, _, key) in enumerate(objs)}
    order = list(objs)
    if desc.get("rev"):
        order.sort(key=lambda o: -o[0])
    warm = desc.get("warm")
    for k, (t, kind, mb, key) in enumerate(order):
        if warm is not None and k == warm:
            ops.append("q")
        ops.append("new %d %d %s %s" % (ident[key], t, kind, mb))
    if desc.get("musical_mode"):
        ops.append("mus 0")
    live = set(ident)
    for op in desc.get("hist", []):
        if op[0] == "q":
            ops.append("q")
        elif op[0] == "rm":
            key = (op[1], op[2])
            if key in live:
                ops.append("remove %d" % ident[key])
                live.discard(key)
        elif op[0] == "add":
            key = (op[1], op[2])
            if key in ident and key not in live:
                ops.append("readd %d" % ident[key])
                live.add(key)
        elif op[0] == "mus":
            ops.append("mus " + _tbl_tok(op[1]))
        elif op[0] == "not":
            ops.append("not")
        elif op[0] == "setmb":
            ops.append("setmb " + _tbl_tok(op[1]))
        elif op[0] == "qd":
            ops.append("qd %d %d" % (op[1], op[2]))
    return "hist %d %s" % (desc["q0"], W.lst(lambda x: x, ops))


def state_text(part):
    """what the six maps read of the REAL part, in the text Driver/C10.lean prints for `describe`"""
    import partitura.score as S

    fp, lp = part.first_point, part.last_point
    tup = lambda *xs: "(" + ",".join(str(x) for x in xs) + ")"
    o = lambda v: "-" if v is None else "%d" % v
    staffs = {}
    for cls, sub in ((S.GenericNote, True), (S.Direction, True), (S.Words, False)):
        for e in part.iter_all(cls, include_subclasses=sub):
            if e.staff is not None:
                staffs[id(e)] = int(e.staff)
    return " ".join([
        "%d" % len(part._points),
        "-" if fp is None else tup(fp.t, lp.t),
        "[" + ",".join(tup(int(t), int(q)) for t, q in zip(part._quarter_times, part._quarter_durations)) + "]",
        "[" + ",".join(tup(x.start.t, x.beats, x.beat_type, x.musical_beats) for x in part.iter_all(S.TimeSignature)) + "]",
        "1" if part._use_musical_beat else "0",
        "[" + ",".join(tup(x.start.t, x.end.t, o(x.number)) for x in part.iter_all(S.Measure)) + "]",
        "[" + ",".join(tup(x.start.t, x.fifths, "minor" if mode_code(x.mode) == -1 else "major") for x in part.iter_all(S.KeySignature)) + "]",
        "[" + ",".join(tup(x.start.t, x.staff, x.sign, o(x.line), o(x.octave_change)) for x in part.iter_all(S.Clef)) + "]",
        "[" + ",".join("%d" % v for v in sorted(staffs.values())) + "]"])


# ------------------------------------------------------------------ evaluation
def call(f, *a):
    try:
        return f(*a), None
    except BaseException as e:
        if isinstance(e, (KeyboardInterrupt, SystemExit)):
            raise
        return None, e


class ShapeError(Exception):
    pass


def scribble(a, h=0):
    """what a caller may do with an array a map handed out: overwrite every entry in place with another value (fifths
    -> tonic pitch class, sign flips, ...).  Returns False for a read-only array (nothing written), True otherwise."""
    if not isinstance(a, np.ndarray) or not a.flags.writeable or a.size == 0:
        return False
    if a.dtype.kind in "iu":
        a[...] = (a * 7 + 5 + h % 3) % 12 + 1000
    elif a.dtype.kind == "f":
        a[...] = np.where(np.isnan(a), 77.0, a * -3.0 + 1000.5 + h % 3)
    elif a.dtype.kind == "b":
        a[...] = ~a
    else:
        a[...] = None if a.dtype.kind == "O" and h % 2 else -1000 - h % 3
    return True


def query_all(getmap, xs, canon0):
    """returns (scalar rows, vector rows, list rows, error): each a list with one canonical entry per x;
    a result of an unexpected shape counts as an error of the implementation (not of the harness)"""

    def canon(r, n=None):
        try:
            c = canon0(r)
        except (AssertionError, TypeError, ValueError, IndexError) as e:
            raise ShapeError("result of unexpected shape/type: %r" % (getattr(r, "shape", type(r).__name__),))
        def is_row(v):
            return isinstance(v, str) or (isinstance(v, list) and len(v) > 0 and all(w is None or isinstance(w, float) for w in v))

        if n is None:
            if not is_row(c):
                raise ShapeError("scalar call gave %s rows" % (len(c) if isinstance(c, list) else "?"))
        elif is_row(c) or not isinstance(c, list) or len(c) != n or not all(is_row(v) for v in c):
            raise ShapeError("vector call gave %s for %d positions" % ("one row" if is_row(c) else "%d rows" % len(c), n))
        return c

    m, e = call(getmap)
    if e:
        return None, None, None, e
    sc = []
    for x in xs:
        r, e = call(m, int(x))
        if not e:
            r, e = call(canon, r)
        if e:
            return None, None, None, e
        sc.append(r)
    r, e = call(m, np.array(xs, dtype=int))
    if not e:
        r, e = call(canon, r, len(xs))
    if e:
        return sc, None, None, e
    vec = r
    r, e = call(m, [int(x) for x in xs])
    if not e:
        r, e = call(canon, r, len(xs))
    if e:
        return sc, vec, None, e
    return sc, vec, r, None


DENSE = 160  # timelines up to this many positions are queried at every integer position


def positions(desc, L, lo, hi):
    """the positions queried: every integer of lo..hi for a short timeline (or when the case says probe=all); for a
    long one (large divisions) every time of the timeline and its neighbours, the positions one (notated / musical)
    beat after 0, the middle of every stretch, and a fixed pseudo-random sample drawn from the description"""
    if hi - lo <= DENSE or desc.get("probe") == "all":
        return list(range(lo, hi + 1))
    import random
    import zlib

    rng = random.Random(zlib.crc32(json.dumps(desc, sort_keys=True, default=str).encode()))
    pts = set(range(lo, lo + 4)) | set(range(hi - 3, hi + 1))
    times = L["times"]
    for t in times + [e[0] for e in L["qd_table"]]:
        pts.update((t - 2, t - 1, t, t + 1, t + 2))
    for a, b in zip(times, times[1:]):
        pts.add((a + b) // 2)
        pts.add(rng.randint(a, b))
    for e in L["ts"][:1] or [[0, 4, 4, 4]]:
        for q in {L["qd_table"][0][1]}:
            d = Fraction(4 * q, e[2])
            for v in (d, d * e[1] / max(1, e[3]), d * e[1]):
                pts.update((math.floor(v) - 1, math.floor(v), math.ceil(v), math.ceil(v) + 1))
    for _ in range(24):
        pts.add(rng.randint(lo, hi))
    return sorted(x for x in pts if lo <= x <= hi)


def part_token(L):
    """the model's input: the part description (not a number computed by the implementation)"""
    times = L["times"]
    span_tok = "-" if not times else "%d %d" % (times[0], times[-1])
    return " ".join([
        "%d" % len(times), span_tok,
        W.lst(lambda e: "%d %d" % (e[0], e[1]), L["qd_table"]),
        W.lst(lambda e: "%d %d %d %d" % (e[0], e[1], e[2], e[3]), L["ts"]),
        W.b(L["musical"]),
        W.lst(lambda e: "%d %d %s" % (e[0], e[1], W.opt(W.i, e[2])), L["ms"])])


def iter_rows(part, L):
    """(kind, rows the real iter_all delivers, rows expected) for the four tables of the property"""
    import partitura.score as S

    yield "ts", [(o.start.t, o.beats, o.beat_type, o.musical_beats) for o in part.iter_all(S.TimeSignature)], \
        [tuple(e) for e in L["ts"]]
    yield "ks", [(o.start.t, o.fifths, o.mode) for o in part.iter_all(S.KeySignature)], [tuple(e) for e in L["ks"]]
    yield "clefs", [(o.start.t, o.staff, o.sign, o.line, o.octave_change) for o in part.iter_all(S.Clef)], \
        [tuple(e) for e in L["clefs"]]
    yield "ms", [(o.start.t, o.end.t, o.number) for o in part.iter_all(S.Measure)], [tuple(e) for e in L["ms"]]


def evaluate(desc):
    import warnings

    warnings.filterwarnings("ignore")
    np.seterr(all="ignore")
    from partitura.utils.music import note_array_from_part

    ev = Eval()
    orc = ev.oracle
    part = build(desc)
    L = final_state(desc)
    edited = bool(desc.get("hist")) or desc.get("warm") is not None
    fp, lp = part.first_point, part.last_point
    times = L["times"]
    first_t = times[0] if times else None
    last_t = times[-1] if times else None
    got_span = None if fp is None else (fp.t, lp.t)
    want_span = None if not times else (first_t, last_t)
    if got_span != want_span or len(part._points) != len(times):
        orc.append("timeline: first/last point %s (%d points), the elements on the timeline span %s (%d distinct times)" % (
            got_span, len(part._points), want_span, len(times)))
    span_tok = "-" if not times else "%d %d" % (first_t, last_t)
    lo = 0 if not times else max(0, first_t - 2)
    hi = 0 if not times else last_t + 2
    xs = positions(desc, L, lo, hi)
    judged = [] if not times else [x for x in xs if first_t <= x <= last_t]
    xs_tok = W.lst(W.i, xs)
    idx_all = {x: i for i, x in enumerate(xs)}
    valid = valid_desc(L)
    ptok = part_token(L)

    kss_tok = W.lst(lambda e: "%d %d %s" % (e[0], e[1], W.s(e[2])), L["ks"])
    clefs_tok = W.lst(lambda e: "%d %s %s %s %s" % (e[0], W.opt(W.i, e[1]), W.s(e[2]), W.opt(W.i, e[3]), W.opt(W.i, e[4])), L["clefs"])
    others = [n[2] for n in L["notes"] if n[2] is not None] + [w[1] for w in L["words"] if w[1] is not None] \
        + [w[1] for w in L["dirs"] if w[1] is not None]
    others_tok = W.lst(W.i, others)
    staffless = any(c[1] is None for c in L["clefs"])

    # ---- iter_all order: the tables reach the interpolators in the order iter_all yields the elements
    for kind, got, want in iter_rows(part, L):
        ev.requests.append("sorted " + W.lst(W.i, [r[0] for r in got]))
        ev.impl.append("1")
        if any(got[i][0] > got[i + 1][0] for i in range(len(got) - 1)):
            orc.append("iter-order: iter_all(%s) is not in time order: %s" % (kind, [r[0] for r in got]))
        if sorted(map(repr, got)) != sorted(map(repr, want)):
            orc.append("elements: iter_all(%s) yields %s, on the timeline are (with their stored attributes) %s" % (kind, got[:6], want[:6]))

    # ---- the state the history leaves: the Lean model of add / remove / re-add / beat-mode switches / quarter
    #      durations (Model/StepMapHist.lean) against everything the maps read of the real part
    if valid_desc(desc) and not any(c[1] is None for c in desc["clefs"]):
        r, e = call(state_text, part)
        ev.requests.append(history_ops(desc))
        ev.impl.append("err" if e else r)

    # ---- the quantities of the pickup rule (observed, no longer an input of the model)
    stable = True  # binary64 and exact evaluation of the pickup rule agree (else the measure maps are not compared)
    if L["ms"]:
        r, e = call(lambda: (float(part.time_signature_map(0)[2 if part._use_musical_beat else 0]),
                             float(part.beat_map(0)), float(part.inv_beat_map(1 + part.beat_map(0))),
                             float(part.beat_map(last_t))))
        if e:
            ev.requests.append("dpb " + ptok)
            ev.impl.append("err")
        else:
            b0, bm0, dv, bml = r
            if bm0 == bm0 and bml == bml and abs((1 + bm0) - bml) < 1e-9:
                stable = False  # one beat reaches exactly the end of the timeline: NaN or not is a matter of rounding
            if b0 == b0 and dv == dv:
                s0, e0 = L["ms"][0][0], L["ms"][0][1]
                pf, pq = b0 * dv, Fraction(b0) * Fraction(dv)
                if ((e0 - s0) < pf) != ((e0 - s0) < pq) and abs((e0 - s0) - pq) > Fraction(1, 4):
                    # (when the first measure is a full bar up to float noise, either branch gives the same start)
                    stable = False
                v = Fraction(e0) - pq
                if abs((v - math.floor(v)) - Fraction(1, 2)) < Fraction(1, 10 ** 6):
                    stable = False
            if stable:
                ev.requests.append("dpb " + ptok)
                ev.impl.append(("@approx", [_f(b0), _f(dv)], 1e-9))

    def emit(name, req, sc, vec, lst, err, approx_k=None):
        """two observations per map: the scalar calls and the array call"""
        for tag, rows in (("s", sc), ("v", vec)):
            if not stable and name in ("measure_map", "measure_number_map", "metrical_position_map"):
                break
            if staffless and name == "clef_map":
                break  # a clef that belongs to no staff: no reading, not modelled
            ev.requests.append(req)
            if rows is None:
                ev.impl.append("err")
            elif approx_k is not None:
                ev.impl.append(("@approx", rows, 1e-9))
            else:
                ev.impl.append("[" + ",".join(rows) + "]")
        if err is None:
            if not _same(sc, vec):
                bad = [x for x, a, b in zip(xs, sc, vec) if a != b]
                orc.append("scalar-vector: %s: scalar and ndarray calls differ at positions %s" % (name, bad[:5]))
            if not _same(vec, lst):
                orc.append("scalar-vector: %s: ndarray and list calls differ (list call gives %d rows for %d positions)" % (
                    name, len(lst) if isinstance(lst, list) else -1, len(xs)))
        elif isinstance(err, ShapeError):
            orc.append("scalar-vector: %s: %s" % (name, str(err)[:160]))
        elif valid and not (name in ("measure_number_map",) and mn_unfillable) and not (name == "clef_map" and staffless):
            orc.append("raises: %s raised %s: %s" % (name, type(err).__name__, str(err)[:120]))

    # does a None measure number survive the one-step back-fill of measure_number_map? (then nothing to report)
    nums = [m[2] for m in L["ms"]]
    mn_unfillable = any(n is None and nums[i - 1] is None for i, n in enumerate(nums))

    # ---- the six maps
    res = {}
    ts_s, ts_v, ts_l, ts_e = res["time_signature_map"] = query_all(lambda: part.time_signature_map, xs, lambda a: canon_float_rows(a, 3))
    emit("time_signature_map", "tsE %s %s" % (ptok, xs_tok), ts_s, ts_v, ts_l, ts_e, 3)
    ks_s, ks_v, ks_l, ks_e = res["key_signature_map"] = query_all(lambda: part.key_signature_map, xs, lambda a: canon_float_rows(a, 2))
    emit("key_signature_map", "ks %s %s %s" % (span_tok, kss_tok, xs_tok), ks_s, ks_v, ks_l, ks_e, 2)
    cl_s, cl_v, cl_l, cl_e = res["clef_map"] = query_all(lambda: part.clef_map, xs, lambda a: canon_clef(a))
    emit("clef_map", "clef %s %s %s %s" % (span_tok, clefs_tok, others_tok, xs_tok), cl_s, cl_v, cl_l, cl_e)
    mm_s, mm_v, mm_l, mm_e = res["measure_map"] = query_all(lambda: part.measure_map, xs, canon_mm)
    emit("measure_map", "mmP %s %s" % (ptok, xs_tok), mm_s, mm_v, mm_l, mm_e)
    mn_s, mn_v, mn_l, mn_e = res["measure_number_map"] = query_all(lambda: part.measure_number_map, xs, canon_mn)
    emit("measure_number_map", "mnP %s %s" % (ptok, xs_tok), mn_s, mn_v, mn_l, mn_e)
    mp_s, mp_v, mp_l, mp_e = res["metrical_position_map"] = query_all(lambda: part.metrical_position_map, xs, canon_mp)
    emit("metrical_position_map", "mpP %s %s" % (ptok, xs_tok), mp_s, mp_v, mp_l, mp_e)

    # ---- the KIND of the argument: a numpy integer scalar, a tuple, an empty list, an empty array - one call each
    #      (Model/StepMapCalls.lean: the wrapper's single-sample branch, scipy, the Iterable test of the metrical map,
    #      the collator of the clef map).  A scalar call gives the row of the int call, a sequence one row per element.
    if times and valid:
        import zlib

        h = zlib.crc32(json.dumps(desc, sort_keys=True, default=str).encode())
        mid = xs[h % len(xs)]
        few = [xs[(h // 7 + 3 * k) % len(xs)] for k in range(1 + h % 3)]
        arg_kinds = [("np.int64", "s %d" % mid, lambda: np.int64(mid), [mid], True),
                     # a 0-dimensional array: one position; the row of the int call, as a row or (the metrical map of
                     # a part with measures: numpy.ndarray is Iterable) as a one-row array - the correspondence pins
                     # which (Model/StepMapCalls.lean Arg.zerod), the oracle accepts either shape with the right row
                     ("0-d array", "z %d" % mid, lambda: np.array(mid), [mid], "zerod"),
                     ("tuple", "v " + W.lst(W.i, few), lambda: tuple(int(x) for x in few), few, False),
                     ("empty list", "v 0", lambda: [], [], False),
                     ("empty array", "v 0", lambda: np.array([], dtype=int), [], False)]
        call_specs = [
            ("time_signature_map", "cts " + ptok, lambda a: canon_float_rows(a, 3), ts_s, ts_e, 3),
            ("key_signature_map", "cks %s %s" % (span_tok, kss_tok), lambda a: canon_float_rows(a, 2), ks_s, ks_e, 2),
            ("clef_map", "cclef %s %s %s" % (span_tok, clefs_tok, others_tok), lambda a: canon_clef(a), cl_s, cl_e, None),
            ("measure_map", "cmm " + ptok, canon_mm, mm_s, mm_e, None),
            ("measure_number_map", "cmn " + ptok, canon_mn, mn_s, mn_e, None),
            ("metrical_position_map", "cmp " + ptok, canon_mp, mp_s, mp_e, None)]
        nkinds = 0
        zshapes = {}
        for name, req, canon0, rows_s, err_s, approx_k in call_specs:
            if err_s is not None or rows_s is None:
                continue  # the map raises (reported above): nothing to call
            if not stable and name in ("measure_map", "measure_number_map", "metrical_position_map"):
                continue
            if staffless and name == "clef_map":
                continue
            m = getattr(part, name)
            for label, atok, mk, at, is_scalar in arg_kinds:
                r, e = call(lambda: canon0(m(mk())))
                if e:
                    orc.append("scalar-vector: %s(%s argument) raised %s: %s" % (name, label, type(e).__name__, str(e)[:100]))
                    continue
                want = [rows_s[idx_all[x]] for x in at]
                if is_scalar == "zerod":
                    good = r == want[0] or r == [want[0]]
                    k = "0-d array:%s:%s" % (name, "one-row array" if r == [want[0]] else "row")
                    zshapes[k] = zshapes.get(k, 0) + 1
                elif is_scalar:
                    good = r == want[0]
                else:
                    good = isinstance(r, list) and not (r and (isinstance(r, str) or not isinstance(r[0], (list, str)))) and r == want
                if not good:
                    orc.append("scalar-vector: %s(%s argument %s) = %s, the int calls give %s" % (name, label, at, str(r)[:80], str(want)[:80]))
                ev.requests.append(req + " " + atok)
                if approx_k is not None:
                    ev.impl.append(("@approx", r, 1e-9))
                elif is_scalar == "zerod" and isinstance(r, list):
                    ev.impl.append("[" + ",".join(r) + "]" if all(isinstance(v, str) for v in r) else "<%r>" % (r,))
                elif is_scalar:
                    ev.impl.append(r if isinstance(r, str) else "<%r>" % (r,))
                else:
                    ev.impl.append("[" + ",".join(r) + "]" if isinstance(r, list) and all(isinstance(v, str) for v in r) else "<%r>" % (r,))
                nkinds += 1
        ev.info["arg_kind_calls"] = nkinds
        ev.info["zerod_shapes"] = zshapes

        # ---- oracle: a map's ANSWER is the caller's own value, not a window onto the map's table (round 6, missed
        #      seed C10-l).  One map object is held; it is queried (with an int, then with an array), the array that
        #      comes back is overwritten IN PLACE by the caller (when it is writable - a read-only answer is fine), and
        #      the same object is asked again, with ints and with an array: it must still report the elements in force,
        #      i.e. exactly the rows a map object nobody wrote to gave (rows_s, which the direct-scan oracle below checks
        #      against the elements).  The part was not edited, so nothing else can explain a difference.
        nalias = {}
        for name, req, canon0, rows_s, err_s, approx_k in call_specs:
            if err_s is not None or rows_s is None:
                continue
            again = sorted(set([mid, xs[0], xs[-1]] + few))
            for step, mk in (("int", lambda: int(mid)), ("array", lambda: np.array(xs, dtype=int)),
                             ("list", lambda: [int(x) for x in few])):
                m, e = call(lambda: getattr(part, name))
                if e:
                    break
                ans, e = call(lambda: m(mk()))
                if e or not isinstance(ans, np.ndarray) or ans.size == 0:
                    continue
                wrote, _ = call(scribble, ans, h)
                k = "%s:%s:%s" % (name, step, "written" if wrote else "read-only")
                nalias[k] = nalias.get(k, 0) + 1
                if not wrote:
                    continue
                bad = None
                for x in again:
                    r, e = call(lambda: canon0(m(int(x))))
                    if e or r != rows_s[idx_all[x]]:
                        bad = "%s(%d) %s" % (name, x, "raises %s" % type(e).__name__ if e else "= %s" % (str(r)[:60],)), rows_s[idx_all[x]]
                        break
                if bad is None:
                    r, e = call(lambda: canon0(m(np.array(xs, dtype=int))))
                    if e or r != rows_s:
                        j = 0 if e or not isinstance(r, list) or len(r) != len(xs) else [a != b for a, b in zip(r, rows_s)].index(True)
                        bad = "%s(array)[%d] %s" % (name, j, "raises %s" % type(e).__name__ if e else "= %s" % (str(r[j] if isinstance(r, list) and len(r) > j else r)[:60],)), rows_s[j]
                if bad is not None:
                    orc.append("aliasing: after the caller overwrote in place the array %s(%s argument) returned, the same map "
                               "object says %s; a map nobody wrote to says %s" % (name, step, bad[0], str(bad[1])[:60]))
        ev.info["alias_calls"] = nalias

    # ---- oracle: an edited part answers like a part freshly built from what is on its timeline
    if edited:
        fresh = build(fresh_desc(L))
        ffp, flp = fresh.first_point, fresh.last_point
        if (None if ffp is None else (ffp.t, flp.t)) != got_span:
            orc.append("fresh-build: timeline %s, a fresh build of the same elements has %s" % (
                got_span, None if ffp is None else (ffp.t, flp.t)))
        # the fresh build itself against the model's `rebuildOps` (Props/C10Hist.lean rebuild_* speak about it): the
        # state of the freshly built part - tables, time points, beat mode and the quarter-duration table a replay of
        # the entries produces (a redundant entry of the edited part is not reproduced)
        if valid_desc(desc) and not any(c[1] is None for c in desc["clefs"]):
            r, e = call(state_text, fresh)
            ev.requests.append("rebuild" + history_ops(desc)[len("hist"):])
            ev.impl.append("err" if e else r)
            if L["ms"] and stable and not e:
                # the side condition of rebuild_same_maps, observed on both sides: the fresh build measures the same
                # divisions per beat as the edited part (model: exactly; implementation: within 1e-9)
                dv = []
                for pt in (part, fresh):
                    v, e2 = call(lambda: float(pt.inv_beat_map(1 + pt.beat_map(0))))
                    dv.append("raises" if e2 else None if v != v else v)
                same = dv[0] == dv[1] or (isinstance(dv[0], float) and isinstance(dv[1], float)
                                          and abs(dv[0] - dv[1]) <= 1e-9 * max(1.0, abs(dv[0])))
                if "raises" not in dv:
                    ev.requests.append("rebuilddpb" + history_ops(desc)[len("hist"):])
                    ev.impl.append("1" if same else "0")
            norm = all(a[0] < b[0] and a[1] != b[1] for a, b in zip(L["qd_table"], L["qd_table"][1:]))
            ev.info["qd_table"] = "normal" if norm else "redundant"
        canons = {"time_signature_map": lambda a: canon_float_rows(a, 3), "key_signature_map": lambda a: canon_float_rows(a, 2),
                  "clef_map": lambda a: canon_clef(a), "measure_map": canon_mm, "measure_number_map": canon_mn,
                  "metrical_position_map": canon_mp}
        for nm in MAPS:
            if not stable and nm in ("measure_map", "measure_number_map", "metrical_position_map"):
                continue
            f_s, _, _, f_e = query_all(lambda: getattr(fresh, nm), xs, canons[nm])
            h_s, _, _, h_e = res[nm]
            if (f_e is None) != (h_e is None):
                if valid:
                    orc.append("fresh-build: %s %s after the history, %s on a fresh build of the same elements" % (
                        nm, "raises %s" % type(h_e).__name__ if h_e else "answers", "raises %s" % type(f_e).__name__ if f_e else "answers"))
            elif f_e is None and f_s != h_s:
                bad = [x for x, a, b in zip(xs, h_s, f_s) if a != b]
                orc.append("fresh-build: %s(%d) = %s after the history, %s on a fresh build of the same elements" % (
                    nm, bad[0], h_s[xs.index(bad[0])], f_s[xs.index(bad[0])]))

    # ---- oracle: the property statement by direct scan of the elements
    if valid and times:
        idx = {x: i for i, x in enumerate(xs)}
        ts_el = [(e[0], (e[1], e[2], e[3])) for e in L["ts"]]
        ks_el = [(e[0], (e[1], mode_code(e[2]))) for e in L["ks"]]
        staffs = [c[1] for c in L["clefs"] if c[1] is not None] + others
        nst = max([1] + staffs)
        for x in judged:
            i = idx[x]
            if ts_s is not None:
                want = in_force(ts_el, x) or [(4, 4, 4)]
                got = ts_s[i]
                if None in got or tuple(got) not in [tuple(float(v) for v in w) for w in want]:
                    orc.append("ts-in-force: time_signature_map(%d) = %s, in force %s" % (x, got, want))
            if ks_s is not None:
                want = in_force(ks_el, x) or [(0, 1)]
                got = ks_s[i]
                if None in got or tuple(got) not in [tuple(float(v) for v in w) for w in want]:
                    orc.append("ks-in-force: key_signature_map(%d) = %s, in force %s" % (x, got, want))
            if cl_s is not None and not staffless:
                rows = []
                for s in range(1, nst + 1):
                    el = [(c[0], (s, CLEF_CODE[c[2]], c[3] if c[3] is not None else 0, c[4] if c[4] is not None else 0))
                          for c in L["clefs"] if c[1] == s]
                    rows.append(in_force(el, x) or [(s, CLEF_CODE["none"], 0, 0)])
                # any combination of acceptable rows
                got = cl_s[i]
                ok = got.startswith("[") and got.endswith("]")
                parts = got[1:-1].replace("),(", ")|(").split("|") if ok and got != "[]" else []
                if len(parts) != nst:
                    ok = False
                else:
                    for p, want in zip(parts, rows):
                        if p not in ["(%d,%d,%d,%d)" % w for w in want]:
                            ok = False
                if not ok:
                    orc.append("clef-in-force: clef_map(%d) = %s, in force per staff %s" % (x, got, rows))
        # measures
        ms = L["ms"]
        if not ms:
            for x in judged:
                i = idx[x]
                if mm_s is not None and mm_s[i] != "(%d,%d)" % (first_t, last_t):
                    orc.append("measure-default: measure_map(%d) = %s without measures, timeline is (%d,%d)" % (x, mm_s[i], first_t, last_t))
                if mn_s is not None and mn_s[i] != "1":
                    orc.append("measure-default: measure_number_map(%d) = %s without measures" % (x, mn_s[i]))
                if mp_s is not None and mp_s[i] != "(0,0)":
                    orc.append("measure-default: metrical_position_map(%d) = %s without measures" % (x, mp_s[i]))
        elif measures_ok(L):
            first_ok = expected_first_start(L, first_t, last_t)
            ev.info["pickup_judged"] = first_ok is not None
            ev.info["pickup_corrected"] = first_ok is not None and ms[0][0] not in first_ok
            for x in judged:
                i = idx[x]
                inside = [k for k, m in enumerate(ms) if m[0] <= x < m[1]]
                if len(inside) != 1:
                    continue
                k = inside[0]
                s, e, num = ms[k]
                starts = {s} if k > 0 else first_ok
                if mm_s is not None:
                    got = mm_s[i]
                    good = got != "nan" and got.endswith(",%d)" % e) and (starts is None or got in ["(%d,%d)" % (a, e) for a in starts])
                    if not good:
                        orc.append("measure-extent: measure_map(%d) = %s, containing measure (%s,%d)%s" % (
                            x, got, sorted(starts) if starts else "?", e, " [first measure, pickup rule]" if k == 0 else ""))
                if mn_s is not None and num is not None and mn_s[i] != "%d" % num:
                    orc.append("measure-number: measure_number_map(%d) = %s, containing measure has number %d" % (x, mn_s[i], num))
                if mp_s is not None:
                    got = mp_s[i]
                    tiles = k == len(ms) - 1 or ms[k + 1][0] == e
                    if starts is not None:
                        want = ["(%d,%d)" % (x - a, e - a) for a in starts]
                        if tiles:
                            good = got in want
                        else:
                            good = any(got.startswith("(%d," % (x - a)) for a in starts)
                        if not good:
                            orc.append("metrical-position: metrical_position_map(%d) = %s, expected (t-start, length) in %s%s" % (
                                x, got, want, "" if tiles else " [length not judged: gap follows]"))

        # the three measure maps speak of ONE "measure containing t": where measure_map places x in a measure (a, b),
        # the number map reports that measure's number and the metrical map the distance from a; where measure_map
        # has no measure (before the - pickup-corrected - start of the first one) the number map has none either
        if ms and measures_ok(L) and mm_s is not None and stable:
            by_end = {m[1]: m for m in ms}
            for x in judged:
                i = idx[x]
                got = mm_s[i]
                if mn_s is not None and (got == "nan") != (mn_s[i] == "nan"):
                    orc.append("measure-consistency: measure_map(%d) = %s but measure_number_map(%d) = %s" % (x, got, x, mn_s[i]))
                if got == "nan":
                    continue
                a, b = [int(v) for v in got[1:-1].split(",")]
                if not (a <= x < b) or b not in by_end:
                    continue
                num = by_end[b][2]
                if mn_s is not None and num is not None and mn_s[i] != "%d" % num:
                    orc.append("measure-consistency: measure_map(%d) = %s (measure number %d) but measure_number_map(%d) = %s" % (
                        x, got, num, x, mn_s[i]))
                if mp_s is not None and not mp_s[i].startswith("(%d," % (x - a)):
                    orc.append("measure-consistency: measure_map(%d) = %s but metrical_position_map(%d) = %s" % (x, got, x, mp_s[i]))

    def expected_metrical(t):
        """acceptable (position, measure length) texts at t by exact arithmetic on the description, None = not judged"""
        ms = L["ms"]
        if not (valid and times and ms and measures_ok(L)):
            return None
        inside = [k for k, m in enumerate(ms) if m[0] <= t < m[1]]
        if len(inside) != 1 or not (inside[0] == len(ms) - 1 or ms[inside[0] + 1][0] == ms[inside[0]][1]):
            return None
        k = inside[0]
        starts = {ms[k][0]} if k > 0 else expected_first_start(L, first_t, last_t)
        return None if starts is None else ["(%d,%d)" % (t - a, ms[k][1] - a) for a in starts]

    # ---- note-array columns against the maps at the onsets
    pitched = [n for n in L["notes"] if (L.get("pit") or {}).get(n[4]) != "rest"]
    if pitched and valid and not staffless:
        onsets = {n[4]: n[0] for n in pitched}
        staff_of = {n[4]: n[2] for n in pitched}
        ms = L["ms"]
        inside_all = (not ms) or all(any(m[0] <= t < m[1] for m in ms) for t in onsets.values())
        inc_mp = inside_all and mp_e is None and measures_ok(L)
        na, e = call(lambda: note_array_from_part(part, include_key_signature=True, include_time_signature=True,
                                                  include_metrical_position=inc_mp, include_staff=True))
        if e:
            orc.append("note-array: note_array_from_part raised %s: %s" % (type(e).__name__, str(e)[:120]))
        else:
            ids = sorted(onsets, key=lambda s: int(s[1:]))
            rows = {str(r["id"]): r for r in na}
            if sorted(rows) != sorted(ids):
                orc.append("note-array: ids %s != %s" % (sorted(rows), sorted(ids)))
            else:
                on = [onsets[i] for i in ids]
                on_tok = W.lst(W.i, on)
                tsm, ksm = part.time_signature_map, part.key_signature_map
                mpm = part.metrical_position_map if inc_mp else None
                col_ts = [[float(rows[i]["ts_beats"]), float(rows[i]["ts_beat_type"]), float(rows[i]["ts_mus_beats"])] for i in ids]
                col_ks = [[float(rows[i]["ks_fifths"]), float(rows[i]["ks_mode"])] for i in ids]
                ev.requests.append("tsE %s %s" % (ptok, on_tok))
                ev.impl.append(("@approx", col_ts, 1e-9))
                ev.requests.append("ks %s %s %s" % (span_tok, kss_tok, on_tok))
                ev.impl.append(("@approx", col_ks, 1e-9))
                for i, t, cts, cks in zip(ids, on, col_ts, col_ks):
                    if [float(v) for v in tsm(t)] != cts:
                        orc.append("note-array: note %s at %d has time-signature columns %s, the map says %s" % (i, t, cts, list(tsm(t))))
                    if [float(v) for v in ksm(t)] != cks:
                        orc.append("note-array: note %s at %d has key-signature columns %s, the map says %s" % (i, t, cks, list(ksm(t))))
                    st = staff_of[i]
                    if int(rows[i]["staff"]) != (st or 0):
                        orc.append("note-array: note %s staff column %d, note staff %r" % (i, int(rows[i]["staff"]), st))
                if inc_mp and stable:
                    col_mp = ["(%d,%d)" % (int(rows[i]["rel_onset_div"]), int(rows[i]["tot_measure_div"])) for i in ids]
                    ev.requests.append("mpP %s %s" % (ptok, on_tok))
                    ev.impl.append("[" + ",".join(col_mp) + "]")
                    for i, t, c in zip(ids, on, col_mp):
                        want = expected_metrical(t)
                        if want is not None and c not in want:
                            orc.append("note-array-exact: note %s at %d has (rel_onset_div, tot_measure_div) = %s, its measure gives %s" % (i, t, c, want))
                        if canon_mp(mpm(t)) != c:
                            orc.append("note-array: note %s at %d has metrical columns %s, the map says %s" % (i, t, c, canon_mp(mpm(t))))
                        if int(rows[i]["is_downbeat"]) != (1 if int(rows[i]["rel_onset_div"]) == 0 else 0):
                            orc.append("note-array: note %s is_downbeat %d with rel_onset_div %d" % (i, int(rows[i]["is_downbeat"]), int(rows[i]["rel_onset_div"])))

    # ---- the note / rest arrays built from a LIST of notes: the public note_array_from_note_list /
    #      rest_array_from_rest_list called with the part's maps and the notes in an arbitrary order (by pitch,
    #      reversed, shuffled, a hand-picked sub-list), and note_array_from_part / rest_array_from_part with the same
    #      include_* flags.  Every row's key-signature, time-signature and metrical columns are the maps - and what is
    #      in force - at THAT row's onset, whatever the order of the list.
    if L["notes"] and valid and not staffless and times:
        import random
        import partitura.score as S
        from partitura.utils.music import (note_array_from_note_list, rest_array_from_rest_list,
                                           rest_array_from_part)

        spec = desc.get("na") or {"order": "score", "seed": 0, "flags": [1, 1, 1], "beat": False}
        pit = L.get("pit") or {}
        orig = {}
        for i, n in enumerate(desc["notes"]):
            orig[n[4] if len(n) > 4 else "n%d" % i] = i
        idx_of = {n[4]: k for k, n in enumerate(L["notes"])}
        onset_of = {n[4]: n[0] for n in L["notes"]}
        midi = {nid: midi_of(pit.get(nid), orig.get(nid, 0)) for nid in idx_of}
        objs = {o.id: o for o in part.iter_all(S.GenericNote, include_subclasses=True)}
        ts_el2 = [(e[0], (e[1], e[2], e[3])) for e in L["ts"]]
        ks_el2 = [(e[0], (e[1], mode_code(e[2]))) for e in L["ks"]]
        f_ks, f_ts, f_mp = [bool(v) for v in spec.get("flags", [1, 1, 1])]
        if mp_e is not None or not stable:
            f_mp = False
        flags_tok = " ".join(W.b(v) for v in (f_ks, f_ts, f_mp))
        maps = {}
        if f_ks:
            maps["key_signature_map"] = part.key_signature_map
        if f_ts:
            maps["time_signature_map"] = part.time_signature_map
        if f_mp:
            maps["metrical_position_map"] = part.metrical_position_map
        rng2 = random.Random(spec.get("seed", 0))

        def ordered(ids):
            ids = list(ids)
            o = spec.get("order", "score")
            if o == "pitch":
                ids.sort(key=lambda i: (midi[i], onset_of[i]))
            elif o == "rev":
                ids.reverse()
            elif o in ("shuffle", "pick"):
                rng2.shuffle(ids)
                if o == "pick" and len(ids) > 1:
                    ids = ids[:rng2.randint(1, len(ids))]
            return ids

        def one_array(label, kind, ids, fn, by_order, entry):
            """compare one array with the model and judge its rows; `ids` in the order the list is handed in"""
            na, e = call(fn)
            req = "na %s %s %s %s %s" % (kind, ptok, kss_tok, flags_tok, W.lst(
                lambda i: "%d %d %d" % (idx_of[i], onset_of[i], 99 if kind == "rest" else midi[i]), ids))
            if e:
                orc.append("note-list-raises: %s raised %s: %s" % (label, type(e).__name__, str(e)[:120]))
                ev.requests.append(req)
                ev.impl.append("err")
                return
            # the columns the maps add, by name and in dtype order (the model answers from the regenerated layout table)
            names = list(na.dtype.names or ())
            want_cols = (["ks_fifths", "ks_mode"] if f_ks else []) + (["ts_beats", "ts_beat_type", "ts_mus_beats"] if f_ts else []) \
                + (["is_downbeat", "rel_onset_div", "tot_measure_div"] if f_mp else [])
            ev.requests.append("cols %s %s" % (entry, flags_tok))
            ev.impl.append("[" + ",".join(n for n in names if n in NA_MAP_COLUMNS) + "]")
            if "id" not in names or "onset_div" not in names or "pitch" not in names or any(c not in names for c in want_cols):
                orc.append("note-list-columns: %s has the columns %s; with these maps the documented columns %s are expected" % (
                    label, names, want_cols))
                return
            got_ids = [str(r["id"]) for r in na]
            if sorted(got_ids) != sorted(ids):
                orc.append("note-list-rows: %s has the rows %s for the list %s" % (label, got_ids[:8], ids[:8]))
                return
            rows = []
            pos = {idx_of[i]: k for k, i in enumerate(ids)}  # a stable sort keeps the order of the list handed in
            for r in na:
                nid = str(r["id"])
                t = onset_of[nid]
                cells = [idx_of[nid], int(r["onset_div"]), int(r["pitch"])]
                if int(r["onset_div"]) != t:
                    orc.append("note-list-onset: %s: row of %s has onset_div %d, the note starts at %d" % (label, nid, int(r["onset_div"]), t))
                    continue
                if f_ks:
                    c = (int(r["ks_fifths"]), int(r["ks_mode"]))
                    cells += list(c)
                    want = in_force(ks_el2, t) or [(0, 1)]
                    if c not in want:
                        orc.append("note-list-ks: %s: row of %s (onset %d) has (ks_fifths, ks_mode) = %s, in force at %d: %s" % (label, nid, t, c, t, want))
                    m = tuple(int(v) for v in maps["key_signature_map"](t))
                    if m != c:
                        orc.append("note-list-map: %s: row of %s has key-signature columns %s, key_signature_map(%d) = %s" % (label, nid, c, t, m))
                if f_ts:
                    c = (int(r["ts_beats"]), int(r["ts_beat_type"]), int(r["ts_mus_beats"]))
                    cells += list(c)
                    want = in_force(ts_el2, t) or [(4, 4, 4)]
                    if c not in want:
                        orc.append("note-list-ts: %s: row of %s (onset %d) has (ts_beats, ts_beat_type, ts_mus_beats) = %s, in force at %d: %s" % (label, nid, t, c, t, want))
                    m = tuple(int(v) for v in maps["time_signature_map"](t))
                    if m != c:
                        orc.append("note-list-map: %s: row of %s has time-signature columns %s, time_signature_map(%d) = %s" % (label, nid, c, t, m))
                if f_mp:
                    db, rel, tot = int(r["is_downbeat"]), int(r["rel_onset_div"]), int(r["tot_measure_div"])
                    mrel, mtot = [int(v) for v in maps["metrical_position_map"](t)]
                    # a NaN measure length is INT64_MIN after .astype(int); the i4 column keeps its low 32 bits (0)
                    nan_len = mtot == INT_MIN and tot == 0
                    cells += [db, rel, "nan" if nan_len else tot]
                    if db != (1 if rel == 0 else 0):
                        orc.append("note-list-metrical: %s: row of %s has is_downbeat %d with rel_onset_div %d" % (label, nid, db, rel))
                    if not nan_len and (mrel, mtot) != (rel, tot):
                        orc.append("note-list-map: %s: row of %s has metrical columns %s, metrical_position_map(%d) = %s" % (label, nid, (rel, tot), t, (mrel, mtot)))
                    elif mrel != rel:
                        orc.append("note-list-map: %s: row of %s has rel_onset_div %d, metrical_position_map(%d) = %s" % (label, nid, rel, t, (mrel, mtot)))
                    want = expected_metrical(t)
                    if want is not None and "(%d,%s)" % (rel, tot) not in want:
                        orc.append("note-list-metrical: %s: row of %s (onset %d) has (rel_onset_div, tot_measure_div) = (%d,%d), its measure gives %s" % (label, nid, t, rel, tot, want))
                rows.append(cells)
            if len(rows) != len(na):
                return
            if by_order:
                # the order inside a run of rows with equal onset and pitch is numpy's business
                out, k = [], 0
                while k < len(rows):
                    j = k
                    while j < len(rows) and rows[j][1:3] == rows[k][1:3]:
                        j += 1
                    out += sorted(rows[k:j], key=lambda c: pos[c[0]])
                    k = j
                rows = out
            else:
                rows.sort(key=lambda c: (c[1], c[2], pos[c[0]]))
            ev.requests.append(req)
            ev.impl.append("[" + ",".join("(" + ",".join(str(v) for v in c) + ")" for c in rows) + "]")

        note_ids = [n[4] for n in L["notes"] if pit.get(n[4]) != "rest"]
        rest_ids = [n[4] for n in L["notes"] if pit.get(n[4]) == "rest"]
        tmaps = dict(maps)
        if spec.get("beat"):
            tmaps.update(beat_map=part.beat_map, quarter_map=part.quarter_map)
        inv = 0
        for kind, ids, fn_list in (("note", note_ids, note_array_from_note_list), ("rest", rest_ids, rest_array_from_rest_list)):
            if not ids:
                continue
            lst = ordered(ids)
            inv += sum(1 for a, b in zip(lst, lst[1:]) if onset_of[a] > onset_of[b])
            one_array("%s_array_from_%s_list(%s order)" % (kind, kind, spec.get("order", "score")), kind, lst,
                      lambda: fn_list([objs[i] for i in lst], **tmaps), not spec.get("beat"), kind + "_list")
        # the entry points on the part hand in part.notes_tied / part.rests and the maps the flags select
        inc = dict(include_key_signature=f_ks, include_time_signature=f_ts, include_metrical_position=f_mp)
        if note_ids:
            one_array("note_array_from_part", "note", [o.id for o in part.notes_tied], lambda: note_array_from_part(part, **inc), False, "note_part")
        if rest_ids:
            one_array("rest_array_from_part", "rest", [o.id for o in part.rests], lambda: rest_array_from_part(part, **inc), False, "rest_part")
        ev.info.update({"na_order": spec.get("order", "score"), "na_inversions": inv, "na_rows": len(note_ids) + len(rest_ids),
                        "na_rests": len(rest_ids), "na_flags": "%d%d%d" % (f_ks, f_ts, f_mp), "na_beat": bool(spec.get("beat"))})

    nontrivial = any(desc[k] for k in ("ts", "ks", "clefs", "ms", "notes"))
    ev.key = json.dumps(desc, sort_keys=True, default=str) if nontrivial else None
    ev.info.update({"gen": desc.get("gen"), "n_ms": len(L["ms"]), "first_t": first_t, "stable": stable,
                    "positions_judged": len(judged), "edited": edited,
                    "removed": sum(len(desc.get(k, [])) - len(L[k]) for k in KINDS),
                    "custom_mb": any(e[3] != musical_beats(e[1]) for e in L["ts"]), "musical": L["musical"]})
    return ev


def finding_key(desc, failure):
    return failure.split(":")[0]


def shrink(desc):
    hist = desc.get("hist", [])
    for i in range(len(hist)):
        d = dict(desc)
        d["hist"] = hist[:i] + hist[i + 1:]
        yield d
    for k in ("notes", "words", "dirs", "qd", "clefs", "ks", "ts", "ms"):
        l = desc.get(k, [])
        for i in range(len(l)):
            d = dict(desc)
            d[k] = l[:i] + l[i + 1:]
            if hist:  # the history refers to elements by index
                h2 = []
                for op in hist:
                    if op[0] in ("rm", "add") and op[1] == k:
                        if op[2] == i:
                            continue
                        if op[2] > i:
                            op = [op[0], op[1], op[2] - 1]
                    h2.append(op)
                d["hist"] = h2
            if d.get("warm") is not None:
                d["warm"] = None
            yield d
    for flag in ("rev", "musical_mode"):
        if desc.get(flag):
            d = dict(desc)
            d[flag] = False
            yield d
    if desc.get("warm") is not None:
        d = dict(desc)
        d["warm"] = None
        yield d


def distribution(descs, results):
    from collections import Counter

    c = Counter()
    for d in descs:
        c["gen:" + str(d.get("gen", "corpus"))] += 1
        c["measures:%s" % min(len(d["ms"]), 3)] += 1
        qs = [d["q0"]] + [e[1] for e in d.get("qd", [])]
        c["divisions:" + ("large" if max(qs) >= 96 else "odd" if any(q in RES_ODD for q in qs) else "small")] += 1
        if d.get("probe") == "all":
            c["every_position_of_a_long_timeline"] += 1
        c["ts:%s" % min(len(d["ts"]), 3)] += 1
        c["ks:%s" % min(len(d["ks"]), 3)] += 1
        c["clefs:%s" % min(len(d["clefs"]), 3)] += 1
        if d["ts"] and d["ts"][0][0] > 0:
            c["late_first_ts"] += 1
        if any(k[2] is None for k in d["ks"]):
            c["missing_mode"] += 1
        if d.get("qd"):
            c["quarter_duration_change"] += 1
        if any(cl[3] is None for cl in d["clefs"]):
            c["clef_without_line"] += 1
        for op in d.get("hist", []):
            c["hist:" + op[0]] += 1
    errs = sum(1 for r in results for x in r["impl"] if x == "err")
    for r in results:
        inf = r.get("info") or {}
        for k in ("pickup_judged", "pickup_corrected", "edited", "custom_mb", "musical"):
            if inf.get(k):
                c[k] += 1
        if inf.get("na_rows"):
            c["note_list:order=" + str(inf.get("na_order"))] += 1
            c["note_list:flags(ks,ts,mp)=" + str(inf.get("na_flags"))] += 1
            c["note_list:rows"] += inf["na_rows"]
            if inf.get("na_inversions"):
                c["note_list:handed_in_out_of_onset_order"] += 1
            if inf.get("na_rests"):
                c["note_list:with_rests"] += 1
            if inf.get("na_beat"):
                c["note_list:with_beat_and_quarter_maps"] += 1
        if inf.get("removed"):
            c["with_removed_elements"] += 1
        if inf.get("stable") is False:
            c["pickup_rule_float_unstable(not compared)"] += 1
        if inf.get("first_t"):
            c["timeline_starts_after_0"] += 1
        c["positions_judged"] += inf.get("positions_judged", 0)
        c["calls_with_other_argument_kinds(np.int64,0-d array,tuple,empty list,empty array)"] += inf.get("arg_kind_calls", 0)
        if inf.get("qd_table"):
            c["fresh_build:quarter_duration_table_" + inf["qd_table"]] += 1
        for k, v in (inf.get("zerod_shapes") or {}).items():
            c[k] += v
    c["error_observations"] = errs
    return dict(c)
