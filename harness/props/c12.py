"""C12 - pitch, key, duration and time-unit conversions are mutually consistent.

Readings (where the property text leaves room):

* "for scalars and arrays alike" / number types (round 5).  The VALUES are what counts: a conversion called with a
  number held in another type (Python int/float, numpy signed and unsigned integers of every width, float32/64, 0-d
  arrays, 1-d arrays where the function is written for arrays) returns the value it returns for the same value as a
  Python number (float32 data: to float32 precision).  Only types that hold the argument exactly are used; for
  `pitch_spelling_to_midi_pitch` also the result must fit the narrowest integer type of its arguments (the sum is
  formed in that type).  NumPy's own refusal to combine a Python integer with a type that cannot hold it
  (OverflowError) is a rejection, not a different value, and is not reported; any other exception is.
* "unknown modes are rejected": a string other than 'major' / 'minor' / 'none' and a number other than 1 / -1.  The
  numbers 1.0 and True ARE 1 for Python; nothing is demanded for them except that, if accepted, they mean major.
* "dotted units carry their defined values" (round 6): symbolic_to_numeric_duration of a note value with 0..3 dots and
  a tuplet of NON-ZERO counts is divs * value * (2 - 1/2^dots) * normal / actual; a count or the dots left out of the dict
  mean no tuplet / no dots.  Nothing is demanded for a count of 0 (the code reads it as 1; compared with the model only).
* "values outside -7..7 ... are rejected" (round 6, after seed C12-k): a VALUE, whatever type holds it - 7.5, Fraction(15, 2),
  Decimal("-7.001"), numpy.float32(7.25), +-inf are outside -7..7 exactly as 8 is, and must raise whatever the mode and
  whatever the way in (the function, a mode left out, KeySignature.name).  An integral value of a non-integer type inside
  the range (2.0) may be rejected (the list index refuses it today) or accepted, but if accepted it names the key of that
  integer; for a NON-integral value inside the range (2.5) the property demands nothing (compared with the model only,
  which says what the code does: TypeError).  nan is neither inside nor outside: nothing demanded.  The same for the mode
  number: any value other than 1 / -1 (0.999, 1.5, Fraction(3, 2), Decimal("-1.4")) is an unknown mode.
* Tuplet ratios "carry their defined values": duration_multiplier = normal_notes * dur(normal_type) /
  (actual_notes * dur(actual_type)) exactly (a Fraction), for every pair of note types; with both types absent
  normal_notes / actual_notes.
"""
import itertools
import copy
import math
import numbers
from decimal import Decimal
from fractions import Fraction

import numpy as np

import wire as W
from core import Eval

PROPERTY = "C12"
DRIVER = "drv_c12"
PROPS = ["PartituraModel.Props.C12", "PartituraModel.Props.C12Real", "PartituraModel.Props.C12Ext",
         "PartituraModel.Props.C12Keys", "PartituraModel.Props.C12More", "PartituraModel.Props.C12Lits",
         "PartituraModel.Props.C12RealBack", "PartituraModel.Props.C12Gram", "PartituraModel.Props.C12Num"]
TRUSTED = [
    "Python str.lower/upper/strip/count, int() on [+-]digits, re for NOTE_NAME_PATT (modelled as a scanner over the "
    "character classes read off the pattern by re's own parser)",
    "Python `x in (tuple)` is membership under == with numbers compared by value (1 == 1.0 == True)",
    "binary64 evaluation of 1e6*ppq*t/mpq before np.round (model exact; x.5 boundaries judged by the oracle only)",
    "numpy pow / log2 are accurate to 1% in the frequency and 0.01 in log2 (they are to ~1e-15): under that margin "
    "freq_pitch_stable proves the inversion; compared on MIDI -36..179 x seven tunings x every number type",
    "NumPy promotion rules (NEP 50) for the typed-argument cases: observed, not modelled (the model works on values)",
    "NumPy applies `np.round` / `.astype(int)` / the arithmetic operators of an ndarray element by element (the array "
    "forms of the tick conversions are modelled as List.map of the scalar formula and compared by the stream conv_arr)",
    "Python list indexing accepts exactly the types with __index__ (int, bool, NumPy integers) and raises TypeError for "
    "float / NumPy floats / Fraction / Decimal whatever their value; chained comparison `-7 <= x <= 7` is by exact value "
    "for all of these types (PyNum in Model/ConversionsNum.lean; compared by the stream f2kn in 17 number types)",
    "Python `str.format` on a format string whose fields are all `{}` (modelled by `pyFormat`)",
]
PARTIAL = [
    "freq_pitch: theorems over the reals (exact inverse; inverse under 1% / 0.01 perturbation; frequency -> pitch -> "
    "frequency within a quarter tone); that the binary64 library functions stay inside the margin is trusted, not proved",
    "key_name_to_fifths_mode: characterised on every string (closed form, exact rejection set), but the property itself "
    "speaks of the thirty key names only: outside them the theorems say what the code does, not that it is right",
    "compound intervals (number > 7) are accepted by Interval.validate and have no size (KeyError): mirrored and "
    "compared (stream iv), stated as an `example`, not demanded by any theorem",
    "number types: the theorems are about VALUES (Int / Rat); that each NumPy type is converted to its value before "
    "the arithmetic is checked by the `ty` cases only",
]
RULE = ("exhaustive finite domains named by the property (steps x alter -3..3 x octaves -1..9, MIDI -24..260, "
        "note-name grammar up to 3 accidentals, fifths -24..24 x mode spellings of every Python type, units x dots, "
        "interval classes, all 15 x 15 (type | absent) tuplet pairs x counts 0..13, ensure_pitch_spelling_format "
        "argument kinds, keyword defaults) x the number types of every numeric argument (12 types, scalar / 0-d / 1-d) "
        "plus seeded random ppq/mpq/time triples; key names: 15 first characters x 10 accidental strings x 8 suffixes "
        "plus every branch of the closed form (up to five accidentals, both kinds mixed, marks in odd places: "
        "`key_name_branches`); symbolic durations with the keys of the dict left out (`symbolic_numeric_shapes`); array "
        "calls of the tick conversions in six dtypes with the keywords given or left to the defaults (`array_calls`); "
        "fifths and mode numbers in seven NON-integer types (float, float64/32/16, longdouble, Fraction, Decimal): every "
        "integer of -9..9, seven fractional offsets above each, 2^-9 inside / outside the bounds, wrap-around distances, "
        "huge values, +-inf, nan, and in ten integer types out to the type limits, through the function, a mode left out "
        "and KeySignature.name (`fifths_number_kinds`); "
        "distinct = distinct request line; non-trivial = not an error case")

STEPS = "CDEFGAB"
BASE = {"C": 0, "D": 2, "E": 4, "F": 5, "G": 7, "A": 9, "B": 11}
MAJ = ["Cb", "Gb", "Db", "Ab", "Eb", "Bb", "F", "C", "G", "D", "A", "E", "B", "F#", "C#"]
MIN = ["Ab", "Eb", "Bb", "F", "C", "G", "D", "A", "E", "B", "F#", "C#", "G#", "D#", "A#"]
MODES = ["minor", -1, "major", None, "none", 1]
BADMODES = ["dorian", 0, 2, "Major", ""]
ACC = {"": 0, "#": 1, "x": 2, "##": 2, "###": 3, "b": -1, "bb": -2, "bbb": -3}
# extra mode spellings (round 5): strings that only LOOK like the accepted numbers / None, numbers of other types
MODES_TYPED = [1.0, -1.0, True]           # equal to 1 / -1 for Python: accepted or not, never another mode
BADMODES2 = ["1", "-1", "None", "MINOR", " minor", "maj", "min", 1.5, -2, False, 0.0]
# note values in quarters (the oracle's own table, not read from partitura)
VAL = {"long": Fraction(16), "breve": Fraction(8), "whole": Fraction(4), "half": Fraction(2), "h": Fraction(2),
       "quarter": Fraction(1), "q": Fraction(1), "eighth": Fraction(1, 2), "e": Fraction(1, 2), "16th": Fraction(1, 4),
       "32nd": Fraction(1, 8), "64th": Fraction(1, 16), "128th": Fraction(1, 32), "256th": Fraction(1, 64)}
DM = [Fraction(1), Fraction(3, 2), Fraction(7, 4), Fraction(15, 8)]
# sign strings of ensure_pitch_spelling_format the oracle knows the meaning of
SIGNS = {"n": 0, "#": 1, "x": 2, "##": 2, "###": 3, "b": -1, "bb": -2, "bbb": -3, "s": 1, "ss": 2, "f": -1, "ff": -2,
         "ns": 1, "nf": -1}

INT_T = ["int8", "int16", "int32", "int64", "uint8", "uint16", "uint32", "uint64"]
FLT_T = ["float32", "float64"]
ALL_T = ["int", "float"] + INT_T + FLT_T


def fits(v, t):
    """can the type named t hold the Python number v exactly"""
    if t is None:
        return True
    if t == "bool":
        return v in (0, 1)
    if t == "int":
        return float(v).is_integer()
    if t in ("float", "float64"):
        return True
    if t == "float32":
        return float(np.float32(v)) == float(v)
    ii = np.iinfo(t)
    return float(v).is_integer() and ii.min <= v <= ii.max


def mk(v, t, form="s"):
    """the Python number v held in type t (form 0d: a 0-d array of that dtype)"""
    if t is None:
        return v
    if t == "int":
        return int(v)
    if t == "float":
        return float(v)
    if t == "bool":
        return bool(v)
    x = getattr(np, t)(v)
    return np.array(x) if form == "0d" else x


def lit(x):
    """typed wire token of a Python value as `==` sees it: None, a string, a number by value"""
    if x is None:
        return "-"
    if isinstance(x, str):
        return "s:" + W.s(x)
    return "n:" + W.q(W.as_fraction(x))


def norm(x):
    """value of a result, whatever the container / number type"""
    if x is None or isinstance(x, str):
        return x
    if isinstance(x, (bool, np.bool_)):
        return ("n", Fraction(int(x)))
    if isinstance(x, Fraction):
        return ("n", x)
    if isinstance(x, (numbers.Integral, np.integer)):
        return ("n", Fraction(int(x)))
    if isinstance(x, (float, np.floating)):
        f = float(x)
        return ("n", Fraction(*f.as_integer_ratio())) if math.isfinite(f) else ("x", repr(f))
    if isinstance(x, np.ndarray):
        return norm(x.item()) if x.ndim == 0 else tuple(norm(v) for v in x.tolist())
    if isinstance(x, (tuple, list)):
        return tuple(norm(v) for v in x)
    return ("x", repr(x))


def same(a, b, tol):
    if isinstance(a, tuple) and isinstance(b, tuple) and len(a) == 2 and len(b) == 2 and a[0] == "n" and b[0] == "n":
        return abs(a[1] - b[1]) <= tol * max(1, abs(b[1]))
    if isinstance(a, tuple) and isinstance(b, tuple):
        return len(a) == len(b) and all(same(x, y, tol) for x, y in zip(a, b))
    return a == b


def _txt(n):
    """canonical driver text of a normalised value"""
    if n is None:
        return "-"
    if isinstance(n, str):
        return n
    if n[0] == "n":
        return W.q(n[1])
    return W.f_tuple(*[_txt(x) for x in n])


# ------------------------------------------------------------- numbers of NON-integer types (round 6, after seed C12-k)
REAL_T = ["float", "float64", "float32", "float16", "longdouble", "Fraction", "Decimal"]
INDEX_T = ["int", "bool"] + INT_T          # types list indexing accepts (__index__)
FRACS = ["1/1000", "1/4", "2/5", "1/2", "3/5", "3/4", "999/1000"]


def mkreal(s, t):
    """the number written s ("p/q", "inf", "-inf", "nan") held in the non-integer type t"""
    if s in ("inf", "-inf", "nan"):
        if t == "Decimal":
            return Decimal(s)
        return {"float": float}.get(t, getattr(np, t, None))(float(s))
    fr = Fraction(s)
    if t in INDEX_T:
        return mk(int(fr), t)
    if t == "Fraction":
        return fr
    if t == "Decimal":
        return Decimal(fr.numerator) / Decimal(fr.denominator)
    x = fr.numerator / fr.denominator
    return x if t == "float" else getattr(np, t)(x)


def real_value(s, x):
    """exact value of the object x built from s: a Fraction, "+inf", "-inf" or None (nan)"""
    if s == "nan":
        return None
    if s in ("inf", "-inf"):
        return "+inf" if s == "inf" else "-inf"
    if isinstance(x, (Fraction, Decimal)):
        return Fraction(x)
    f = float(x)
    if math.isinf(f):  # (float16 overflows early)
        return "+inf" if f > 0 else "-inf"
    return Fraction(*f.as_integer_ratio())


def outside(val, lo, hi):
    """is the value (Fraction | +-inf) outside lo..hi"""
    return val in ("+inf", "-inf") or val < lo or val > hi


def nonint_cases():
    """fifths and mode numbers in every non-integer type: integral values, values a hair / a quarter / a half / almost
    one above each integer of -9..8 (whatever a coercion does - truncate, floor, ceil, round - some of them move across
    the bounds -7 / 7), wrap-around distances of the 15-element lists, huge values, infinities"""
    modes = ["major", "minor", None, "none", 1, -1, "dorian", 0]
    for t in REAL_T:
        for n in range(-9, 10):
            vals = ["%d" % n] + [str(Fraction(n) + Fraction(f)) for f in FRACS if n < 9]
            if n in (7, -8):
                vals += [str(Fraction(n) + Fraction(1, 2**9)), str(Fraction(n + 1) - Fraction(1, 2**9))]
            yield {"k": "f2kx", "t": t, "vals": vals, "modes": modes}
    for t in INDEX_T:
        # (the typed cases `ty` hold -7..7 only: here the values around and beyond the bounds in every integer type)
        vals = [str(n) for n in list(range(-23, 24)) + [127, -128, 255, 256, 2**31 - 1, -2**31, 2**63 - 1] if fits(n, t)]
        yield {"k": "f2kx", "t": t, "vals": vals, "modes": ["major", -1, None, "dorian"]}
    for t in REAL_T:
        far = ["15/2", "-15/2", "29/2", "-29/2", "31/2", "45/2", "-45/2", "22", "-23", "1000000001/2", "-2000000001/2"]
        yield {"k": "f2kx", "t": t, "vals": far + (["inf", "-inf", "nan"] if t != "Fraction" else []), "modes": modes[:6]}
        near = ["%s" % (Fraction(sgn) * (1 + Fraction(sg2) * Fraction(f))) for sgn in (1, -1) for sg2 in (1, -1) for f in FRACS]
        yield {"k": "modex", "t": t, "vals": ["1", "-1", "0", "2", "-2", "3/2", "-3/2", "1/1000000000"] + near
               + (["inf", "-inf", "nan"] if t != "Fraction" else [])}


def _key_for(i, minor):
    return (MIN[i + 7] + "m") if minor else MAJ[i + 7]


def _okmode(mode):
    return any(mode is m or (type(mode) is type(m) and mode == m) for m in MODES)


def _eval_f2kx(d, ev, M, S):
    t = d["t"]
    for s in d["vals"]:
        x = mkreal(s, t)
        val = real_value(s, x)
        ways = [("fn", m) for m in d["modes"]] + [("dflt", None), ("ks", "major"), ("ks", "minor"), ("ks", None)]
        for way, mode in ways:
            if way == "fn":
                r, e = call(M.fifths_mode_to_key_name, x, mode)
                shown = "fifths_mode_to_key_name(%r, %r)" % (x, mode)
            elif way == "dflt":
                r, e = call(M.fifths_mode_to_key_name, x)
                shown = "fifths_mode_to_key_name(%r)" % (x,)
            else:
                ks, e = call(S.KeySignature, x, mode)
                r, e = call(lambda: ks.name) if e is None else (None, e)
                shown = "KeySignature(%r, %r).name" % (x, mode)
            if isinstance(val, Fraction):
                ev.requests.append("f2kn %s %s %s" % ("i" if t in INDEX_T else "r", W.q(val), "D" if way == "dflt" else lit(mode)))
                ev.impl.append("err" if e else str(r))
            if val is None:
                continue  # nan: neither inside nor outside
            if outside(val, -7, 7):
                if not e:
                    ev.oracle.append("%s = %r: the value %s is outside -7..7 and must be rejected, not mapped to a key" % (
                        shown, r, val if not isinstance(val, Fraction) else (float(val) if val.denominator & (val.denominator - 1) == 0 else val)))
            elif not _okmode(mode):
                if not e:
                    ev.oracle.append("%s = %r: unknown mode must be rejected" % (shown, r))
            elif val.denominator == 1 and (not e or t in INDEX_T):
                exp = _key_for(int(val), mode in ("minor", -1))
                if e:
                    ev.oracle.append("%s raised %r: the %s %d is inside -7..7, its key is %r" % (shown, e, t, int(val), exp))
                elif r != exp:
                    ev.oracle.append("%s = %r: the number %s is %d, whose key is %r" % (shown, r, x, int(val), exp))


def _eval_modex(d, ev, M, S):
    t = d["t"]
    for s in d["vals"]:
        x = mkreal(s, t)
        val = real_value(s, x)
        obs = [("key_mode_to_int(%r)" % (x,), "kmi", call(M.key_mode_to_int, x)),
               ("key_int_to_mode(%r)" % (x,), "kim", call(M.key_int_to_mode, x)),
               ("fifths_mode_to_key_name(-3, %r)" % (x,), "f2k -3", call(M.fifths_mode_to_key_name, -3, x)),
               ("KeySignature(4, %r).name" % (x,), "f2k 4", call(lambda: S.KeySignature(4, x).name))]
        for shown, req, (r, e) in obs:
            if isinstance(val, Fraction):
                ev.requests.append("%s n:%s" % (req, W.q(val)))
                ev.impl.append("err" if e else (W.f_int(r) if req == "kmi" else str(r)))
            if val is None:
                continue
            if val not in (1, -1):
                if not e:
                    ev.oracle.append("%s = %r: the number %s is not 1 / -1: unknown mode must be rejected" % (shown, r, s))
            elif not e:
                minor = val == -1
                exp = {"kmi": -1 if minor else 1, "kim": "minor" if minor else "major", "f2k -3": _key_for(-3, minor),
                       "f2k 4": _key_for(4, minor)}[req]
                if r != exp:
                    ev.oracle.append("%s = %r: the number %s means %r" % (shown, r, s, exp))


def cases(rng, tier):
    # 1. spelling -> midi / name
    for st in STEPS:
        for al in range(-3, 4):
            for oc in range(-1, 10):
                yield {"k": "spell", "step": st, "alter": al, "oct": oc}
    for st in "cdefgab":
        yield {"k": "spell", "step": st, "alter": None, "oct": 4}
    for st in ["H", "r", "", "CC"]:
        yield {"k": "spell", "step": st, "alter": 0, "oct": 4}
    # 2. midi -> spelling
    for p in range(-24, 261):
        yield {"k": "midi", "p": p}
    # 3. note names of the grammar, plus malformed
    accs = [""] + ["".join(t) for n in (1, 2, 3) for t in itertools.product("xb#", repeat=n)]
    for st in STEPS:
        for a in accs:
            for oc in (0, 1, 4, 9, 10, 12):
                yield {"k": "name", "name": "%s%s%d" % (st, a, oc)}
    for nm in ["", "C", "4", "H4", "c4", "C-1", "xxC#5yy", "C#", "Cn4", "A 4", "C#4D5", "B##10", "Gb03"]:
        yield {"k": "name", "name": nm}
    # 4. fifths x mode
    for f in range(-24, 25):
        for m in MODES + BADMODES:
            yield {"k": "f2k", "f": f, "mode": m}
    for f in (-8, -7, -1, 0, 3, 7, 8):
        for m in MODES_TYPED + BADMODES2:
            yield {"k": "f2k", "f": f, "mode": m}
    # 4b. (round 6, after seed C12-k) fifths / mode numbers held in NON-integer types
    for c in nonint_cases():
        yield c
    # 5. key names
    for nm in MAJ + [k + "m" for k in MIN] + ["Fb", "E#", "B#", "Fbm", "E#m", "Cbm", "H", "", "m", "Xm", "C##", "Abbm"]:
        yield {"k": "k2f", "name": nm}
    for root in "ABCDEFGHabcdefg":
        for acc in ["", "#", "b", "##", "bb", "#b", "b#", "###", "bbb", "x"]:
            for suf in ["", "m", "M", "maj", "min", "mm", " m", "-"]:
                yield {"k": "k2f", "name": root + acc + suf}
    # 5b. (round 6) every branch of the closed form: many accidentals, both kinds mixed, marks in odd places
    for root in "FCGDAEB":
        for acc in ["####", "#####", "bbbb", "bbbbb", "#b#", "b##", "#m#", "mb", "m#", " m", "bm b"]:
            for suf in ["", "m"]:
                yield {"k": "k2f", "name": root + acc + suf}
    for nm in ["mC", "bC", "#C", " C", "Cm ", "F ", "Fm", "FF", "Fmaj", "Fmin", "m", "b", "#", "mm", "C\n"]:
        yield {"k": "k2f", "name": nm}
    # 6. codes
    for m in MODES + BADMODES + MODES_TYPED + BADMODES2:
        yield {"k": "mode", "mode": m}
    for c in ["G", "F", "C", "percussion", "TAB", "jianpu", "none", "g", "X", ""]:
        yield {"k": "clef", "sign": c}
    for c in range(-2, 9):
        yield {"k": "clefint", "code": c}
    # 7. tempo units
    import partitura.utils.globals as G

    units = list(G.LABEL_DURS.keys())
    for u in units + ["x", ""]:
        for d in range(0, 5):
            for t in (1, 50, 100, 117, 60.5):
                yield {"k": "tqt", "unit": u + "." * d, "tempo": t}
    for u in (" q", "q. ", " h.. ", ".q", "q.x"):
        yield {"k": "tqt", "unit": u, "tempo": 90}
    for u in units + [None]:
        for bpm in (30, 60, 100, 117, 200.5):
            yield {"k": "mpq", "unit": u, "bpm": bpm}
    # 8. symbolic -> numeric
    types = list(G.LABEL_DURS.keys())
    for ty in types + ["foo"]:
        for d in range(0, 5):
            for (a, n) in [(None, None), (3, 2), (5, 4), (7, 8), (2, 3), (0, 0), (3, None)]:
                for dv in (1, 4, 6, 480):
                    yield {"k": "s2num", "type": ty, "dots": d, "actual": a, "normal": n, "divs": dv}
    # 8b. (round 6) keys of the dict left out: no "type" (KeyError), no "dots" (none)
    for ty in [None, "quarter", "e", "long", "foo"]:
        for d in (None, 0, 2):
            for (a, n) in [(None, None), (3, 2), (0, 5), (3, 0)]:
                if ty is None or d is None:
                    yield {"k": "s2num", "type": ty, "dots": d, "actual": a, "normal": n, "divs": 12}
    # 9. intervals
    for qual in ["dd", "d", "m", "M", "P", "A", "AA", "X"]:
        for n in range(0, 16):
            for dr in ("up", "down", "sideways"):
                yield {"k": "iv", "q": qual, "n": n, "dir": dr}
    # 9b. histories of ONE Interval object: (read its size,) change its quality by k semitones, read its size: the size
    #     reported afterwards is the defined size of the NEW class (and of a freshly built interval of that class)
    for qual in ["dd", "d", "m", "M", "P", "A", "AA"]:
        for n in range(1, 8):
            for k in range(-6, 7):
                for read_first in (False, True):
                    yield {"k": "ivq", "q": qual, "n": n, "step": k, "read_first": read_first,
                           "dir": "up" if (n + k) % 2 else "down"}
    for (a, n) in [(3, 2), (5, 4), (6, 4), (7, 8), (2, 3), (9, 8)]:
        for at, nt in [("eighth", "eighth"), ("eighth", "quarter"), ("16th", "eighth"), ("quarter", "16th")]:
            yield {"k": "tup", "actual": a, "normal": n, "at": at, "nt": nt}
    # 9c. Tuplet.duration_multiplier on the whole table: every (type | absent) pair x actual 0..13 x normal 0..13
    tys = types + [None]
    for at in tys:
        for nt in tys + (["foo"] if at == "quarter" else []):
            for a in range(0, 14):
                yield {"k": "tupx", "at": at, "nt": nt, "actual": a, "normals": list(range(0, 14))}
    # 9d. ensure_pitch_spelling_format: every kind of step / alter / octave argument
    alters = ([{"t": "sign", "v": x} for x in list(SIGNS) + ["-", "", "N", "####", "bbbb", "#b", "1"]]
              + [{"t": "int", "v": x} for x in (-3, -1, 0, 1, 2, 7)]
              + [{"t": "float", "v": x} for x in (1.0, -2.0, 1.5, -1.5, 0.25)] + [{"t": "none", "v": None}])
    octs = ([{"t": "str", "v": x} for x in ("-", "4", "-1", "+3", "04", "x", "", "4.5")]
            + [{"t": "int", "v": x} for x in (-1, 0, 4, 12)] + [{"t": "float", "v": x} for x in (4.0, 3.9, -0.5)]
            + [{"t": "none", "v": None}])
    for st in ["C", "c", "b", "G", "r", "R", "H", "", "CC", "rr", " c"]:
        for al in alters:
            for oc in octs:
                yield {"k": "epsf", "step": st, "alter": al, "oct": oc}
    # 9e. step2pc, Note.alter_sign, format_symbolic_duration (and the unit string it prints, read back as a tempo unit)
    for st in list(STEPS) + ["c", "H", ""]:
        for al in range(-14, 15):
            yield {"k": "pc", "step": st, "alter": al}
    for al in [None, -3, -2, -1, 0, 1, 2, 3]:
        for st in "CG":
            yield {"k": "asign", "step": st, "alter": al, "oct": 4}
    yield {"k": "fsd", "sd": None}
    for ty in types + [None, "", "foo"]:
        for dots in (None, 0, 1, 2, 3, 5):
            for (a, n) in [(None, None), (3, 2), (3, None), (None, 2), (0, 0), (13, 8)]:
                yield {"k": "fsd", "sd": {"type": ty, "dots": dots, "actual": a, "normal": n}}
    # 9f. keyword defaults left out
    for t in (0, 1, 0.5, 2.25, 61):
        yield {"k": "dflt", "f": "s2t", "args": [t]}
        yield {"k": "dflt", "f": "s2t", "args": [t, 600000]}
        yield {"k": "dflt", "f": "t2s", "args": [int(t * 960)]}
        yield {"k": "dflt", "f": "t2s", "args": [int(t * 960), 600000]}
    for f in range(-9, 10):
        yield {"k": "dflt", "f": "f2k", "args": [f]}
    for qual in ["d", "m", "M", "P", "A", "X"]:
        for n in (1, 3, 5, 7, 8, 14):
            yield {"k": "dflt", "f": "iv", "args": [n, qual]}
    for p in range(-3, 132, 6):
        yield {"k": "dflt", "f": "m2f", "args": [p]}
    # 9g. number types of every numeric argument
    for c in ty_cases(rng, tier):
        yield c
    # 10. seconds <-> ticks (sampled)
    n = 1500 if tier == "quick" else 60000
    for _ in range(n):
        ppq = rng.choice([1, 24, 96, 120, 480, 960, rng.randint(1, 2000)])
        mpq = rng.choice([500000, 857142, 250001, 1000000, rng.randint(1000, 3000000)])
        mode = rng.random()
        if mode < 0.4:
            t = rng.uniform(0, 600)
        elif mode < 0.7:
            # on (or a hair off) an x.5 tick boundary
            k = rng.randint(0, 100000)
            t = (k + 0.5) * mpq / (1e6 * ppq) + rng.choice([0, 0, 1e-9, -1e-9])
        elif mode < 0.9:
            t = rng.randint(0, 100000) * mpq / (1e6 * ppq)
        else:
            t = float(rng.randint(0, 600))
        if rng.random() < 0.25:
            # exact ties: with mpq = 500000 * 2^a and ppq a power of two the tick image 2*ppq*t/2^a of a dyadic t
            # is computed exactly in binary64, so round-half-even is decided by the rounding rule alone
            a = rng.randint(0, 2)
            mpq = 500000 * 2 ** a
            ppq = 2 ** rng.randint(0, 9)
            k = rng.randint(-50, 5000)
            t = (k + 0.5) * 2 ** a / (2.0 * ppq)
        yield {"k": "s2t", "t": t, "mpq": mpq, "ppq": ppq, "arr": rng.random() < 0.3}
        yield {"k": "t2s", "tick": rng.randint(0, 10**7), "mpq": mpq, "ppq": ppq, "arr": rng.random() < 0.3}
    # 10b. "for scalars and arrays alike": the same values in every container / dtype a caller may hold them in give the
    #      same result, the caller's array is left as it was, the result is a new array, and a second call agrees
    for _ in range(400 if tier == "quick" else 4000):
        ppq = rng.choice([1, 24, 96, 120, 480, 960, rng.randint(1, 2000)])
        mpq = rng.choice([500000, 857142, 250001, 1000000, rng.randint(1000, 3000000)])
        ticks = [rng.randint(0, 10**6) for _ in range(rng.randint(1, 5))]
        yield {"k": "conv_arr", "ticks": ticks, "mpq": mpq, "ppq": ppq,
               "dtype": rng.choice(["float64", "float64", "int64", "int32", "float32", "0d"]),
               "dir": rng.choice(["t2s", "t2s", "s2t"]),
               # round 6: which keywords the ARRAY call is given (the others are left to the defaults)
               "kw": rng.choice(["both", "both", "both", "mpq", "none"])}
    # 11. frequency <-> pitch (oracle only)
    for a4 in (415.0, 440.0, 442.0, 392.0, 432, 466.1637615180899, 444.5):
        for p in range(-36, 180):
            yield {"k": "freq", "p": p, "a4": a4}


# ---------------------------------------------------------------------------------- number types (round 5)
# name -> (positions of the numeric arguments that are typed, forms allowed, kind of number each position takes)
#   kind "i": an integer is expected (integer types only);  "r": any real number (integer and float types)
TY = {
    "m2f":  {"pos": {0: "r", 1: "r"}, "forms": ("s", "0d", "1d")},   # (pitch, a4)
    "f2m":  {"pos": {0: "r", 1: "r"}, "forms": ("s", "0d", "1d")},   # (freq, a4)
    "s2t":  {"pos": {0: "r", 1: "i", 2: "i"}, "forms": ("s", "0d", "1d")},   # (seconds, mpq, ppq)
    "t2s":  {"pos": {0: "r", 1: "i", 2: "i"}, "forms": ("s", "0d", "1d")},   # (ticks, mpq, ppq)
    "s2m":  {"pos": {0: "i", 1: "i"}, "forms": ("s", "0d")},         # (octave, alter, step)
    "m2s":  {"pos": {0: "r"}, "forms": ("s", "0d")},                 # (pitch,)
    "s2n":  {"pos": {0: "i", 1: "i"}, "forms": ("s",)},              # (alter, octave, step)
    "epsf": {"pos": {0: "r", 1: "r"}, "forms": ("s", "0d")},         # (alter, octave, step)
    "f2k":  {"pos": {0: "i", 1: "r"}, "forms": ("s", "0d")},         # (fifths, mode number)
    "kmi":  {"pos": {0: "r"}, "forms": ("s",)},                      # (mode number,)
    "kim":  {"pos": {0: "r"}, "forms": ("s",)},
    "cis":  {"pos": {0: "i"}, "forms": ("s",)},                      # (clef code,)
    "pc":   {"pos": {0: "i"}, "forms": ("s", "0d")},                 # (alter, step)
    "asign": {"pos": {0: "i"}, "forms": ("s",)},                     # (alter,)
    "tqt":  {"pos": {0: "r"}, "forms": ("s", "0d")},                 # (tempo, unit)
    "mpq":  {"pos": {0: "r"}, "forms": ("s",)},                      # (bpm, unit)
    "s2num": {"pos": {0: "r", 1: "i", 2: "i", 3: "i"}, "forms": ("s",)},   # (divs, dots, actual, normal, type)
    "ivs":  {"pos": {0: "i"}, "forms": ("s",)},                      # (number, quality)
    "ivq":  {"pos": {0: "i", 1: "i"}, "forms": ("s",)},              # (step, number, quality)
    "tupm": {"pos": {0: "i", 1: "i"}, "forms": ("s",)},              # (actual, normal, actual_type, normal_type)
}


def _types_for(kind, vals, bool_ok=False):
    ts = (["int"] + INT_T) if kind == "i" else ALL_T
    if bool_ok:
        ts = ts + ["bool"]
    return [t for t in ts if all(fits(v, t) for v in vals)]


def ty_cases(rng, tier):
    """typed-argument cases: {"k": "ty", "f", "args" (Python numbers), "types" (one name per argument or None),
    "form" s | 0d | 1d, "col" (the values of argument 0 when form is 1d)}"""
    thorough = tier != "quick"

    def emit(f, rows, fixed, others=None, bool_ok=False):
        """rows: values of argument 0 (one case per value for s / 0d, one per chunk for 1d); fixed: the other arguments;
        others: types tried for the other typed positions (default: each alone, the rest plain)"""
        spec = TY[f]
        k0 = spec["pos"][0]
        other_pos = [i for i in spec["pos"] if i != 0]
        for t0 in _types_for(k0, [], bool_ok):
            rows_t = [v for v in rows if fits(v, t0)]
            if not rows_t:
                continue
            for form in spec["forms"]:
                if form == "0d" and t0 in ("int", "float", "bool"):
                    continue
                combos = [None]
                if others is not None:
                    combos = others
                elif other_pos:
                    # the other typed arguments share the type of argument 0 when it holds them, else stay plain
                    combos = [None, "same"]
                for oc in combos:
                    types = [None] * (1 + len(fixed))
                    types[0] = t0
                    for i in other_pos:
                        cand = t0 if oc == "same" else (oc[i] if isinstance(oc, dict) else None)
                        if cand is not None and cand != "bool" and spec["pos"][i] == "i" and cand in ("float", "float32", "float64"):
                            cand = None
                        if cand is not None and fits(fixed[i - 1], cand):
                            types[i] = cand
                    if oc == "same" and all(types[i] is None for i in other_pos):
                        continue
                    yield {"k": "ty", "f": f, "args": [rows_t[0]] + list(fixed), "types": types, "form": form, "col": list(rows_t)}

    def chunks(xs, n):
        return [xs[i:i + n] for i in range(0, len(xs), n)]

    step = 1
    # pitch -> frequency: every MIDI pitch, in every type that holds it; the tuning in several types too
    for a4, ta4 in [(440.0, None), (415, "int16"), (442.0, "float32"), (440, "uint16"), (432, "int"), (466, "float")]:
        # (the chunks of the piano range first, so that a failure is reported on an ordinary pitch when there is one)
        chs = chunks(list(range(0, 128, step)), 8)
        chs = chs[7:9] + chs[:7] + chs[9:]
        for ch in chs + [list(range(-12, 0)), [60.5, 69.25, 0.5]]:
            if a4 != 440.0 and not thorough and ch[0] not in (0, 8, 56, 64, 120, -12):
                continue
            for c in emit("m2f", ch, [a4], others=[{1: ta4}]):
                yield c
    # frequency -> pitch: integer frequencies in the integer types that hold them, equal-tempered ones in the floats
    ifreq = [28, 55, 110, 131, 262, 440, 880, 1000, 1047, 2000, 2048, 2093, 4000, 4186, 8000, 12000, 20000]
    for a4, ta4 in [(440.0, None), (440, "int16"), (440, "uint16"), (415, "int32"), (442.0, "float32")]:
        for ch in [[v] for v in ifreq] + [ifreq[:5], ifreq[5:9]]:
            for c in emit("f2m", ch, [a4], others=[{1: ta4}]):
                yield c
    etf = [float(440.0 * 2 ** ((q - 69) / 12)) for q in range(0, 128, 5)]
    for ch in chunks(etf, 6):
        for t0 in ("float", "float64", "float32"):
            col = [float(np.float32(v)) for v in ch] if t0 == "float32" else ch
            for form in ("s", "0d", "1d"):
                if form == "0d" and t0 == "float":
                    continue
                yield {"k": "ty", "f": "f2m", "args": [col[0], 440.0], "types": [t0, None], "form": form, "col": col}
    # seconds <-> ticks
    for mpq, ppq in [(500000, 480), (250000, 96), (1000000, 24), (60000, 120), (600000, 960)]:
        for ch in [[0, 1, 2, 3], [7, 30, 100], [127, 200, 255], [300, 599, 30000], [0.25, 1.5, 59.75]]:
            for c in emit("s2t", ch, [mpq, ppq]):
                if "float32" not in c["types"]:
                    yield c
        for ch in [[0, 1, 2, 96], [100, 127, 255], [480, 960, 32767], [65535, 100000, 10**6], [0.5, 960.25]]:
            for c in emit("t2s", ch, [mpq, ppq]):
                yield c
    # spelling <-> pitch
    for st in STEPS:
        for al in (-2, -1, 0, 1, 2):
            for c in emit("s2m", [-1, 0, 4, 9], [al, st]):
                # the sum is formed in the argument types: keep the cases whose result they can hold
                keep = [o for o in c["col"] if all(fits(x, t) for t in c["types"] if t for x in (
                    (o + 1) * 12 + BASE[st] + al, (o + 1) * 12, (o + 1) * 12 + BASE[st], 12))]
                if keep:
                    c["col"], c["args"][0] = keep, keep[0]
                    yield c
    for ch in chunks(list(range(0, 128)), 128) + [list(range(-24, 0))] + [[60.0, 61.0, 0.0, 11.0]]:
        for c in emit("m2s", ch, []):
            yield c
    for al in (-3, -1, 0, 1, 2, 3):
        for c in emit("s2n", [al], [4, "C"]):
            yield c
        for c in emit("asign", [al], []):
            if -2 <= al <= 2:
                yield c
        for c in emit("pc", [al], ["B"]):
            yield c
    for al, oc in [(1, 4), (-2, -1), (0, 0), (1.5, 4), (-1.5, 3.9), (2.0, 9.0)]:
        for c in emit("epsf", [al], [oc, "c"]):
            yield c
    # keys and codes
    for f in range(-7, 8):
        for m in (1, -1):
            for c in emit("f2k", [f], [m], others=[None] + [{1: t} for t in _types_for("r", [m], bool_ok=True)]):
                yield c
    for m in (1, -1):
        for c in emit("kmi", [m], [], bool_ok=True):
            yield c
        for c in emit("kim", [m], [], bool_ok=True):
            yield c
    for code in range(0, 7):
        for c in emit("cis", [code], []):
            yield c
    # tempo and durations
    units = ["long", "breve", "whole", "h", "q", "q.", "e..", "16th", "256th..."]
    for u in units:
        for c in emit("tqt", [1, 60, 100, 127, 200, 255, 300, 60.5], [u]):
            yield c
        for c in emit("mpq", [30, 100, 127, 240, 90.5], [u]):
            yield c
    for ty in ["long", "breve", "whole", "quarter", "eighth", "256th"]:
        for dots, a, n in [(0, 1, 1), (1, 3, 2), (3, 7, 8), (2, 5, 4)]:
            for c in emit("s2num", [1, 4, 100, 127, 255, 480, 960, 10080, 2.5], [dots, a, n, ty]):
                yield c
    for qual, nums in [("M", (2, 3, 6, 7)), ("P", (1, 4, 5)), ("d", (1, 7)), ("AA", (4, 6))]:
        for n in nums:
            for c in emit("ivs", [n], [qual]):
                yield c
            for k in (-1, 1, 2):
                for c in emit("ivq", [k], [n, qual]):
                    yield c
    for a, n in [(3, 2), (5, 4), (7, 8), (13, 8), (3, 5)]:
        for at, nt in [("eighth", "eighth"), ("quarter", "eighth"), ("16th", "quarter"), (None, None)]:
            for c in emit("tupm", [a], [n, at, nt]):
                yield c


def _ty_fn(M, S, f):
    """the conversion named f with its typed arguments first"""
    def ivq(k, n, q):
        iv = S.Interval(n, q)
        iv.change_quality(k)
        return (str(iv.quality), iv.semitones)

    def s2num(divs, dots, a, n, ty):
        return M.symbolic_to_numeric_duration({"type": ty, "dots": dots, "actual_notes": a, "normal_notes": n}, divs)

    return {
        "m2f": lambda p, a4: M.midi_pitch_to_frequency(p, a4),
        "f2m": lambda fr, a4: M.frequency_to_midi_pitch(fr, a4),
        "s2t": lambda t, mpq, ppq: M.seconds_to_midi_ticks(t, mpq, ppq),
        "t2s": lambda k, mpq, ppq: M.midi_ticks_to_seconds(k, mpq, ppq),
        "s2m": lambda o, a, st: M.pitch_spelling_to_midi_pitch(st, a, o),
        "m2s": lambda p: M.midi_pitch_to_pitch_spelling(p),
        "s2n": lambda a, o, st: M.pitch_spelling_to_note_name(st, a, o),
        "epsf": lambda a, o, st: M.ensure_pitch_spelling_format(st, a, o),
        "f2k": lambda fi, m: M.fifths_mode_to_key_name(fi, m),
        "kmi": lambda m: M.key_mode_to_int(m),
        "kim": lambda m: M.key_int_to_mode(m),
        "cis": lambda c: M.clef_int_to_sign(c),
        "pc": lambda a, st: M.step2pc(st, a),
        "asign": lambda a: S.Note(step="C", octave=4, alter=a).alter_sign,
        "tqt": lambda t, u: M.to_quarter_tempo(u, t),
        "mpq": lambda b, u: S.Tempo(b, u).microseconds_per_quarter,
        "s2num": s2num,
        "ivs": lambda n, q: S.Interval(n, q).semitones,
        "ivq": ivq,
        "tupm": lambda a, n, at, nt: S.Tuplet(None, None, actual_notes=a, normal_notes=n, actual_type=at,
                                              normal_type=nt).duration_multiplier,
    }[f]


def _arg_token(v):
    """epsf argument kinds: int / other number"""
    return "i:%d" % v if float(v).is_integer() and isinstance(v, int) else "n:" + W.q(v)


def _ty_req(f, a):
    """the driver request for the VALUES a (None: this observation has no exact model answer)"""
    if f == "m2f":
        return "m2f %s %s" % (W.q(a[0]), W.q(a[1]))
    if f == "s2t":
        exact = Fraction(10**6) * a[2] * W.as_fraction(a[0]) / a[1]
        if abs(exact - math.floor(exact) - Fraction(1, 2)) < Fraction(1, 10**6):
            return None
        return "sec2tick %s %d %d" % (W.q(a[0]), a[1], a[2])
    if f == "t2s":
        return "tick2sec %s %d %d" % (W.q(a[0]), a[1], a[2])
    if f == "s2m":
        return "s2m %s %d %d" % (W.s(a[2]), a[1], a[0])
    if f == "m2s":
        return "m2s %d" % a[0]
    if f == "s2n":
        return "s2n %s %d %d" % (W.s(a[2]), a[0], a[1])
    if f == "epsf":
        return "epsf %s %s %s" % (W.s(a[2]), _arg_token(a[0]), _arg_token(a[1]))
    if f == "f2k":
        return "f2k %d %s" % (a[0], lit(a[1]))
    if f in ("kmi", "kim"):
        return "%s %s" % (f, lit(a[0]))
    if f == "cis":
        return "cis %d" % a[0]
    if f == "pc":
        return "step2pc %s %d" % (W.s(a[1]), a[0])
    if f == "asign":
        return "asign %d" % a[0]
    if f == "tqt":
        return "tqt %s %s" % (W.s(a[1]), W.q(a[0]))
    if f == "mpq":
        return "mpq %s %s" % (W.s(a[1]), W.q(a[0]))
    if f == "s2num":
        return "s2num %s %d %d %d %s" % (W.s(a[4]), a[1], a[2], a[3], W.q(a[0]))
    if f == "ivs":
        return "ivs %s %d" % (W.s(a[1]), a[0])
    if f == "ivq":
        return "ivq %s %d %d" % (W.s(a[2]), a[1], a[0])
    if f == "tupm":
        return "tupm %d %d %s %s" % (a[0], a[1], W.opt(W.s, a[2]), W.opt(W.s, a[3]))
    return None


_TY_FLOAT = ("m2f", "t2s", "tqt", "s2num")      # results that are binary64 values of an exact rational
_TY_STR = ("asign",)                            # results the driver prints with the `s:` prefix


def _ty_impl(f, res, tol):
    n = norm(res)
    if f in _TY_FLOAT:
        return ("@approx", float(n[1]), max(tol, 1e-12)) if isinstance(n, tuple) and n[0] == "n" else repr(n)
    if f in _TY_STR:
        return "s:" + str(n)
    return _txt(n)


def _eval_ty(d, ev, M, S):
    f, args, types, form = d["f"], list(d["args"]), d["types"], d["form"]
    fn = _ty_fn(M, S, f)
    f32 = any(t == "float32" for t in types if t)
    tol = Fraction(1, 10**5) if f32 else (Fraction(1, 10**12) if f in _TY_FLOAT + ("f2m",) else 0)
    if f == "f2m":
        tol = 0
    col = d.get("col") or [args[0]]
    rest = [mk(a, t, "s") for a, t in zip(args[1:], types[1:])]
    if form == "1d":
        dt = {"int": "int64", "float": "float64"}.get(types[0], types[0])
        arg0 = np.array(col, dtype=dt)
        keep = arg0.copy()
        r, e = call(fn, arg0, *rest)
        if not np.array_equal(arg0, keep):
            ev.oracle.append("types: %s changed the caller's %s array" % (f, dt))
        if e is None:
            if not (isinstance(r, np.ndarray) and r.shape == (len(col),)):
                ev.oracle.append("types: %s(%s array of %d values) returned %r" % (f, dt, len(col), r))
                return
            outs = [(r[i], None) for i in range(len(col))]
        else:
            outs = [(None, e)] * len(col)
    else:
        outs = [call(fn, mk(v, types[0], form), *rest) for v in col]
    shown = "%s(%s) as %s%s" % (f, ", ".join(repr(x) for x in args), "/".join(str(t) for t in types),
                                "" if form == "s" else " " + form)
    for v, (res, e) in zip(col, outs):
        a = [v] + args[1:]
        ref, eref = call(fn, *a)
        if eref is not None:
            continue  # the values themselves are rejected: nothing to agree with
        if e is not None:
            if isinstance(e, OverflowError):
                continue  # NumPy refuses to combine a Python integer with a type that cannot hold it
            ev.oracle.append("types: %s [value %r] raises %r; with Python numbers %r" % (shown, v, e, ref))
            q = _ty_req(f, a)
            if q is not None:
                ev.requests.append(q)
                ev.impl.append("err")
            continue
        if not same(norm(res), norm(ref), tol):
            ev.oracle.append("types: %s [value %r] = %r; the same values as Python numbers give %r" % (shown, v, res, ref))
        q = _ty_req(f, a)
        if f == "m2f" and (W.as_fraction(v) - 9) % 12 != 0:
            q = None  # the model is exact on whole octaves from the reference pitch only
        if q is not None and not (f32 and f not in _TY_FLOAT):
            ev.requests.append(q)
            ev.impl.append(_ty_impl(f, res, float(tol)))
        if f == "m2f":
            # the typed result, as it is, goes back through frequency_to_midi_pitch
            b, e2 = call(M.frequency_to_midi_pitch, res, rest[0])
            if float(v).is_integer() and (e2 is not None or b is None or int(b) != int(v)):
                ev.oracle.append("types: frequency->pitch: %s [value %r] -> %r -> %r" % (shown, v, res, e2 or b))
        if f == "f2m":
            x = 12 * math.log2(float(v) / float(args[1])) + 69
            if abs(x - math.floor(x) - 0.5) > 1e-6 and int(norm(res)[1]) != round(x):
                ev.oracle.append("types: %s [value %r] = %r, equal temperament says %d" % (shown, v, res, round(x)))


def _tuplet_oracle(ev, a, n, at, nt, r, e):
    """multiplier = normal_notes * dur(normal_type) / (actual_notes * dur(actual_type)), exactly"""
    known = (at is None and nt is None) or (at in VAL and nt in VAL)
    if not known or a == 0:
        return
    exp = Fraction(n, a) if at is None else Fraction(n, a) * VAL[nt] / VAL[at]
    if e or not isinstance(r, Fraction) or r != exp:
        ev.oracle.append("tuplet: %d %s in the time of %d %s: duration_multiplier = %r, defined value %s" % (
            a, at or "notes", n, nt or "notes", e or r, exp))


def call(f, *a, **kw):
    try:
        return f(*a, **kw), None
    except BaseException as e:  # AssertionError, KeyError, ... all "rejected"
        if isinstance(e, (KeyboardInterrupt, SystemExit)):
            raise
        return None, e


def evaluate(d):
    import partitura.utils.music as M
    import partitura.score as S

    k = d["k"]
    ev = Eval()
    key = None
    if k == "spell":
        st, al, oc = d["step"], d["alter"], d["oct"]
        r, e = call(M.pitch_spelling_to_midi_pitch, st, al, oc)
        ev.requests.append("s2m %s %s %d" % (W.s(st), W.opt(W.i, al), oc))
        ev.impl.append("err" if e else W.f_int(r))
        valid = st.upper() in BASE and len(st) == 1
        if valid:
            exp = (oc + 1) * 12 + BASE[st.upper()] + (al or 0)
            if e or r != exp:
                ev.oracle.append("spelling->midi: %r gives %r, twelve-tone arithmetic says %d" % ((st, al, oc), e or r, exp))
            key = "spell"
        if al is not None:
            nm, e2 = call(M.pitch_spelling_to_note_name, st, al, oc)
            ev.requests.append("s2n %s %d %d" % (W.s(st), al, oc))
            ev.impl.append("err" if e2 else nm)
            if valid and not e2 and oc >= 0:
                back, e3 = call(M.note_name_to_pitch_spelling, nm)
                if e3 or tuple(back) != (st.upper(), al, oc):
                    ev.oracle.append("name round trip: %r -> %r -> %r" % ((st, al, oc), nm, e3 or back))
                mp, e4 = call(M.note_name_to_midi_pitch, nm)
                if e4 or mp != (oc + 1) * 12 + BASE[st.upper()] + al:
                    ev.oracle.append("note_name_to_midi_pitch(%r) = %r" % (nm, e4 or mp))
            if valid and -2 <= al <= 2:
                n = S.Note(step=st, octave=oc, alter=al)
                if n.midi_pitch != (oc + 1) * 12 + BASE[st.upper()] + al:
                    ev.oracle.append("Note.midi_pitch %r" % ((st, al, oc),))
    elif k == "midi":
        p = d["p"]
        r, e = call(M.midi_pitch_to_pitch_spelling, p)
        ev.requests.append("m2s %d" % p)
        ev.impl.append("err" if e else W.f_tuple(r[0], W.f_int(r[1]), W.f_int(r[2])))
        if e:
            ev.oracle.append("midi_pitch_to_pitch_spelling(%d) raised %r" % (p, e))
        else:
            back, e2 = call(M.pitch_spelling_to_midi_pitch, *r)
            if e2 or back != p:
                ev.oracle.append("midi->spelling->midi: %d -> %r -> %r" % (p, r, e2 or back))
            if r[1] not in (0, 1):
                ev.oracle.append("midi->spelling alteration %r" % (r,))
        key = "midi"
    elif k == "name":
        nm = d["name"]
        r, e = call(M.note_name_to_pitch_spelling, nm)
        ev.requests.append("n2s %s" % W.s(nm))
        ev.impl.append("err" if e else W.f_tuple(r[0], W.f_opt(W.f_int, r[1]), W.f_int(r[2])))
        r2, e2 = call(M.note_name_to_midi_pitch, nm)
        ev.requests.append("n2m %s" % W.s(nm))
        ev.impl.append("err" if e2 else W.f_int(r2))
        # oracle: names of the documented grammar <step><accidentals><octave>
        import re

        m = re.fullmatch(r"([A-G])([xb#]*)(\d+)", nm)
        if m and m.group(2) in ACC:
            exp = (m.group(1), ACC[m.group(2)], int(m.group(3)))
            if e or tuple(r) != exp:
                ev.oracle.append("note name %r parsed as %r, grammar says %r" % (nm, e or r, exp))
            expm = (exp[2] + 1) * 12 + BASE[exp[0]] + exp[1]
            if e2 or r2 != expm:
                ev.oracle.append("note name %r midi %r, expected %d" % (nm, e2 or r2, expm))
            key = "name"
    elif k == "f2k":
        f, mode = d["f"], d["mode"]
        r, e = call(M.fifths_mode_to_key_name, f, mode)
        ev.requests.append("f2k %d %s" % (f, lit(mode)))
        ev.impl.append("err" if e else r)
        okmode = any(mode is m or (type(mode) is type(m) and mode == m) for m in MODES)
        if not okmode and any(type(mode) is type(m) and mode == m for m in MODES_TYPED):
            # 1.0 / -1.0 / True: the number 1 or -1 in another type - accepted or not, never another key
            if not e and -7 <= f <= 7:
                exp = (MIN[f + 7] + "m") if mode == -1 else MAJ[f + 7]
                if r != exp:
                    ev.oracle.append("fifths_mode_to_key_name(%r,%r) = %r: the number %r means %r" % (f, mode, r, mode, exp))
            elif not e:
                ev.oracle.append("fifths_mode_to_key_name(%r,%r) = %r: value outside -7..7 must be rejected" % (f, mode, r))
        elif okmode and -7 <= f <= 7:
            minor = mode in ("minor", -1)
            exp = (MIN[f + 7] + "m") if minor else MAJ[f + 7]
            if e or r != exp:
                ev.oracle.append("fifths_mode_to_key_name(%r,%r) = %r, expected %r" % (f, mode, e or r, exp))
            else:
                back, e2 = call(M.key_name_to_fifths_mode, r)
                if e2 or tuple(back) != (f, "minor" if minor else "major"):
                    ev.oracle.append("key bijection: (%r,%r) -> %r -> %r" % (f, mode, r, e2 or back))
                ks = S.KeySignature(f, "minor" if minor else "major")
                if ks.name != exp:
                    ev.oracle.append("KeySignature.name %r" % ks.name)
            key = "f2k"
        else:
            if not e:
                ev.oracle.append("fifths_mode_to_key_name(%r,%r) = %r: value outside -7..7 / unknown mode must be rejected" % (f, mode, r))
    elif k == "f2kx":
        _eval_f2kx(d, ev, M, S)
        key = "f2kx"
    elif k == "modex":
        _eval_modex(d, ev, M, S)
        key = "modex"
    elif k == "k2f":
        nm = d["name"]
        r, e = call(M.key_name_to_fifths_mode, nm)
        ev.requests.append("k2f %s" % W.s(nm))
        ev.impl.append("err" if e else W.f_tuple(W.f_int(r[0]), r[1]))
        if nm in MAJ or (nm.endswith("m") and nm[:-1] in MIN):
            exp = (MAJ.index(nm) - 7, "major") if nm in MAJ else (MIN.index(nm[:-1]) - 7, "minor")
            if e or tuple(r) != exp:
                ev.oracle.append("key_name_to_fifths_mode(%r) = %r, expected %r" % (nm, e or r, exp))
            key = "k2f"
    elif k == "mode":
        mode = d["mode"]
        r, e = call(M.key_mode_to_int, mode)
        ev.requests.append("kmi %s" % lit(mode))
        ev.impl.append("err" if e else W.f_int(r))
        r2, e2 = call(M.key_int_to_mode, mode)
        ev.requests.append("kim %s" % lit(mode))
        ev.impl.append("err" if e2 else r2)
        okmode = any(mode is m or (type(mode) is type(m) and mode == m) for m in MODES)
        if not okmode and any(type(mode) is type(m) and mode == m for m in MODES_TYPED):
            if not e and r != (-1 if mode == -1 else 1):
                ev.oracle.append("key_mode_to_int(%r) = %r: the number %r is %d" % (mode, r, mode, -1 if mode == -1 else 1))
            if not e2 and r2 != ("minor" if mode == -1 else "major"):
                ev.oracle.append("key_int_to_mode(%r) = %r" % (mode, r2))
        elif okmode:
            minor = mode in ("minor", -1)
            if e2 or r2 != ("minor" if minor else "major"):
                ev.oracle.append("key_int_to_mode(%r) = %r" % (mode, e2 or r2))
            if e or r != (-1 if minor else 1):
                ev.oracle.append("key_mode_to_int(%r) = %r" % (mode, e or r))
            else:
                b, e3 = call(M.key_int_to_mode, r)
                if e3 or b != ("minor" if minor else "major"):
                    ev.oracle.append("mode code does not decode: %r -> %r -> %r" % (mode, r, e3 or b))
            key = "mode"
        else:
            if not e:
                ev.oracle.append("key_mode_to_int accepted unknown mode %r" % (mode,))
            if not e2:
                ev.oracle.append("key_int_to_mode accepted unknown mode %r" % (mode,))
    elif k == "clef":
        c = d["sign"]
        r, e = call(M.clef_sign_to_int, c)
        ev.requests.append("csi %s" % W.s(c))
        ev.impl.append("err" if e else W.f_int(r))
        if not e:
            b, e2 = call(M.clef_int_to_sign, r)
            if e2 or b != c:
                ev.oracle.append("clef code does not decode: %r -> %r -> %r" % (c, r, e2 or b))
            key = "clef"
    elif k == "clefint":
        c = d["code"]
        r, e = call(M.clef_int_to_sign, c)
        ev.requests.append("cis %d" % c)
        ev.impl.append("err" if e else r)
        if not e:
            b, e2 = call(M.clef_sign_to_int, r)
            if e2 or b != c:
                ev.oracle.append("clef sign does not encode back: %r -> %r -> %r" % (c, r, e2 or b))
            key = "clefint"
    elif k == "tqt":
        u, t = d["unit"], d["tempo"]
        r, e = call(M.to_quarter_tempo, u, t)
        ev.requests.append("tqt %s %s" % (W.s(u), W.q(t)))
        ev.impl.append("err" if e else ("@approx", float(r), 1e-12))
        import partitura.utils.globals as G

        base = u.strip().rstrip(".")
        dots = u.count(".")
        if base in VAL and dots <= 3 and "." not in base:
            exp = W.as_fraction(t) * DM[dots] * VAL[base]
            if e or abs(Fraction(*float(r).as_integer_ratio()) - exp) > Fraction(1, 10**9):
                ev.oracle.append("to_quarter_tempo(%r,%r) = %r, defined value %s" % (u, t, e or r, exp))
            key = "tqt"
    elif k == "mpq":
        u, bpm = d["unit"], d["bpm"]
        t = S.Tempo(bpm, u)
        r, e = call(lambda: t.microseconds_per_quarter)
        ev.requests.append("mpq %s %s" % (W.opt(W.s, u), W.q(bpm)))
        ev.impl.append("err" if e else W.f_int(r))
        if u is None or u in VAL:
            # microseconds per quarter = 60 * 10^6 / (quarters per minute), to the nearest integer; no unit = quarters
            exact = Fraction(60 * 10**6) / (W.as_fraction(bpm) * VAL[u or "q"])
            if e or abs(r - exact) > Fraction(1, 2) + Fraction(1, 10**6):
                ev.oracle.append("Tempo(%r, %r).microseconds_per_quarter = %r, defined value %s" % (bpm, u, e or r, float(exact)))
        key = "mpq"
    elif k == "s2num":
        sd = {}
        if d["type"] is not None:
            sd["type"] = d["type"]
        if d["dots"] is not None:
            sd["dots"] = d["dots"]
        if d["actual"] is not None:
            sd["actual_notes"] = d["actual"]
        if d["normal"] is not None:
            sd["normal_notes"] = d["normal"]
        r, e = call(M.symbolic_to_numeric_duration, sd, d["divs"])
        ev.requests.append("s2num %s %s %s %s %d" % (W.opt(W.s, d["type"]), W.opt(W.i, d["dots"]), W.opt(W.i, d["actual"]),
                                                    W.opt(W.i, d["normal"]), d["divs"]))
        ev.impl.append("err" if e else ("@approx", float(r), 1e-12))
        # oracle (round 6): a note value with 0..3 dots and a tuplet ratio of non-zero counts lasts
        # divs * value * (2 - 1/2^dots) * normal / actual; counts or dots left out are no tuplet / no dots
        if d["type"] in VAL and (d["dots"] or 0) <= 3 and d["actual"] != 0 and d["normal"] != 0:
            exp = d["divs"] * VAL[d["type"]] * DM[d["dots"] or 0] * Fraction(d["normal"] or 1, d["actual"] or 1)
            if e or abs(Fraction(*float(r).as_integer_ratio()) - exp) > Fraction(1, 10**9) * max(1, exp):
                ev.oracle.append("symbolic_to_numeric_duration(%r, %r) = %r, defined value %s" % (sd, d["divs"], e or r, exp))
        if not e:
            key = "s2num"
    elif k == "iv":
        qual, n, dr = d["q"], d["n"], d["dir"]
        iv, e = call(S.Interval, n, qual, dr)
        ev.requests.append("ivv %s %d %s" % (W.s(qual), n, W.s(dr)))  # (a direction named "D" never occurs)
        ev.impl.append("0" if e else "1")
        if not e:
            r, e2 = call(lambda: iv.semitones)
            ev.requests.append("ivs %s %d" % (W.s(qual), n))
            ev.impl.append("err" if e2 else W.f_int(r))
            if 1 <= n <= 7:
                basest = {1: 0, 2: 2, 3: 4, 4: 5, 5: 7, 6: 9, 7: 11}[n]
                if n in (1, 4, 5):
                    off = {"dd": -2, "d": -1, "P": 0, "A": 1, "AA": 2}.get(qual)
                else:
                    off = {"dd": -3, "d": -2, "m": -1, "M": 0, "A": 1, "AA": 2}.get(qual)
                if off is None or e2 or r != basest + off:
                    ev.oracle.append("Interval(%r,%r).semitones = %r, defined size %r" % (n, qual, e2 or r, None if off is None else basest + off))
                key = "iv"
    elif k == "ivq":
        qual, n, st = d["q"], d["n"], d["step"]
        iv, e = call(S.Interval, n, qual, d["dir"])
        if e is None:
            if d["read_first"]:
                call(lambda: iv.semitones)
            r, e1 = call(iv.change_quality, st)
            ev.requests.append("ivq %s %d %d" % (W.s(qual), n, st))
            if e1:
                ev.impl.append("err")
            else:
                sz, e2 = call(lambda: iv.semitones)
                ev.impl.append("err" if e2 else W.f_tuple(str(iv.quality), W.f_int(sz)))
                if r is not iv:
                    ev.oracle.append("Interval(%d,%r).change_quality(%d) did not return the interval itself" % (n, qual, st))
                if (iv.number, iv.direction) != (n, d["dir"]):
                    ev.oracle.append("change_quality changed number/direction: %r %r" % (iv.number, iv.direction))
                basest = {1: 0, 2: 2, 3: 4, 4: 5, 5: 7, 6: 9, 7: 11}[n]
                ladder = {"dd": -2, "d": -1, "P": 0, "A": 1, "AA": 2} if n in (1, 4, 5) else {"dd": -3, "d": -2, "m": -1, "M": 0, "A": 1, "AA": 2}
                old_off, new_off = ladder.get(qual), ladder.get(iv.quality)
                if new_off is None or old_off is None or new_off != old_off + st:
                    ev.oracle.append("Interval(%d,%r).change_quality(%d) gives quality %r: not %d semitone(s) from %r" % (
                        n, qual, st, iv.quality, st, qual))
                elif e2 or sz != basest + new_off:
                    ev.oracle.append("Interval(%d,%r) after change_quality(%d)%s is %s%d and reports %r semitones, defined size %d" % (
                        n, qual, st, " (size read before)" if d["read_first"] else "", iv.quality, n, e2 or sz, basest + new_off))
                fresh, e3 = call(lambda: S.Interval(n, iv.quality, d["dir"]).semitones)
                if not e2 and (e3 or fresh != sz):
                    ev.oracle.append("Interval(%d,%r) after change_quality(%d) reports %r semitones, a fresh Interval(%d,%r) %r" % (
                        n, qual, st, sz, n, iv.quality, e3 or fresh))
            key = "ivq"
    elif k == "conv_arr":
        mpq, ppq = d["mpq"], d["ppq"]
        if d["dir"] == "t2s":
            f, vals = M.midi_ticks_to_seconds, [float(x) for x in d["ticks"]]
        else:
            f, vals = M.seconds_to_midi_ticks, [x * mpq / (1e6 * ppq) for x in d["ticks"]]
        if d["dir"] == "s2t" and d["dtype"] in ("int64", "int32"):
            vals = [float(int(v)) for v in vals]
        if d["dtype"] == "float32":
            vals = [float(np.float32(v)) for v in vals]
        if d["dtype"] == "list":
            arg = list(vals)
        elif d["dtype"] == "0d":
            vals = vals[:1]
            arg = np.array(vals[0], dtype="float64")
        else:
            arg = np.array(vals, dtype=d["dtype"])
        keep = copy.deepcopy(arg)
        kw = d.get("kw", "both")
        extra = {"both": (mpq, ppq), "mpq": (mpq,), "none": ()}[kw]
        if kw != "both":
            # the values were laid out for (mpq, ppq); with a keyword left out the call simply uses its default
            f0 = f
            f = lambda x, _m=None, _p=None: f0(x, *extra)  # noqa: E731
            f.__name__ = f0.__name__
        r1, e1 = call(f, arg, mpq, ppq)
        same = (arg == keep) if isinstance(arg, list) else bool(np.array_equal(arg, keep) and arg.dtype == keep.dtype)
        what = "%s(%s %s, mpq=%d, ppq=%d)" % (f.__name__, d["dtype"], vals, mpq, ppq)
        if not same:
            ev.oracle.append("frame: %s changed the caller's array to %r" % (what, arg if isinstance(arg, list) else arg.tolist()))
        if e1 is None and isinstance(r1, np.ndarray) and isinstance(arg, np.ndarray) and np.shares_memory(r1, arg):
            ev.oracle.append("alias: the result of %s shares memory with the argument" % what)
        first = None if e1 else np.array(r1, dtype=float).reshape(-1).tolist()
        r2, e2 = call(f, arg, mpq, ppq)
        second = None if e2 else np.array(r2, dtype=float).reshape(-1).tolist()
        if first != second:
            ev.oracle.append("repeat: %s gives %r the first time and %r the second" % (what, e1 or first, e2 or second))
        scal = []
        for v in vals:
            rs, es = call(f, v, mpq, ppq)
            scal.append(None if es else float(rs))
        if d["dtype"] == "float32":
            pass  # a float32 array is converted in float32 arithmetic: equal only up to that precision, not demanded
        elif e1 is None and None not in scal:
            tol = 1e-12 if d["dir"] == "t2s" else 0
            if len(first) != len(scal) or any(abs(a - b) > tol * max(1.0, abs(b)) for a, b in zip(first, scal)):
                ev.oracle.append("alike: %s = %r, the same values one by one give %r" % (what, first, scal))
        elif (e1 is None) != (None not in scal):
            ev.oracle.append("alike: %s %s, scalars %s" % (what, "raises %r" % e1 if e1 else "works", scal))
        # round 6: the array call against the array form of the model (Model/ConversionsArr.lean)
        if d["dtype"] != "float32":
            toks = " ".join(("%d" % x) for x in extra) + " D" * (2 - len(extra))
            m_eff, p_eff = (extra + (500000, 480)[len(extra):]) if len(extra) < 2 else extra
            if d["dir"] == "t2s":
                ev.requests.append("tick2secA %s %s" % (toks.strip(), W.lst(W.q, vals)))
                ev.impl.append("err" if e1 else ("@approx", [float(x) for x in first], 1e-12))
            else:
                ex = [Fraction(10**6) * p_eff * W.as_fraction(v) / m_eff for v in vals]
                if all(abs(x - math.floor(x) - Fraction(1, 2)) > Fraction(1, 10**6) for x in ex):
                    ev.requests.append("sec2tickA %s %s" % (toks.strip(), W.lst(W.q, vals)))
                    ev.impl.append("err" if e1 else W.f_list(W.f_int, first))
        key = "conv_arr"
    elif k == "tup":
        class _N:  # minimal stand-in for the start/end notes
            pass

        t = S.Tuplet(None, None, actual_notes=d["actual"], normal_notes=d["normal"], actual_type=d["at"], normal_type=d["nt"])
        r, e = call(lambda: t.duration_multiplier)
        ev.requests.append("tupm %d %d %s %s" % (d["actual"], d["normal"], W.s(d["at"]), W.s(d["nt"])))
        ev.impl.append("err" if e else W.f_rat(Fraction(r)))
        _tuplet_oracle(ev, d["actual"], d["normal"], d["at"], d["nt"], r, e)
        key = "tup"
    elif k == "tupx":
        for n in d["normals"]:
            t = S.Tuplet(None, None, actual_notes=d["actual"], normal_notes=n, actual_type=d["at"], normal_type=d["nt"])
            r, e = call(lambda: t.duration_multiplier)
            ev.requests.append("tupm %d %d %s %s" % (d["actual"], n, W.opt(W.s, d["at"]), W.opt(W.s, d["nt"])))
            ev.impl.append("err" if e else (W.f_rat(r) if isinstance(r, Fraction) else repr(r)))
            _tuplet_oracle(ev, d["actual"], n, d["at"], d["nt"], r, e)
        key = "tupx"
    elif k == "epsf":
        st, al, oc = d["step"], d["alter"], d["oct"]
        r, e = call(M.ensure_pitch_spelling_format, st, al["v"], oc["v"])
        tok_a = {"sign": lambda v: "s:" + W.s(v), "int": lambda v: "i:%d" % v, "float": lambda v: "n:" + W.q(v),
                 "none": lambda v: "-"}[al["t"]](al["v"])
        tok_o = {"str": lambda v: "s:" + W.s(v), "int": lambda v: "i:%d" % v, "float": lambda v: "n:" + W.q(v),
                 "none": lambda v: "-"}[oc["t"]](oc["v"])
        ev.requests.append("epsf %s %s %s" % (W.s(st), tok_a, tok_o))
        ev.impl.append("err" if e else _txt(norm(tuple(r))))
        # oracle: a letter of the scale (either case) or the rest letter, a known sign or an integer, an integer octave
        okstep = st.lower() in ("c", "d", "e", "f", "g", "a", "b", "r") and len(st) == 1
        if okstep and ((al["t"] == "sign" and al["v"] in SIGNS) or al["t"] in ("int", "none")) and oc["t"] in ("int", "none"):
            exp = (st.upper(), SIGNS[al["v"]] if al["t"] == "sign" else al["v"], oc["v"])
            if e or tuple(r) != exp:
                ev.oracle.append("ensure_pitch_spelling_format(%r,%r,%r) = %r, expected %r" % (st, al["v"], oc["v"], e or r, exp))
            elif st.lower() != "r" and None not in exp:
                again, e2 = call(M.ensure_pitch_spelling_format, *r)
                if e2 or tuple(again) != tuple(r):
                    ev.oracle.append("ensure_pitch_spelling_format is not idempotent on %r: %r" % (r, e2 or again))
            key = "epsf"
        # (which other steps are rejected is compared with the model only: the property does not say)
    elif k == "pc":
        st, al = d["step"], d["alter"]
        r, e = call(M.step2pc, st, al)
        ev.requests.append("step2pc %s %d" % (W.s(st), al))
        ev.impl.append("err" if e else W.f_int(r))
        if st in BASE:
            exp = (BASE[st] + al) % 12
            if e or r != exp:
                ev.oracle.append("step2pc(%r,%r) = %r, twelve-tone arithmetic says %d" % (st, al, e or r, exp))
            mp, e2 = call(M.pitch_spelling_to_midi_pitch, st, al, 4)
            if not e and (e2 or mp % 12 != r):
                ev.oracle.append("step2pc(%r,%r) = %r but the spelled pitch is %r" % (st, al, r, e2 or mp))
            key = "pc"
    elif k == "asign":
        st, al, oc = d["step"], d["alter"], d["oct"]
        nt = S.Note(step=st, octave=oc, alter=al)
        r, e = call(lambda: nt.alter_sign)
        ev.requests.append("asign %s" % W.opt(W.i, al))
        ev.impl.append("err" if e else "s:" + str(r))
        if al is None or -2 <= al <= 2:
            nm, e2 = call(M.pitch_spelling_to_note_name, st, al or 0, oc)
            if e or e2 or "%s%s%d" % (st, r, oc) != nm:
                ev.oracle.append("Note(%r, alter=%r).alter_sign = %r but the note is called %r" % (st, al, e or r, e2 or nm))
            key = "asign"
    elif k == "fsd":
        sd = d["sd"]
        if sd is None:
            arg, req = None, "fsd N"
        else:
            arg = {}
            if sd["type"] is not None:
                arg["type"] = sd["type"]
            if sd["dots"] is not None:
                arg["dots"] = sd["dots"]
            if sd["actual"] is not None:
                arg["actual_notes"] = sd["actual"]
            if sd["normal"] is not None:
                arg["normal_notes"] = sd["normal"]
            req = "fsd %s %s %s %s" % (W.opt(W.s, sd["type"]), W.opt(W.i, sd["dots"]), W.opt(W.i, sd["actual"]), W.opt(W.i, sd["normal"]))
        r, e = call(M.format_symbolic_duration, arg)
        ev.requests.append(req)
        ev.impl.append("err" if e else "s:" + str(r))
        # compared with the model only (the property names no format); C12.tempo_unit_roundtrip is the model's theorem
        if sd is not None and sd["type"] in VAL and not e:
            key = "fsd"
    elif k == "dflt":
        # keyword arguments left out.  The oracle demands only what the property says: the conversions still invert
        # each other when BOTH are called with the same arguments left out, and a mode left out is the mode None
        f, a = d["f"], d["args"]
        if f == "s2t":
            r, e = call(M.seconds_to_midi_ticks, *a)
            ev.requests.append("sec2tick %s %s D" % (W.q(a[0]), "D" if len(a) < 2 else "%d" % a[1]))
            ev.impl.append("err" if e else W.f_int(r))
            if e:
                ev.oracle.append("seconds_to_midi_ticks%r raised %r" % (tuple(a), e))
            else:
                sec, e2 = call(M.midi_ticks_to_seconds, r, *a[1:])
                back, e3 = call(M.seconds_to_midi_ticks, sec, *a[1:]) if not e2 else (None, e2)
                if e3 or back != r:
                    ev.oracle.append("defaults: ticks->seconds->ticks with the same arguments left out: %r -> %r -> %r" % (r, e2 or sec, e3 or back))
        elif f == "t2s":
            r, e = call(M.midi_ticks_to_seconds, *a)
            ev.requests.append("tick2sec %s %s D" % (W.q(a[0]), "D" if len(a) < 2 else "%d" % a[1]))
            ev.impl.append("err" if e else ("@approx", float(r), 1e-12))
            if e:
                ev.oracle.append("midi_ticks_to_seconds%r raised %r" % (tuple(a), e))
            else:
                back, e3 = call(M.seconds_to_midi_ticks, r, *a[1:])
                if e3 or back != a[0]:
                    ev.oracle.append("defaults: ticks->seconds->ticks with the same arguments left out: %r -> %r -> %r" % (a[0], r, e3 or back))
        elif f == "f2k":
            r, e = call(M.fifths_mode_to_key_name, *a)
            ev.requests.append("f2k %d D" % a[0])
            ev.impl.append("err" if e else r)
            if -7 <= a[0] <= 7:
                if e or r != MAJ[a[0] + 7]:
                    ev.oracle.append("fifths_mode_to_key_name(%d) = %r, a mode left out is major: %r" % (a[0], e or r, MAJ[a[0] + 7]))
            elif not e:
                ev.oracle.append("fifths_mode_to_key_name(%d) = %r: value outside -7..7 must be rejected" % (a[0], r))
        elif f == "iv":
            iv, e = call(S.Interval, *a)
            ev.requests.append("ivv %s %d D" % (W.s(a[1]), a[0]))
            ev.impl.append("0" if e else "1")
        else:  # m2f
            r, e = call(M.midi_pitch_to_frequency, *a)
            if (a[0] - 9) % 12 == 0:
                ev.requests.append("m2f %d D" % a[0])
                ev.impl.append("err" if e else ("@approx", float(r), 1e-12))
            if e:
                ev.oracle.append("midi_pitch_to_frequency(%d) raised %r" % (a[0], e))
            else:
                b, e3 = call(M.frequency_to_midi_pitch, r)
                if e3 or b != a[0]:
                    ev.oracle.append("default tuning: midi_pitch_to_frequency(%d) = %r goes back to %r" % (a[0], r, e3 or b))
        key = "dflt"
    elif k == "ty":
        _eval_ty(d, ev, M, S)
        key = "ty"
    elif k == "s2t":
        t, mpq, ppq = d["t"], d["mpq"], d["ppq"]
        exact = Fraction(10**6) * ppq * Fraction(*float(t).as_integer_ratio()) / mpq
        ra, ea = call(M.seconds_to_midi_ticks, np.array([t, t]), mpq, ppq)
        rs, es = call(M.seconds_to_midi_ticks, t, mpq, ppq)
        if not ea:
            if not (isinstance(ra, np.ndarray) and ra.shape == (2,) and ra[0] == ra[1] and np.issubdtype(ra.dtype, np.integer)):
                ev.oracle.append("seconds_to_midi_ticks(array) returned %r" % (ra,))
            ra = int(ra[0])
        if not ea and not es and ra != rs:
            ev.oracle.append("seconds_to_midi_ticks: scalar and array disagree for t=%r mpq=%d ppq=%d: %r vs %r" % (t, mpq, ppq, rs, ra))
        r, e = (ra, ea) if d["arr"] else (rs, es)
        if e:
            ev.oracle.append("seconds_to_midi_ticks(%s%r, mpq=%d, ppq=%d) raised %r" % ("array " if d["arr"] else "", t, mpq, ppq, e))
        else:
            fl = math.floor(exact)
            frac = exact - fl
            # the implementation evaluates 1e6 * ppq * t / mpq in binary64; when that evaluation is exact a tie is a
            # real tie and the rounding rule (half to even) decides: compare with the model strictly
            fval = 1e6 * ppq * t / mpq
            float_exact = Fraction(*float(fval).as_integer_ratio()) == exact
            if abs(frac - Fraction(1, 2)) < Fraction(1, 10**6) and not float_exact:
                # binary64 evaluation may land on either side: only demand a nearest integer
                if r not in (fl, fl + 1):
                    ev.oracle.append("ticks %r not nearest to %s" % (r, float(exact)))
            else:
                ev.requests.append("sec2tick %s %d %d" % (W.q(t), mpq, ppq))
                ev.impl.append(W.f_int(r))
                if abs(r - exact) > Fraction(1, 2):
                    ev.oracle.append("ticks %r is not round(%s)" % (r, float(exact)))
                elif frac == Fraction(1, 2) and r % 2 != 0:
                    ev.oracle.append("ticks: round(%s) must go to the even neighbour (numpy/Python round), got %r" % (float(exact), r))
            key = "s2t"
    elif k == "t2s":
        tick, mpq, ppq = d["tick"], d["mpq"], d["ppq"]
        if d["arr"]:
            r, e = call(M.midi_ticks_to_seconds, np.array([tick, tick]), mpq, ppq)
            r = None if e else float(r[0])
        else:
            r, e = call(M.midi_ticks_to_seconds, tick, mpq, ppq)
        ev.requests.append("tick2sec %d %d %d" % (tick, mpq, ppq))
        ev.impl.append("err" if e else ("@approx", float(r), 1e-12))
        if not e:
            back, e2 = call(M.seconds_to_midi_ticks, r, mpq, ppq)
            if e2 or back != tick:
                ev.oracle.append("ticks->seconds->ticks: %d -> %r -> %r (mpq=%d ppq=%d)" % (tick, r, e2 or back, mpq, ppq))
            key = "t2s"
    elif k == "freq":
        p, a4 = d["p"], d["a4"]
        f, e = call(M.midi_pitch_to_frequency, p, a4)
        if (p - 9) % 12 == 0:
            ev.requests.append("m2f %d %s" % (p, W.q(a4)))
            ev.impl.append("err" if e else ("@approx", float(f), 1e-12))
        if e:
            ev.oracle.append("midi_pitch_to_frequency(%d) raised %r" % (p, e))
        else:
            exp = a4 * 2 ** ((p - 69) / 12)
            if abs(f - exp) > 1e-9 * exp:
                ev.oracle.append("midi_pitch_to_frequency(%d,%r) = %r, equal temperament says %r" % (p, a4, f, exp))
            b, e2 = call(M.frequency_to_midi_pitch, np.array([f]), a4)
            if e2 or int(b[0]) != p:
                ev.oracle.append("frequency->pitch: %d -> %r -> %r" % (p, f, e2 or b))
            b, e2 = call(M.frequency_to_midi_pitch, float(f), a4)
            if e2 or b is None or int(b) != p:
                ev.oracle.append("frequency->pitch (scalar): %d -> %r -> %r" % (p, f, e2 or b))
        key = "freq"
    ev.key = None if key is None else "|".join(ev.requests) or repr(d)
    return ev


def shrink(d):
    """list-valued cases: one value of the list at a time"""
    if d.get("k") == "ty" and len(d.get("col") or []) > 1:
        for v in d["col"]:
            yield dict(d, col=[v], args=[v] + list(d["args"][1:]))
    if d.get("k") in ("f2kx", "modex"):
        if len(d["vals"]) > 1:
            for v in d["vals"]:
                yield dict(d, vals=[v])
        if len(d.get("modes") or []) > 1:
            for m in d["modes"]:
                yield dict(d, modes=[m])
    if d.get("k") == "tupx" and len(d["normals"]) > 1:
        for n in d["normals"]:
            yield dict(d, normals=[n])


def finding_key(d, f):
    return d["k"] + ":" + f.split(":")[0].split("(")[0]


def distribution(descs, results):
    from collections import Counter

    c = Counter(d["k"] for d in descs)
    errs = sum(1 for r in results for x in r["impl"] if x == "err")
    obs = Counter()
    for d, r in zip(descs, results):
        for q, im in zip(r["requests"], r["impl"]):
            obs[q.split(" ")[0] + (":err" if im == "err" else "")] += 1
    ty = [d for d in descs if d["k"] == "ty"]
    ty_f = Counter(d["f"] for d in ty)
    ty_t = Counter("%s/%s" % (d["types"][0], d["form"]) for d in ty)
    ty_other = Counter(t for d in ty for t in d["types"][1:] if t)

    def tup_branch(d):
        if d["actual"] == 0:
            return "no actual notes (rejected)"
        if d["at"] == d["nt"]:
            return "both absent" if d["at"] is None else "equal types"
        if d["at"] is None or d["nt"] is None:
            return "one type absent (rejected)"
        if d["nt"] not in VAL:
            return "unknown type (rejected)"
        return "longer actual type" if VAL[d["at"]] > VAL[d["nt"]] else "shorter actual type"

    tup = Counter(tup_branch(d) for d in descs if d["k"] == "tupx")
    ep = Counter("%s/%s" % (d["alter"]["t"], d["oct"]["t"]) for d in descs if d["k"] == "epsf")
    def k2f_branch(nm):
        if not nm:
            return "empty (rejected)"
        if nm[0] not in "FCGDAEB":
            return "first character not a letter of the list (rejected)"
        mode = "minor" if "m" in nm else "major"
        if "b" in nm:
            side = "flat"
        elif mode == "minor" and len(nm) == 2 and nm[0] in "FCGD":
            side = "two-character rule"
        elif nm == "F":
            side = "the name F"
        else:
            side = "sharp" if "#" in nm else "natural"
        return "%s / %s%s" % (mode, side, " / both kinds" if "b" in nm and "#" in nm else "")

    k2f = Counter(k2f_branch(d["name"]) for d in descs if d["k"] == "k2f")
    arr = Counter("%s %s kw=%s" % (d["dir"], d["dtype"], d.get("kw", "both")) for d in descs if d["k"] == "conv_arr")
    s2n = Counter("type %s / dots %s / tuplet %s" % (
        "absent" if d["type"] is None else ("known" if d["type"] in VAL else "unknown"),
        "absent" if d["dots"] is None else ("0..3" if d["dots"] <= 3 else ">3"),
        "none" if d["actual"] is None and d["normal"] is None else ("zero count" if 0 in (d["actual"], d["normal"]) else
                                                                   ("one count" if None in (d["actual"], d["normal"]) else "both")))
        for d in descs if d["k"] == "s2num")
    fk = Counter()
    for d in descs:
        if d["k"] == "f2kx":
            for v in d["vals"]:
                if v in ("inf", "-inf", "nan"):
                    fk["%s / %s" % (d["t"], v)] += 1
                    continue
                fr = Fraction(v)
                where = "outside" if abs(fr) > 7 else "inside"
                if where == "outside" and abs(fr) < 8:
                    where = "outside by less than one"
                fk["%s / %s / %s" % ("integer type" if d["t"] in INDEX_T else d["t"], "integral" if fr.denominator == 1 else "fractional", where)] += 1
    return {"by_kind": dict(c), "fifths_number_kinds": dict(fk), "error_observations": errs, "observations_by_request": dict(obs),
            "key_name_branches": dict(k2f), "array_calls": dict(arr), "symbolic_numeric_shapes": dict(s2n),
            "typed_by_function": dict(ty_f), "typed_by_type_and_form": dict(ty_t), "typed_other_arguments": dict(ty_other),
            "tuplet_branches": dict(tup), "ensure_format_argument_kinds": dict(ep),
            "defaults_left_out": dict(Counter(d["f"] for d in descs if d["k"] == "dflt"))}

LEVEL_TEXT = ("Lean 4 theorems (unbounded over octaves/pitches/ticks/counts/mode arguments; whole regenerated tables by kernel "
              "decision; frequency inversion over the reals with a 1% / 0.01 perturbation margin) about an executable model of "
              "the conversion functions that includes their glue (mode membership chains, range guard before Python "
              "indexing, ensure_pitch_spelling_format, keyword defaults, absent tuplet types); the model is tied to the code "
              "by regenerating every module-level table AND every literal inside the function bodies (tuples, bounds, "
              "ladders, regex classes, arithmetic constants, defaults) from /repo on each run, and by an exhaustive "
              "differential run over the finite domains the property names, repeated for every number type of every "
              "numeric argument.  Round 6: key_name_to_fifths_mode is proved equal to a closed form on EVERY string "
              "(line-of-fifths position - 3 for minor -/+ 7 per flat / sharp; rejected exactly when the first character is "
              "not one of the seven letters) with all of its constants regenerated by role (translate_c12b.py), the key "
              "tables, the key estimator's KEYS table and the pitch-class table are proved to agree (tonic = 7 * fifths "
              "mod 12 for any number of accidentals), the array forms of the tick conversions are in the model (element "
              "by element, round trip on whole arrays), symbolic_to_numeric_duration is characterised on every dict, "
              "and frequency -> pitch -> frequency is bounded by a quarter tone over the reals.  After seed C12-k: the "
              "number of fifths is modelled as a Python NUMBER (integer-typed or any other real type with its exact value): "
              "every value outside -7..7 is proved rejected in every type and mode, a name is produced exactly for "
              "integer-typed -7..7, and a produced name reads back to the value passed; compared on 17 number types.")
