"""C12 - pitch, key, duration and time-unit conversions are mutually consistent."""
import itertools
import copy
import math
from fractions import Fraction

import numpy as np

import wire as W
from core import Eval

PROPERTY = "C12"
DRIVER = "drv_c12"
PROPS = ["PartituraModel.Props.C12", "PartituraModel.Props.C12Real"]
TRUSTED = [
    "Python str.lower/upper/strip, re for NOTE_NAME_PATT (modelled as a scanner)",
    "binary64 evaluation of 1e6*ppq*t/mpq before np.round (model exact; x.5 boundaries judged by the oracle only)",
    "frequency<->pitch identity is a theorem over the reals; binary64 log2/pow compared exhaustively on 0..127 only",
]
PARTIAL = ["freq_pitch: real-number theorem, implementation compared on MIDI 0..127 x a4 in {415,440,442}"]
RULE = ("exhaustive finite domains named by the property (steps x alter -3..3 x octaves -1..9, MIDI -24..260, "
        "note-name grammar up to 3 accidentals, fifths -24..24 x mode spellings, units x dots, interval classes) "
        "plus seeded random ppq/mpq/time triples; distinct = distinct request line; non-trivial = not an error case")

STEPS = "CDEFGAB"
BASE = {"C": 0, "D": 2, "E": 4, "F": 5, "G": 7, "A": 9, "B": 11}
MAJ = ["Cb", "Gb", "Db", "Ab", "Eb", "Bb", "F", "C", "G", "D", "A", "E", "B", "F#", "C#"]
MIN = ["Ab", "Eb", "Bb", "F", "C", "G", "D", "A", "E", "B", "F#", "C#", "G#", "D#", "A#"]
MODES = ["minor", -1, "major", None, "none", 1]
BADMODES = ["dorian", 0, 2, "Major", ""]
ACC = {"": 0, "#": 1, "x": 2, "##": 2, "###": 3, "b": -1, "bb": -2, "bbb": -3}


def cases(rng, tier):
    # 1. spelling -> midi / name
    for st in STEPS:
        for al in range(-3, 4):
            for oc in range(-1, 10):
                yield {"k": "spell", "step": st, "alter": al, "oct": oc}
    for st in "cdefgab":
        yield {"k": "spell", "step": st, "alter": None, "oct": 4}
    for st in ["H", "r", "", "CC"]:
        yield {"k": "spell", "step": st, "alter": 0, "oct": 4}
    # 2. midi -> spelling
    for p in range(-24, 261):
        yield {"k": "midi", "p": p}
    # 3. note names of the grammar, plus malformed
    accs = [""] + ["".join(t) for n in (1, 2, 3) for t in itertools.product("xb#", repeat=n)]
    for st in STEPS:
        for a in accs:
            for oc in (0, 1, 4, 9, 10, 12):
                yield {"k": "name", "name": "%s%s%d" % (st, a, oc)}
    for nm in ["", "C", "4", "H4", "c4", "C-1", "xxC#5yy", "C#", "Cn4", "A 4", "C#4D5", "B##10", "Gb03"]:
        yield {"k": "name", "name": nm}
    # 4. fifths x mode
    for f in range(-24, 25):
        for m in MODES + BADMODES:
            yield {"k": "f2k", "f": f, "mode": m}
    # 5. key names
    for nm in MAJ + [k + "m" for k in MIN] + ["Fb", "E#", "B#", "Fbm", "E#m", "Cbm", "H", "", "m", "Xm", "C##", "Abbm"]:
        yield {"k": "k2f", "name": nm}
    # 6. codes
    for m in MODES + BADMODES:
        yield {"k": "mode", "mode": m}
    for c in ["G", "F", "C", "percussion", "TAB", "jianpu", "none", "g", "X", ""]:
        yield {"k": "clef", "sign": c}
    for c in range(-2, 9):
        yield {"k": "clefint", "code": c}
    # 7. tempo units
    import partitura.utils.globals as G

    units = list(G.LABEL_DURS.keys())
    for u in units + ["x", ""]:
        for d in range(0, 5):
            for t in (1, 50, 100, 117, 60.5):
                yield {"k": "tqt", "unit": u + "." * d, "tempo": t}
    for u in (" q", "q. ", " h.. ", ".q", "q.x"):
        yield {"k": "tqt", "unit": u, "tempo": 90}
    for u in units + [None]:
        for bpm in (30, 60, 100, 117, 200.5):
            yield {"k": "mpq", "unit": u, "bpm": bpm}
    # 8. symbolic -> numeric
    types = list(G.LABEL_DURS.keys())
    for ty in types + ["foo"]:
        for d in range(0, 5):
            for (a, n) in [(None, None), (3, 2), (5, 4), (7, 8), (2, 3), (0, 0), (3, None)]:
                for dv in (1, 4, 6, 480):
                    yield {"k": "s2num", "type": ty, "dots": d, "actual": a, "normal": n, "divs": dv}
    # 9. intervals
    for qual in ["dd", "d", "m", "M", "P", "A", "AA", "X"]:
        for n in range(0, 16):
            for dr in ("up", "down", "sideways"):
                yield {"k": "iv", "q": qual, "n": n, "dir": dr}
    # 9b. histories of ONE Interval object: (read its size,) change its quality by k semitones, read its size: the size
    #     reported afterwards is the defined size of the NEW class (and of a freshly built interval of that class)
    for qual in ["dd", "d", "m", "M", "P", "A", "AA"]:
        for n in range(1, 8):
            for k in range(-6, 7):
                for read_first in (False, True):
                    yield {"k": "ivq", "q": qual, "n": n, "step": k, "read_first": read_first,
                           "dir": "up" if (n + k) % 2 else "down"}
    for (a, n) in [(3, 2), (5, 4), (6, 4), (7, 8), (2, 3), (9, 8)]:
        for at, nt in [("eighth", "eighth"), ("eighth", "quarter"), ("16th", "eighth"), ("quarter", "16th")]:
            yield {"k": "tup", "actual": a, "normal": n, "at": at, "nt": nt}
    # 10. seconds <-> ticks (sampled)
    n = 1500 if tier == "quick" else 60000
    for _ in range(n):
        ppq = rng.choice([1, 24, 96, 120, 480, 960, rng.randint(1, 2000)])
        mpq = rng.choice([500000, 857142, 250001, 1000000, rng.randint(1000, 3000000)])
        mode = rng.random()
        if mode < 0.4:
            t = rng.uniform(0, 600)
        elif mode < 0.7:
            # on (or a hair off) an x.5 tick boundary
            k = rng.randint(0, 100000)
            t = (k + 0.5) * mpq / (1e6 * ppq) + rng.choice([0, 0, 1e-9, -1e-9])
        elif mode < 0.9:
            t = rng.randint(0, 100000) * mpq / (1e6 * ppq)
        else:
            t = float(rng.randint(0, 600))
        if rng.random() < 0.25:
            # exact ties: with mpq = 500000 * 2^a and ppq a power of two the tick image 2*ppq*t/2^a of a dyadic t
            # is computed exactly in binary64, so round-half-even is decided by the rounding rule alone
            a = rng.randint(0, 2)
            mpq = 500000 * 2 ** a
            ppq = 2 ** rng.randint(0, 9)
            k = rng.randint(-50, 5000)
            t = (k + 0.5) * 2 ** a / (2.0 * ppq)
        yield {"k": "s2t", "t": t, "mpq": mpq, "ppq": ppq, "arr": rng.random() < 0.3}
        yield {"k": "t2s", "tick": rng.randint(0, 10**7), "mpq": mpq, "ppq": ppq, "arr": rng.random() < 0.3}
    # 10b. "for scalars and arrays alike": the same values in every container / dtype a caller may hold them in give the
    #      same result, the caller's array is left as it was, the result is a new array, and a second call agrees
    for _ in range(120 if tier == "quick" else 3000):
        ppq = rng.choice([1, 24, 96, 120, 480, 960, rng.randint(1, 2000)])
        mpq = rng.choice([500000, 857142, 250001, 1000000, rng.randint(1000, 3000000)])
        ticks = [rng.randint(0, 10**6) for _ in range(rng.randint(1, 5))]
        yield {"k": "conv_arr", "ticks": ticks, "mpq": mpq, "ppq": ppq,
               "dtype": rng.choice(["float64", "float64", "int64", "int32", "float32", "0d"]),
               "dir": rng.choice(["t2s", "t2s", "s2t"])}
    # 11. frequency <-> pitch (oracle only)
    for a4 in (415.0, 440.0, 442.0):
        for p in range(0, 128):
            yield {"k": "freq", "p": p, "a4": a4}


def call(f, *a, **kw):
    try:
        return f(*a, **kw), None
    except BaseException as e:  # AssertionError, KeyError, ... all "rejected"
        if isinstance(e, (KeyboardInterrupt, SystemExit)):
            raise
        return None, e


def evaluate(d):
    import partitura.utils.music as M
    import partitura.score as S

    k = d["k"]
    ev = Eval()
    key = None
    if k == "spell":
        st, al, oc = d["step"], d["alter"], d["oct"]
        r, e = call(M.pitch_spelling_to_midi_pitch, st, al, oc)
        ev.requests.append("s2m %s %s %d" % (W.s(st), W.opt(W.i, al), oc))
        ev.impl.append("err" if e else W.f_int(r))
        valid = st.upper() in BASE and len(st) == 1
        if valid:
            exp = (oc + 1) * 12 + BASE[st.upper()] + (al or 0)
            if e or r != exp:
                ev.oracle.append("spelling->midi: %r gives %r, twelve-tone arithmetic says %d" % ((st, al, oc), e or r, exp))
            key = "spell"
        if al is not None:
            nm, e2 = call(M.pitch_spelling_to_note_name, st, al, oc)
            ev.requests.append("s2n %s %d %d" % (W.s(st), al, oc))
            ev.impl.append("err" if e2 else nm)
            if valid and not e2 and oc >= 0:
                back, e3 = call(M.note_name_to_pitch_spelling, nm)
                if e3 or tuple(back) != (st.upper(), al, oc):
                    ev.oracle.append("name round trip: %r -> %r -> %r" % ((st, al, oc), nm, e3 or back))
                mp, e4 = call(M.note_name_to_midi_pitch, nm)
                if e4 or mp != (oc + 1) * 12 + BASE[st.upper()] + al:
                    ev.oracle.append("note_name_to_midi_pitch(%r) = %r" % (nm, e4 or mp))
            if valid and -2 <= al <= 2:
                n = S.Note(step=st, octave=oc, alter=al)
                if n.midi_pitch != (oc + 1) * 12 + BASE[st.upper()] + al:
                    ev.oracle.append("Note.midi_pitch %r" % ((st, al, oc),))
    elif k == "midi":
        p = d["p"]
        r, e = call(M.midi_pitch_to_pitch_spelling, p)
        ev.requests.append("m2s %d" % p)
        ev.impl.append("err" if e else W.f_tuple(r[0], W.f_int(r[1]), W.f_int(r[2])))
        if e:
            ev.oracle.append("midi_pitch_to_pitch_spelling(%d) raised %r" % (p, e))
        else:
            back, e2 = call(M.pitch_spelling_to_midi_pitch, *r)
            if e2 or back != p:
                ev.oracle.append("midi->spelling->midi: %d -> %r -> %r" % (p, r, e2 or back))
            if r[1] not in (0, 1):
                ev.oracle.append("midi->spelling alteration %r" % (r,))
        key = "midi"
    elif k == "name":
        nm = d["name"]
        r, e = call(M.note_name_to_pitch_spelling, nm)
        ev.requests.append("n2s %s" % W.s(nm))
        ev.impl.append("err" if e else W.f_tuple(r[0], W.f_opt(W.f_int, r[1]), W.f_int(r[2])))
        r2, e2 = call(M.note_name_to_midi_pitch, nm)
        ev.requests.append("n2m %s" % W.s(nm))
        ev.impl.append("err" if e2 else W.f_int(r2))
        # oracle: names of the documented grammar <step><accidentals><octave>
        import re

        m = re.fullmatch(r"([A-G])([xb#]*)(\d+)", nm)
        if m and m.group(2) in ACC:
            exp = (m.group(1), ACC[m.group(2)], int(m.group(3)))
            if e or tuple(r) != exp:
                ev.oracle.append("note name %r parsed as %r, grammar says %r" % (nm, e or r, exp))
            expm = (exp[2] + 1) * 12 + BASE[exp[0]] + exp[1]
            if e2 or r2 != expm:
                ev.oracle.append("note name %r midi %r, expected %d" % (nm, e2 or r2, expm))
            key = "name"
    elif k == "f2k":
        f, mode = d["f"], d["mode"]
        r, e = call(M.fifths_mode_to_key_name, f, mode)
        ev.requests.append("f2k %d %s" % (f, W.s(mode)))
        ev.impl.append("err" if e else r)
        okmode = mode in MODES
        if okmode and -7 <= f <= 7:
            minor = mode in ("minor", -1)
            exp = (MIN[f + 7] + "m") if minor else MAJ[f + 7]
            if e or r != exp:
                ev.oracle.append("fifths_mode_to_key_name(%r,%r) = %r, expected %r" % (f, mode, e or r, exp))
            else:
                back, e2 = call(M.key_name_to_fifths_mode, r)
                if e2 or tuple(back) != (f, "minor" if minor else "major"):
                    ev.oracle.append("key bijection: (%r,%r) -> %r -> %r" % (f, mode, r, e2 or back))
                ks = S.KeySignature(f, "minor" if minor else "major")
                if ks.name != exp:
                    ev.oracle.append("KeySignature.name %r" % ks.name)
            key = "f2k"
        else:
            if not e:
                ev.oracle.append("fifths_mode_to_key_name(%r,%r) = %r: value outside -7..7 / unknown mode must be rejected" % (f, mode, r))
    elif k == "k2f":
        nm = d["name"]
        r, e = call(M.key_name_to_fifths_mode, nm)
        ev.requests.append("k2f %s" % W.s(nm))
        ev.impl.append("err" if e else W.f_tuple(W.f_int(r[0]), r[1]))
        if nm in MAJ or (nm.endswith("m") and nm[:-1] in MIN):
            exp = (MAJ.index(nm) - 7, "major") if nm in MAJ else (MIN.index(nm[:-1]) - 7, "minor")
            if e or tuple(r) != exp:
                ev.oracle.append("key_name_to_fifths_mode(%r) = %r, expected %r" % (nm, e or r, exp))
            key = "k2f"
    elif k == "mode":
        mode = d["mode"]
        r, e = call(M.key_mode_to_int, mode)
        ev.requests.append("kmi %s" % W.s(mode))
        ev.impl.append("err" if e else W.f_int(r))
        r2, e2 = call(M.key_int_to_mode, mode)
        ev.requests.append("kim %s" % W.s(mode))
        ev.impl.append("err" if e2 else r2)
        if mode in MODES:
            minor = mode in ("minor", -1)
            if e or r != (-1 if minor else 1):
                ev.oracle.append("key_mode_to_int(%r) = %r" % (mode, e or r))
            else:
                b, e3 = call(M.key_int_to_mode, r)
                if e3 or b != ("minor" if minor else "major"):
                    ev.oracle.append("mode code does not decode: %r -> %r -> %r" % (mode, r, e3 or b))
            key = "mode"
        elif not e:
            ev.oracle.append("key_mode_to_int accepted unknown mode %r" % (mode,))
    elif k == "clef":
        c = d["sign"]
        r, e = call(M.clef_sign_to_int, c)
        ev.requests.append("csi %s" % W.s(c))
        ev.impl.append("err" if e else W.f_int(r))
        if not e:
            b, e2 = call(M.clef_int_to_sign, r)
            if e2 or b != c:
                ev.oracle.append("clef code does not decode: %r -> %r -> %r" % (c, r, e2 or b))
            key = "clef"
    elif k == "clefint":
        c = d["code"]
        r, e = call(M.clef_int_to_sign, c)
        ev.requests.append("cis %d" % c)
        ev.impl.append("err" if e else r)
        if not e:
            b, e2 = call(M.clef_sign_to_int, r)
            if e2 or b != c:
                ev.oracle.append("clef sign does not encode back: %r -> %r -> %r" % (c, r, e2 or b))
            key = "clefint"
    elif k == "tqt":
        u, t = d["unit"], d["tempo"]
        r, e = call(M.to_quarter_tempo, u, t)
        ev.requests.append("tqt %s %s" % (W.s(u), W.q(t)))
        ev.impl.append("err" if e else ("@approx", float(r), 1e-12))
        import partitura.utils.globals as G

        base = u.strip().rstrip(".")
        dots = u.count(".")
        DM = [Fraction(1), Fraction(3, 2), Fraction(7, 4), Fraction(15, 8)]
        VAL = {"long": 16, "breve": 8, "whole": 4, "half": 2, "h": 2, "quarter": 1, "q": 1, "eighth": Fraction(1, 2),
               "e": Fraction(1, 2), "16th": Fraction(1, 4), "32nd": Fraction(1, 8), "64th": Fraction(1, 16),
               "128th": Fraction(1, 32), "256th": Fraction(1, 64)}
        if base in VAL and dots <= 3 and "." not in base:
            exp = W.as_fraction(t) * DM[dots] * VAL[base]
            if e or abs(Fraction(*float(r).as_integer_ratio()) - exp) > Fraction(1, 10**9):
                ev.oracle.append("to_quarter_tempo(%r,%r) = %r, defined value %s" % (u, t, e or r, exp))
            key = "tqt"
    elif k == "mpq":
        u, bpm = d["unit"], d["bpm"]
        t = S.Tempo(bpm, u)
        r, e = call(lambda: t.microseconds_per_quarter)
        ev.requests.append("mpq %s %s" % (W.opt(W.s, u), W.q(bpm)))
        ev.impl.append("err" if e else W.f_int(r))
        key = "mpq"
    elif k == "s2num":
        sd = {"type": d["type"], "dots": d["dots"]}
        if d["actual"] is not None:
            sd["actual_notes"] = d["actual"]
        if d["normal"] is not None:
            sd["normal_notes"] = d["normal"]
        r, e = call(M.symbolic_to_numeric_duration, sd, d["divs"])
        ev.requests.append("s2num %s %d %s %s %d" % (W.s(d["type"]), d["dots"], W.opt(W.i, d["actual"]),
                                                    W.opt(W.i, d["normal"]), d["divs"]))
        ev.impl.append("err" if e else ("@approx", float(r), 1e-12))
        if not e:
            key = "s2num"
    elif k == "iv":
        qual, n, dr = d["q"], d["n"], d["dir"]
        iv, e = call(S.Interval, n, qual, dr)
        ev.requests.append("ivv %s %d %s" % (W.s(qual), n, W.s(dr)))
        ev.impl.append("0" if e else "1")
        if not e:
            r, e2 = call(lambda: iv.semitones)
            ev.requests.append("ivs %s %d" % (W.s(qual), n))
            ev.impl.append("err" if e2 else W.f_int(r))
            if 1 <= n <= 7:
                basest = {1: 0, 2: 2, 3: 4, 4: 5, 5: 7, 6: 9, 7: 11}[n]
                if n in (1, 4, 5):
                    off = {"dd": -2, "d": -1, "P": 0, "A": 1, "AA": 2}.get(qual)
                else:
                    off = {"dd": -3, "d": -2, "m": -1, "M": 0, "A": 1, "AA": 2}.get(qual)
                if off is None or e2 or r != basest + off:
                    ev.oracle.append("Interval(%r,%r).semitones = %r, defined size %r" % (n, qual, e2 or r, None if off is None else basest + off))
                key = "iv"
    elif k == "ivq":
        qual, n, st = d["q"], d["n"], d["step"]
        iv, e = call(S.Interval, n, qual, d["dir"])
        if e is None:
            if d["read_first"]:
                call(lambda: iv.semitones)
            r, e1 = call(iv.change_quality, st)
            ev.requests.append("ivq %s %d %d" % (W.s(qual), n, st))
            if e1:
                ev.impl.append("err")
            else:
                sz, e2 = call(lambda: iv.semitones)
                ev.impl.append("err" if e2 else W.f_tuple(str(iv.quality), W.f_int(sz)))
                if r is not iv:
                    ev.oracle.append("Interval(%d,%r).change_quality(%d) did not return the interval itself" % (n, qual, st))
                if (iv.number, iv.direction) != (n, d["dir"]):
                    ev.oracle.append("change_quality changed number/direction: %r %r" % (iv.number, iv.direction))
                basest = {1: 0, 2: 2, 3: 4, 4: 5, 5: 7, 6: 9, 7: 11}[n]
                ladder = {"dd": -2, "d": -1, "P": 0, "A": 1, "AA": 2} if n in (1, 4, 5) else {"dd": -3, "d": -2, "m": -1, "M": 0, "A": 1, "AA": 2}
                old_off, new_off = ladder.get(qual), ladder.get(iv.quality)
                if new_off is None or old_off is None or new_off != old_off + st:
                    ev.oracle.append("Interval(%d,%r).change_quality(%d) gives quality %r: not %d semitone(s) from %r" % (
                        n, qual, st, iv.quality, st, qual))
                elif e2 or sz != basest + new_off:
                    ev.oracle.append("Interval(%d,%r) after change_quality(%d)%s is %s%d and reports %r semitones, defined size %d" % (
                        n, qual, st, " (size read before)" if d["read_first"] else "", iv.quality, n, e2 or sz, basest + new_off))
                fresh, e3 = call(lambda: S.Interval(n, iv.quality, d["dir"]).semitones)
                if not e2 and (e3 or fresh != sz):
                    ev.oracle.append("Interval(%d,%r) after change_quality(%d) reports %r semitones, a fresh Interval(%d,%r) %r" % (
                        n, qual, st, sz, n, iv.quality, e3 or fresh))
            key = "ivq"
    elif k == "conv_arr":
        mpq, ppq = d["mpq"], d["ppq"]
        if d["dir"] == "t2s":
            f, vals = M.midi_ticks_to_seconds, [float(x) for x in d["ticks"]]
        else:
            f, vals = M.seconds_to_midi_ticks, [x * mpq / (1e6 * ppq) for x in d["ticks"]]
        if d["dir"] == "s2t" and d["dtype"] in ("int64", "int32"):
            vals = [float(int(v)) for v in vals]
        if d["dtype"] == "float32":
            vals = [float(np.float32(v)) for v in vals]
        if d["dtype"] == "list":
            arg = list(vals)
        elif d["dtype"] == "0d":
            vals = vals[:1]
            arg = np.array(vals[0], dtype="float64")
        else:
            arg = np.array(vals, dtype=d["dtype"])
        keep = copy.deepcopy(arg)
        r1, e1 = call(f, arg, mpq, ppq)
        same = (arg == keep) if isinstance(arg, list) else bool(np.array_equal(arg, keep) and arg.dtype == keep.dtype)
        what = "%s(%s %s, mpq=%d, ppq=%d)" % (f.__name__, d["dtype"], vals, mpq, ppq)
        if not same:
            ev.oracle.append("frame: %s changed the caller's array to %r" % (what, arg if isinstance(arg, list) else arg.tolist()))
        if e1 is None and isinstance(r1, np.ndarray) and isinstance(arg, np.ndarray) and np.shares_memory(r1, arg):
            ev.oracle.append("alias: the result of %s shares memory with the argument" % what)
        first = None if e1 else np.array(r1, dtype=float).reshape(-1).tolist()
        r2, e2 = call(f, arg, mpq, ppq)
        second = None if e2 else np.array(r2, dtype=float).reshape(-1).tolist()
        if first != second:
            ev.oracle.append("repeat: %s gives %r the first time and %r the second" % (what, e1 or first, e2 or second))
        scal = []
        for v in vals:
            rs, es = call(f, v, mpq, ppq)
            scal.append(None if es else float(rs))
        if d["dtype"] == "float32":
            pass  # a float32 array is converted in float32 arithmetic: equal only up to that precision, not demanded
        elif e1 is None and None not in scal:
            tol = 1e-12 if d["dir"] == "t2s" else 0
            if len(first) != len(scal) or any(abs(a - b) > tol * max(1.0, abs(b)) for a, b in zip(first, scal)):
                ev.oracle.append("alike: %s = %r, the same values one by one give %r" % (what, first, scal))
        elif (e1 is None) != (None not in scal):
            ev.oracle.append("alike: %s %s, scalars %s" % (what, "raises %r" % e1 if e1 else "works", scal))
        key = "conv_arr"
    elif k == "tup":
        class _N:  # minimal stand-in for the start/end notes
            pass

        t = S.Tuplet(None, None, actual_notes=d["actual"], normal_notes=d["normal"], actual_type=d["at"], normal_type=d["nt"])
        r, e = call(lambda: t.duration_multiplier)
        ev.requests.append("tupm %d %d %s %s" % (d["actual"], d["normal"], W.s(d["at"]), W.s(d["nt"])))
        ev.impl.append("err" if e else W.f_rat(Fraction(r)))
        key = "tup"
    elif k == "s2t":
        t, mpq, ppq = d["t"], d["mpq"], d["ppq"]
        exact = Fraction(10**6) * ppq * Fraction(*float(t).as_integer_ratio()) / mpq
        ra, ea = call(M.seconds_to_midi_ticks, np.array([t, t]), mpq, ppq)
        rs, es = call(M.seconds_to_midi_ticks, t, mpq, ppq)
        if not ea:
            if not (isinstance(ra, np.ndarray) and ra.shape == (2,) and ra[0] == ra[1] and np.issubdtype(ra.dtype, np.integer)):
                ev.oracle.append("seconds_to_midi_ticks(array) returned %r" % (ra,))
            ra = int(ra[0])
        if not ea and not es and ra != rs:
            ev.oracle.append("seconds_to_midi_ticks: scalar and array disagree for t=%r mpq=%d ppq=%d: %r vs %r" % (t, mpq, ppq, rs, ra))
        r, e = (ra, ea) if d["arr"] else (rs, es)
        if e:
            ev.oracle.append("seconds_to_midi_ticks(%s%r, mpq=%d, ppq=%d) raised %r" % ("array " if d["arr"] else "", t, mpq, ppq, e))
        else:
            fl = math.floor(exact)
            frac = exact - fl
            # the implementation evaluates 1e6 * ppq * t / mpq in binary64; when that evaluation is exact a tie is a
            # real tie and the rounding rule (half to even) decides: compare with the model strictly
            fval = 1e6 * ppq * t / mpq
            float_exact = Fraction(*float(fval).as_integer_ratio()) == exact
            if abs(frac - Fraction(1, 2)) < Fraction(1, 10**6) and not float_exact:
                # binary64 evaluation may land on either side: only demand a nearest integer
                if r not in (fl, fl + 1):
                    ev.oracle.append("ticks %r not nearest to %s" % (r, float(exact)))
            else:
                ev.requests.append("sec2tick %s %d %d" % (W.q(t), mpq, ppq))
                ev.impl.append(W.f_int(r))
                if abs(r - exact) > Fraction(1, 2):
                    ev.oracle.append("ticks %r is not round(%s)" % (r, float(exact)))
                elif frac == Fraction(1, 2) and r % 2 != 0:
                    ev.oracle.append("ticks: round(%s) must go to the even neighbour (numpy/Python round), got %r" % (float(exact), r))
            key = "s2t"
    elif k == "t2s":
        tick, mpq, ppq = d["tick"], d["mpq"], d["ppq"]
        if d["arr"]:
            r, e = call(M.midi_ticks_to_seconds, np.array([tick, tick]), mpq, ppq)
            r = None if e else float(r[0])
        else:
            r, e = call(M.midi_ticks_to_seconds, tick, mpq, ppq)
        ev.requests.append("tick2sec %d %d %d" % (tick, mpq, ppq))
        ev.impl.append("err" if e else ("@approx", float(r), 1e-12))
        if not e:
            back, e2 = call(M.seconds_to_midi_ticks, r, mpq, ppq)
            if e2 or back != tick:
                ev.oracle.append("ticks->seconds->ticks: %d -> %r -> %r (mpq=%d ppq=%d)" % (tick, r, e2 or back, mpq, ppq))
            key = "t2s"
    elif k == "freq":
        p, a4 = d["p"], d["a4"]
        f, e = call(M.midi_pitch_to_frequency, p, a4)
        if e:
            ev.oracle.append("midi_pitch_to_frequency(%d) raised %r" % (p, e))
        else:
            exp = a4 * 2 ** ((p - 69) / 12)
            if abs(f - exp) > 1e-9 * exp:
                ev.oracle.append("midi_pitch_to_frequency(%d,%r) = %r, equal temperament says %r" % (p, a4, f, exp))
            b, e2 = call(M.frequency_to_midi_pitch, np.array([f]), a4)
            if e2 or int(b[0]) != p:
                ev.oracle.append("frequency->pitch: %d -> %r -> %r" % (p, f, e2 or b))
            b, e2 = call(M.frequency_to_midi_pitch, float(f), a4)
            if e2 or b is None or int(b) != p:
                ev.oracle.append("frequency->pitch (scalar): %d -> %r -> %r" % (p, f, e2 or b))
        key = "freq"
    ev.key = None if key is None else "|".join(ev.requests) or repr(d)
    return ev


def finding_key(d, f):
    return d["k"] + ":" + f.split(":")[0].split("(")[0]


def distribution(descs, results):
    from collections import Counter

    c = Counter(d["k"] for d in descs)
    errs = sum(1 for r in results for x in r["impl"] if x == "err")
    return {"by_kind": dict(c), "error_observations": errs}

LEVEL_TEXT = ("Lean 4 theorems (unbounded over octaves/pitches/ticks; whole regenerated tables by kernel decision) about an "
              "executable model of the conversion functions; the model is tied to the code by regenerating every table "
              "from /repo on each run and by an exhaustive differential run over the finite domains the property names.")
