"""C16 - transposition moves every note by the interval and leaves the input alone.

Reading: "moved by the interval's number of staff steps" = the diatonic index 7*octave + step index
changes by +-(number-1); "semitones" = MIDI pitch changes by +-INTERVAL_TO_SEMITONES[quality+number].
The exhaustive quantifier is restricted by the property to results that need "at most the alteration
the interval implies": the arithmetic itself is total over integers, so every combination is compared.
"""
import copy
import random

import wire as W
from core import Eval
import gen_score as G

PROPERTY = "C16"
DRIVER = "drv_c16"
PROPS = ["PartituraModel.Props.C16", "PartituraModel.Props.C16Roman"]
TRUSTED = [
    "copy.deepcopy of scores (the copy is compared with the model only through its notes; the frame check compares the whole argument)",
    "Python dict lookups in STEPS / MIDI_BASE_CLASS / INTERVAL_TO_SEMITONES (tables regenerated into Lean on every run)",
]
PARTIAL = ["non-mutation of the argument and preservation of all non-pitch attributes are established by deep fingerprints "
           "of generated scores (frame check), not by a theorem: the Lean model is pure"]
RULE = ("exhaustive: steps x alterations {-2..2, None} x octaves 0..8 x 39 interval classes x {up, down} on single notes; "
        "transpose_note on steps x alterations -3..3 x 39 classes; seeded random scores/parts with ties, chords, grace "
        "notes, rests, unpitched notes as Score and as Part argument; distinct = distinct request line")
LEVEL_TEXT = ("Lean 4 theorems for all octaves and alterations (unbounded integers): MIDI pitch moves by the interval's "
              "semitones, the staff position by number-1 steps, up-then-down is the identity, the octave-free variant "
              "agrees; the model is tied to the code by the regenerated tables and by an exhaustive differential run over "
              "the finite domain the property names plus generated scores with a deep frame check of the argument.")

STEPS = "CDEFGAB"
BASE = {"C": 0, "D": 2, "E": 4, "F": 5, "G": 7, "A": 9, "B": 11}
QUALS_P = ["dd", "d", "P", "A", "AA"]
QUALS_I = ["dd", "d", "m", "M", "A", "AA"]


# key names as the DCML / Roman numeral annotations write them: upper case major, lower case minor, accidental after the
# step letter (so "b" is B minor and "bb" B flat minor)
KEY_POOL = ["C", "G", "F", "D", "Bb", "Eb", "a", "e", "d", "g", "f#", "c", "b", "bb", "B", "eb", "F#", "c#", "Ab", "ab", "A", "E"]

# degree -> interval above the tonic, written down from scale theory (NOT read from the source): upper-case degrees are
# the scale degrees of the key they are read in (major scale / natural minor scale), lower-case degrees are the
# degrees on which a minor triad is built in major resp. the raised degrees, the same in both modes
DEG_MAJOR = {"I": ("P", 1), "II": ("M", 2), "III": ("M", 3), "III+": ("M", 3), "IV": ("P", 4), "V": ("P", 5), "VI": ("M", 6), "VII": ("M", 7)}
DEG_MINOR = {"I": ("P", 1), "II": ("M", 2), "III": ("m", 3), "III+": ("m", 3), "IV": ("P", 4), "V": ("P", 5), "VI": ("m", 6), "VII": ("m", 7)}
DEG_BOTH = {"i": ("P", 1), "ii": ("M", 2), "iii": ("m", 3), "iv": ("P", 4), "v": ("P", 5), "vi": ("M", 6), "vii": ("M", 7),
            "viio": ("M", 7), "N": ("m", 2), "iio": ("M", 2), "Ger7": ("A", 4), "Fr7": ("A", 4), "It": ("A", 4)}


def degree_interval(degree, minor_context):
    if degree in DEG_BOTH:
        return DEG_BOTH[degree]
    return (DEG_MINOR if minor_context else DEG_MAJOR)[degree]


def up(step_i, alter, q, n):
    """(step index, alteration) a diatonic interval higher, by scale arithmetic"""
    j = (step_i + n - 1) % 7
    natural = (BASE[STEPS[j]] - BASE[STEPS[step_i]]) % 12
    return j, alter + semis(q, n) - natural


def all_intervals():
    out = []
    for n in range(1, 8):
        for q in (QUALS_P if n in (1, 4, 5) else QUALS_I):
            out.append((q, n))
    return out


def semis(q, n):
    base = {1: 0, 2: 2, 3: 4, 4: 5, 5: 7, 6: 9, 7: 11}[n]
    if n in (1, 4, 5):
        return base + {"dd": -2, "d": -1, "P": 0, "A": 1, "AA": 2}[q]
    return base + {"dd": -3, "d": -2, "m": -1, "M": 0, "A": 1, "AA": 2}[q]


def cases(rng, tier):
    for st in STEPS:
        for al in (-2, -1, 0, 1, 2, None):
            for oc in range(0, 9):
                yield {"k": "note", "step": st, "alter": al, "oct": oc}
    for st in list(STEPS) + ["c", "H"]:
        for al in range(-3, 4):
            yield {"k": "tno", "step": st, "alter": al}
    # chord-root / local-key arithmetic: SEQUENCES of process_local_key calls (the result of a call must not depend
    # on the calls made before it) and RomanNumeral roots computed twice
    m = 60 if tier == "quick" else 1500
    degs = ["i", "ii", "iii", "iv", "v", "vi", "vii"]
    for _ in range(m):
        calls = []
        for _ in range(rng.randint(4, 12)):
            dg = rng.choice(degs)
            dg = dg.upper() if rng.random() < 0.5 else dg
            calls.append([rng.choice(["", "", "b", "#"]) + dg, rng.choice(KEY_POOL)])
        yield {"k": "lockey", "calls": calls}
    # chord roots of applied chords: every local key x secondary degree, all primary degrees of the tables in one case
    for lk in KEY_POOL:
        for sec in ["I", "II", "III", "IV", "V", "VI", "VII", "i", "ii", "iii", "iv", "v", "vi", "vii", "III+"]:
            yield {"k": "roman", "key": lk, "sec": sec}
    n = 40 if tier == "quick" else 1500
    ivs = all_intervals()
    for i in range(n):
        q, num = rng.choice(ivs)
        d = {"k": "part", "seed": rng.randrange(2**31), "q": q, "n": num, "dir": rng.choice(["up", "down"]),
             "as_part": rng.random() < 0.5}
        # history of the ARGUMENT before the call: read-only views (note array, midi pitches, ...) taken first, in the
        # middle of its construction (gen_score.build_part `warm`) or right before transposing
        r = rng.random()
        if r < 0.3:
            d["warm"] = rng.choice([2, 16, 31, 63, 64, 127, 128, 255])
        if rng.random() < 0.5:
            d["read_first"] = True
        # how the Score argument came to be (its flat `.parts` is what the caller sees; `part_structure` may lag behind)
        if not d["as_part"] and rng.random() < 0.4:
            d["score_form"] = rng.choice(["setitem", "assign_parts", "unfolded_max", "unfolded_min", "grouped"])
        # two parts of one score may carry the same id (first parts of two loaded files are both "P1"), and one part
        # object may be listed only once: what is transposed is every part the score holds, identified by nothing else
        if not d["as_part"] and rng.random() < 0.25:
            d["same_ids"] = True
        yield d


def call(f, *a):
    try:
        return f(*a), None
    except BaseException as e:
        if isinstance(e, (KeyboardInterrupt, SystemExit)):
            raise
        return None, e


def fmt_sp(step, alter, octv):
    return W.f_tuple(step, W.f_opt(W.f_int, alter), W.f_int(octv))


def evaluate(d):
    import partitura.score as S
    import partitura.utils.music as M

    ev = Eval()
    k = d["k"]
    if k == "note":
        st, al, oc = d["step"], d["alter"], d["oct"]
        midi0 = (oc + 1) * 12 + BASE[st] + (al or 0)
        dia0 = 7 * oc + STEPS.index(st)
        for q, n in all_intervals():
            for dr in ("up", "down"):
                note = S.Note(step=st, octave=oc, alter=al)
                iv = S.Interval(n, q, dr)
                _, e = call(M._transpose_note_inplace, note, iv)
                ev.requests.append("tn %s %s %d %s %d %s" % (st, W.opt(W.i, al), oc, W.s(q), n, dr))
                if e:
                    ev.impl.append("err")
                    ev.oracle.append("_transpose_note_inplace(%s%s%d, %s%d %s) raised %r" % (st, al, oc, q, n, dr, e))
                    continue
                ev.impl.append(fmt_sp(note.step, note.alter, note.octave))
                sg = 1 if dr == "up" else -1
                midi1 = (note.octave + 1) * 12 + BASE[note.step] + (note.alter or 0)
                dia1 = 7 * note.octave + STEPS.index(note.step)
                if midi1 != midi0 + sg * semis(q, n):
                    ev.oracle.append("semitones: %s%s%d %s%d %s -> %s%s%d moved %d, interval is %d" % (
                        st, al, oc, q, n, dr, note.step, note.alter, note.octave, midi1 - midi0, sg * semis(q, n)))
                if dia1 != dia0 + sg * (n - 1):
                    ev.oracle.append("staff steps: %s%s%d %s%d %s -> %s%s%d moved %d steps, interval is %d" % (
                        st, al, oc, q, n, dr, note.step, note.alter, note.octave, dia1 - dia0, sg * (n - 1)))
                # up then down restores the spelling
                back = S.Interval(n, q, "down" if dr == "up" else "up")
                _, e2 = call(M._transpose_note_inplace, note, back)
                if e2 or (note.step, note.alter or 0, note.octave) != (st, al or 0, oc):
                    ev.oracle.append("up/down: %s%s%d by %s%d %s and back gives %s%s%s" % (
                        st, al, oc, q, n, dr, note.step, note.alter, note.octave))
        ev.key = "note:%s:%s:%d" % (st, al, oc)
    elif k == "tno":
        st, al = d["step"], d["alter"]
        for q, n in all_intervals():
            r, e = call(M.transpose_note, st, al, S.Interval(n, q))
            ev.requests.append("tno %s %d %s %d" % (W.s(st), al, W.s(q), n))
            ev.impl.append("err" if e else W.f_tuple(r[0], W.f_int(r[1])))
            if not e and st.upper() in BASE:
                # agrees with the diatonic arithmetic of the full transposition (octave ignored)
                note = S.Note(step=st, octave=4, alter=al)
                M._transpose_note_inplace(note, S.Interval(n, q))
                if (note.step, note.alter or 0) != (r[0], r[1]):
                    ev.oracle.append("transpose_note(%s,%d,%s%d) = %r but note transposition gives %s%s" % (
                        st, al, q, n, r, note.step, note.alter))
        ev.key = "tno:%s:%d" % (st, al)
    elif k == "lockey":
        import partitura.utils.globals as GL

        LADDER_P = ["dd", "d", "P", "A", "AA"]
        LADDER_I = ["dd", "d", "m", "M", "A", "AA"]
        for loc, glob in d["calls"]:
            r, e = call(S.process_local_key, loc, glob, True)
            sharps, flats = loc.count("#"), loc.count("b")
            deg = loc.replace("#", "").replace("b", "").lower()
            num, qual = GL.LOCAL_KEY_TRASPOSITIONS_DCML["minor" if glob.islower() else "major"][deg]
            ladder = LADDER_P if num in (1, 4, 5) else LADDER_I
            qi = ladder.index(qual) + sharps - flats
            kstep = glob[0].upper()
            kalt = {"": 0, "#": 1, "b": -1}[glob[1:2]]
            if not (0 <= qi < len(ladder)):
                continue
            q2 = ladder[qi]
            ev.requests.append("tno %s %d %s %d" % (kstep, kalt, W.s(q2), num))
            ev.impl.append("err" if e else W.f_tuple(r[0], W.f_int(r[1])))
            # independent diatonic arithmetic
            i0 = STEPS.index(kstep)
            i1 = (i0 + num - 1) % 7
            exp_alt = semis(q2, num) - ((BASE[STEPS[i1]] - BASE[kstep]) % 12) + kalt
            if -3 < exp_alt < 3:
                if e or (r[0], r[1]) != (STEPS[i1], exp_alt):
                    ev.oracle.append("local key: process_local_key(%r, %r) = %r, diatonic arithmetic gives (%s, %d) [call sequence %s]" % (
                        loc, glob, e or r, STEPS[i1], exp_alt, d["calls"]))
                    break
        # a Roman numeral's root must not depend on how often it was computed
        for txt in ("G:V65/bIII", "C:V7/bVII", "a:viio/#vi"):
            a, e1 = call(lambda: S.RomanNumeral(txt).root)
            b, e2 = call(lambda: S.RomanNumeral(txt).root)
            if (e1 is None) != (e2 is None) or (e1 is None and a != b):
                ev.oracle.append("roman numeral: root of %r is %r the first time and %r the second" % (txt, e1 or a, e2 or b))
        ev.key = "lockey:" + "|".join(l + "/" + g for l, g in d["calls"])
    elif k == "roman":
        lk, sec = d["key"], d["sec"]
        ti = STEPS.index(lk[0].upper())
        ta = {"": 0, "#": 1, "b": -1}[lk[1:2]]
        minor_key = lk[0].islower()
        q1, n1 = degree_interval(sec, minor_key)
        ai, aa = up(ti, ta, q1, n1)
        for prim in list(DEG_MAJOR) + list(DEG_BOTH):
            q2, n2 = degree_interval(prim, sec[0].islower())
            ri, ra = up(ai, aa, q2, n2)
            rn, e = call(lambda: S.RomanNumeral("x", inversion=1, local_key=lk, primary_degree=prim, secondary_degree=sec, quality="maj"))
            ev.requests.append("rroot %s %s %s" % (W.s(lk), W.s(prim), W.s(sec)))
            if e or not hasattr(rn, "root"):
                ev.impl.append("err")
                if -3 < aa < 3 and -3 < ra < 3:
                    ev.oracle.append("roman root: RomanNumeral(local_key=%r, %s/%s) %s, scale arithmetic gives %s%+d" % (
                        lk, prim, sec, "raised %r" % (e,) if e else "has no root", STEPS[ri], ra))
                continue
            root = rn.root
            rs = root[0].upper()
            ral = root[1:].count("#") - root[1:].count("b") - root[1:].count("-")
            ev.impl.append(W.f_tuple(rs, W.f_int(ral)))
            if (rs, ral) != (STEPS[ri], ra):
                ev.oracle.append("roman root: %s/%s in %s has root %r, scale arithmetic gives %s%+d (applied tonic %s%+d)" % (
                    prim, sec, lk, root, STEPS[ri], ra, STEPS[ai], aa))
        ev.key = "roman:%s:%s" % (lk, sec)
    elif k == "part":
        rng = random.Random(d["seed"])
        sd = G.random_score_desc(rng, nparts=1 if d["as_part"] else rng.randint(1, 3), p_unp=0.05, p_tie=0.3)
        if d.get("warm"):
            for pd in sd["parts"]:
                pd["warm"] = d["warm"]
        if d.get("same_ids"):
            if len(sd["parts"]) < 2:
                sd["parts"].append(G.random_part_desc(rng, pid="P1", p_tie=0.3))
            for pd in sd["parts"]:
                pd["id"] = "P1"
        score = G.build_score(sd)
        form = d.get("score_form")
        if form == "setitem":
            # every part replaced through Score.__setitem__ by an equal, separately built part
            for i, pd in enumerate(sd["parts"]):
                score[i] = G.build_part(dict(pd, warm=0))
        elif form == "assign_parts":
            score.parts = [G.build_part(dict(pd, warm=0)) for pd in sd["parts"]]
        elif form in ("unfolded_max", "unfolded_min"):
            # put a repeat over the first bar of every part, then take the unfolded score (its `.parts` are new parts)
            for p in score.parts:
                ms = list(p.iter_all(S.Measure))
                if ms:
                    p.add(S.Repeat(), ms[0].start.t, ms[0].end.t)
            uf, e0 = call(S.unfold_part_maximal if form == "unfolded_max" else S.unfold_part_minimal, score)
            if e0 is None and isinstance(uf, S.Score):
                score = uf
        elif form == "grouped":
            g = S.PartGroup(group_symbol="brace", group_name="g")
            g.children = list(score.parts)
            for p in score.parts:
                p.parent = g
            score = S.Score(g, id="g")
        arg = score.parts[0] if d["as_part"] else score
        if d.get("read_first"):
            for p in ([arg] if d["as_part"] else list(arg.parts)):
                call(lambda: p.note_array(include_pitch_spelling=True))
                call(lambda: [n.midi_pitch for n in p.notes])
        before = G.fingerprint_score(arg, with_ids=True)
        iv = S.Interval(d["n"], d["q"], d["dir"])
        res, e = call(M.transpose, arg, iv)
        after = G.fingerprint_score(arg, with_ids=True)
        if before != after:
            ev.oracle.append("transpose modified its argument (%s argument)" % ("Part" if d["as_part"] else "Score"))
        if e:
            ev.oracle.append("transpose raised %r" % (e,))
            return ev
        if res is arg:
            ev.oracle.append("transpose returned its argument instead of a new object")
        parts_in = [arg] if d["as_part"] else list(arg.parts)
        parts_out = [res] if d["as_part"] else list(res.parts)
        if len(parts_in) != len(parts_out):
            ev.oracle.append("number of parts changed")
            return ev
        sg = 1 if d["dir"] == "up" else -1
        for pi, po in zip(parts_in, parts_out):
            ni = list(pi.notes)
            no = list(po.notes)
            ev.requests.append("tp %s %d %s %s" % (W.s(d["q"]), d["n"], d["dir"], W.lst(
                lambda n: "%s %s %d" % (n.step, W.opt(W.i, n.alter), n.octave), ni)))
            ev.impl.append(W.f_list(lambda n: fmt_sp(n.step, n.alter, n.octave), no))
            if len(ni) != len(no):
                ev.oracle.append("number of notes changed")
                continue
            for a, b in zip(ni, no):
                if (a.id, a.start.t, a.end.t, a.voice, a.staff, type(a)) != (b.id, b.start.t, b.end.t, b.voice, b.staff, type(b)):
                    ev.oracle.append("note %s: onset/duration/voice/staff/id changed" % a.id)
                # the pitch every public reader reports for the moved note is that of its NEW spelling
                sp_a = (a.octave + 1) * 12 + BASE[a.step] + (a.alter or 0)
                sp_b = (b.octave + 1) * 12 + BASE[b.step] + (b.alter or 0)
                if a.midi_pitch != sp_a:
                    ev.oracle.append("argument note %s is spelled %s%s%d but reports midi_pitch %s after the call" % (
                        a.id, a.step, a.alter, a.octave, a.midi_pitch))
                if b.midi_pitch != sp_b:
                    ev.oracle.append("result note %s is spelled %s%s%d (= %d) but reports midi_pitch %s" % (
                        b.id, b.step, b.alter, b.octave, sp_b, b.midi_pitch))
                if b.midi_pitch != a.midi_pitch + sg * semis(d["q"], d["n"]):
                    ev.oracle.append("note %s (%s%s%d, tie_prev=%s, %s) moved by %d semitones, interval %s%d %s is %d" % (
                        a.id, a.step, a.alter, a.octave, a.tie_prev is not None, type(a).__name__,
                        b.midi_pitch - a.midi_pitch, d["q"], d["n"], d["dir"], sg * semis(d["q"], d["n"])))
                if 7 * b.octave + STEPS.index(b.step) != 7 * a.octave + STEPS.index(a.step) + sg * (d["n"] - 1):
                    ev.oracle.append("note %s moved by the wrong number of staff steps" % a.id)
                if (a.tie_next is None) != (b.tie_next is None) or (a.tie_next is not None and a.tie_next.id != b.tie_next.id):
                    ev.oracle.append("note %s: tie link changed" % a.id)
            # the note array of the result (what exports, piano rolls, ... are made from) shows the moved pitches
            na_i, e1 = call(lambda: pi.note_array())
            na_o, e2 = call(lambda: po.note_array())
            if e1 is None and e2 is None and len(na_i) == len(na_o):
                exp = sorted((str(i_), int(p_) + sg * semis(d["q"], d["n"])) for i_, p_ in zip(na_i["id"], na_i["pitch"]))
                got = sorted((str(i_), int(p_)) for i_, p_ in zip(na_o["id"], na_o["pitch"]))
                if exp != got:
                    bad = [(x, y) for x, y in zip(exp, got) if x != y][:2]
                    ev.oracle.append("note array of the result: (id, pitch) %s, the argument's moved by %d semitones gives %s" % (
                        [y for _, y in bad], sg * semis(d["q"], d["n"]), [x for x, _ in bad]))
            elif (e1 is None) != (e2 is None):
                ev.oracle.append("note array of the result raises %r, of the argument %r" % (e2, e1))
            # everything that is not a pitched note is unchanged: compare fingerprints with pitch fields masked
            fi, fo = mask_pitch(G.fingerprint_part(pi)), mask_pitch(G.fingerprint_part(po))
            if fi != fo:
                ev.oracle.append("transpose changed something other than pitch in part %s" % pi.id)
        # up and then down (down and then up) by the same interval restores the original spelling
        back, e3 = call(M.transpose, res, S.Interval(d["n"], d["q"], "down" if d["dir"] == "up" else "up"))
        if e3:
            ev.oracle.append("transposing the result back raised %r" % (e3,))
        else:
            parts_back = [back] if d["as_part"] else list(back.parts)
            for pi, pb in zip(parts_in, parts_back):
                sa = [(n.id, n.step, n.alter or 0, n.octave, n.midi_pitch) for n in pi.notes]
                sb = [(n.id, n.step, n.alter or 0, n.octave, n.midi_pitch) for n in pb.notes]
                if sa != sb:
                    bad = [(x, y) for x, y in zip(sa, sb) if x != y][:2]
                    ev.oracle.append("up and down: (id, step, alter, octave, midi) %s came back as %s" % (
                        [x for x, _ in bad], [y for _, y in bad]))
        ev.key = "part:%d:%s:%s:%s:%s" % (d["seed"], d.get("warm"), d.get("read_first"), d.get("score_form"), d.get("same_ids"))
    return ev


def mask_pitch(fp):
    fp = copy.deepcopy(fp)
    for o in fp["objects"]:
        if o[0] in ("Note", "GraceNote"):
            o[3] = [kv for kv in o[3] if kv[0] not in ("step", "alter", "octave")]
    return fp


def finding_key(d, f):
    return d["k"] + ":" + f.split(":")[0].split(" ")[0]


def shrink(d):
    return []


def distribution(descs, results):
    from collections import Counter

    return {"by_kind": dict(Counter(d["k"] for d in descs)),
            "part_args": sum(1 for d in descs if d["k"] == "part" and d["as_part"]),
            "score_args": sum(1 for d in descs if d["k"] == "part" and not d["as_part"])}
