"""C16 - transposition moves every note by the interval and leaves the input alone.

Reading: "moved by the interval's number of staff steps" = the diatonic index 7*octave + step index
changes by +-(number-1); "semitones" = MIDI pitch changes by +-INTERVAL_TO_SEMITONES[quality+number].
The exhaustive quantifier is restricted by the property to results that need "at most the alteration
the interval implies": the arithmetic itself is total over integers, so every combination is compared.
"""
import copy
import random

import wire as W
from core import Eval
import gen_score as G

PROPERTY = "C16"
DRIVER = "drv_c16"
PROPS = ["PartituraModel.Props.C16", "PartituraModel.Props.C16Roman", "PartituraModel.Props.C16Heap", "PartituraModel.Props.C16Call"]
TRUSTED = [
    "copy.deepcopy is modelled by its specification (Model/TransposeHeap.lean `deepcopy`: a fresh cell per object, references "
    "translated to the copies; an object listed twice stays one object); the heap stream compares the whole object graph of argument and result with the model on every generated score",
    "Python dict lookups in STEPS / MIDI_BASE_CLASS / INTERVAL_TO_SEMITONES / ALT_TO_INT / INT_TO_ALT / Roman2Interval_* / "
    "LOCAL_KEY_TRASPOSITIONS_DCML (tables regenerated into Lean on every run); `{id(part): part ...}.values()` keeps the first listing of every object in order (`uniqueParts`)",
    "re.search / re.match / re.sub with the three character classes [a-gA-G], [#b-]*, [^a-zA-Z] and str.count / replace / islower / lower / upper "
    "on ASCII strings (small Lean functions in Model/RomanRoot.lean, Model/LocalKey.lean)",
    "str(int) is `showInt` (decimal digits, leading '-'), Python `%` with modulus 7 / 12 the non-negative remainder, str.capitalize on a one-letter step = upper",
    "Interval.change_quality: the model of C12 (Model/Pitch.lean) is reused; Interval.__init__ / validate / semitones are modelled here (Model/TransposeCall.lean) and compared on numbers -9..17 x 11 quality strings x 5 direction strings",
]
PARTIAL = [
    "the opaque part of an object (everything but pitch fields and references: onset, duration, voice, staff, id ...) is a payload "
    "in the heap model: `everything_else_unchanged` proves it is carried over unchanged, its CONTENT is compared by the heap stream (CRC of the attributes) and the fingerprints",
    "an argument that is neither Score nor Part: `other_argument_copied` proves it comes back as an untransposed deep copy and the heap stream exercises it with Note / Rest "
    "arguments; lists of parts and PartGroups (also `ScoreLike`) take the same branch but are not generated (the property speaks of scores and parts)",
    "a NOTE held by two different parts of one score (possible only by bypassing Part.add) is moved once per part: proved exactly (`transposed_as_often_as_listed`), "
    "and excluded from the 'moved by the interval' theorems by `ValidArg.once`; a PART listed twice is moved once (fix F-C16-6, `parts_reached_once`)",
    "when a note raises inside _transpose_note_inplace it may already carry its new step / octave: that is a cell of the COPY, unreachable after the raise; the run "
    "model (`transposeRun`) leaves that cell as it was (the argument's cells are proved and compared untouched: `call_never_touches_the_argument`)",
    "text parsing of RomanNumeral (`_process_*`: degrees, inversion, quality from the annotation text) is outside the property (the streams pass the fields explicitly); "
    "an inversion of 0 computes no root at all (mirrored, not judged)",
    "bass notes of diminished / augmented / augmented-sixth chords: find_bass_note has a TODO, the oracle does not judge them (the model mirrors what the code does)",
]
RULE = ("exhaustive: steps x alterations {-2..2, None} x octaves 0..8 x 39 interval classes x {up, down} on single notes; "
        "transpose_note on steps x alterations -3..3 x 39 classes; Interval(number, quality, direction) for numbers -9..17 x 11 quality "
        "strings x 5 direction strings, each constructed, sized, applied to 3 notes and handed to transpose_note (also with the default direction); "
        "seeded random scores/parts with ties, chords, grace "
        "notes, rests, unpitched notes as Score and as Part argument, every tie shape of TIE_MODES (enharmonic chains, removed heads / "
        "middles / tails, chains across parts and out of the argument, one-way links) with both argument kinds whatever the seed; scores that "
        "list one part twice; whole calls with 15 odd intervals (compound, zero, negative, wrong quality, wrong direction; parts with and without "
        "pitched notes); Note / Rest arguments; "
        "32 key names (written with b, # and -) x 20 secondary x 40 primary degrees x inversions 0..3; sequences and chains of "
        "process_local_key calls; distinct = distinct request line")
LEVEL_TEXT = ("Lean 4 theorems for all octaves and alterations (unbounded integers), without side conditions at the level of the "
              "call the user writes: `Interval(number, quality, direction)` is accepted exactly for a valid class of the reduced number and "
              "direction up/down (constructor_accepts_iff), has a size exactly for numbers 1..7 whatever the quality string and integer "
              "(size_only_for_simple_numbers), and `_transpose_note_inplace` on the Interval object is the modelled arithmetic for EVERY integer "
              "number (note_obj_refines); for an accepted interval with 1 <= number <= 7 a note does not raise, its MIDI pitch "
              "moves by the interval's semitones, its staff position by number-1 steps, the octave is the quotient of the staff position by 7, "
              "up-then-down restores it (note_call_moved, note_moved, octave_follows_step, note_up_down); every other number makes the call raise "
              "as soon as there is a note to move (call_sizeless); over a heap model of transpose (deepcopy, Score/Part/other dispatch, every part "
              "object once, both loops, in-place update) for ALL "
              "object graphs: the argument's cells are untouched whether the call returns or raises at any note - no hypothesis at all "
              "(call_never_touches_the_argument over the run-to-first-raise model the driver answers with) - and a new object is returned (argument_untouched), every other "
              "field and every reference - ties included - of every object is carried to the copy (everything_else_unchanged), the copy of EVERY "
              "object is the transposition applied as often as the loops list it - no hypothesis (transposed_as_often_as_listed), hence every pitched "
              "note of a valid argument is transposed from its own spelling whatever it is tied to "
              "(every_note_transposed, every_note_moved, call_moves_every_note), the call is total however often a note is listed (call_total) and "
              "there-and-back restores the spelling of whole scores (call_there_and_back); the chord-root arithmetic (process_local_key, "
              "find_root_note with both fallbacks, find_bass_note) is modelled completely and proved to be scale arithmetic over "
              "whole finite domains, including that partitura reads back the names it writes.  The model is tied to the code by "
              "regenerated tables and branch constants (recovered by running the live functions) and by differential streams over the finite domain "
              "the property names plus generated scores whose whole object graph (argument after the call and result) is compared with the model.")

STEPS = "CDEFGAB"
BASE = {"C": 0, "D": 2, "E": 4, "F": 5, "G": 7, "A": 9, "B": 11}
QUALS_P = ["dd", "d", "P", "A", "AA"]
QUALS_I = ["dd", "d", "m", "M", "A", "AA"]


# key names as the DCML / Roman numeral annotations write them: upper case major, lower case minor, accidental after the
# step letter (so "b" is B minor and "bb" B flat minor)
KEY_POOL = ["C", "G", "F", "D", "Bb", "Eb", "a", "e", "d", "g", "f#", "c", "b", "bb", "B", "eb", "F#", "c#", "Ab", "ab", "A", "E"]

# degree -> interval above the tonic, written down from scale theory (NOT read from the source): upper-case degrees are
# the scale degrees of the key they are read in (major scale / natural minor scale), lower-case degrees are the
# degrees on which a minor triad is built in major resp. the raised degrees, the same in both modes
DEG_MAJOR = {"I": ("P", 1), "II": ("M", 2), "III": ("M", 3), "III+": ("M", 3), "IV": ("P", 4), "V": ("P", 5), "VI": ("M", 6), "VII": ("M", 7)}
DEG_MINOR = {"I": ("P", 1), "II": ("M", 2), "III": ("m", 3), "III+": ("m", 3), "IV": ("P", 4), "V": ("P", 5), "VI": ("m", 6), "VII": ("m", 7)}
DEG_BOTH = {"i": ("P", 1), "ii": ("M", 2), "iii": ("m", 3), "iv": ("P", 4), "v": ("P", 5), "vi": ("M", 6), "vii": ("M", 7),
            "viio": ("M", 7), "N": ("m", 2), "iio": ("M", 2), "Ger7": ("A", 4), "Fr7": ("A", 4), "It": ("A", 4)}


def degree_interval(degree, minor_context):
    if degree in DEG_BOTH:
        return DEG_BOTH[degree]
    return (DEG_MINOR if minor_context else DEG_MAJOR)[degree]


# keys as process_local_key and find_root_note THEMSELVES write them (INT_TO_ALT: a flat is "-"): what the DCML importer
# hands to RomanNumeral as local key and to process_local_key as global key of a chained local key
KEY_POOL_DASH = ["B-", "E-", "e-", "A-", "b-", "a-", "D-", "g#", "C#", "G-"]
# degrees written with an accidental (not in the Roman2Interval tables: the process_local_key fallback of find_root_note)
ALTERED_DEGREES = ["bII", "bVII", "bVI", "bIII", "#iv", "#vi", "#vii", "bii", "#IV", "bbVII", "##iv"]
ROMAN_NUM = {"i": 1, "ii": 2, "iii": 3, "iv": 4, "v": 5, "vi": 6, "vii": 7}
# scale degrees above the tonic, from scale theory: major scale, natural minor scale
SCALE = {False: ["P", "M", "M", "P", "P", "M", "M"], True: ["P", "M", "m", "P", "P", "m", "m"]}


def key_tonic(name):
    """(step index, alteration) of a key / note name: step letter, then accidentals (# sharp, b or - flat)"""
    if not name or name[0].upper() not in BASE:
        return None
    return STEPS.index(name[0].upper()), acc_of(name)


def acc_of(name):
    return name[1:].count("#") - name[1:].count("b") - name[1:].count("-")


def spell_acc(a):
    return "#" * a if a > 0 else "b" * (-a)


def degree_core(deg):
    return deg.replace("#", "").replace("b", "")


def altered_degree(deg, minor_context):
    """(number, semitones above the tonic) of a degree written the DCML way: the scale degree of the context's mode
    (major scale / natural minor scale), every # in front of it a semitone higher, every b a semitone lower"""
    n = ROMAN_NUM[degree_core(deg).lower()]
    return n, semis(SCALE[minor_context][n - 1], n) + deg.count("#") - deg.count("b")


def degree_in_ladder(deg, minor_context):
    """the altered degree is still one of the interval classes dd d (m M | P) A AA of its number"""
    core = degree_core(deg).lower()
    if core not in ROMAN_NUM:
        return False
    n = ROMAN_NUM[core]
    ladder = QUALS_P if n in (1, 4, 5) else QUALS_I
    return 0 <= ladder.index(SCALE[minor_context][n - 1]) + deg.count("#") - deg.count("b") < len(ladder)


def up_semis(step_i, alter, n, st):
    """(step index, alteration) n-1 staff steps and `st` semitones higher"""
    j = (step_i + n - 1) % 7
    return j, alter + st - (BASE[STEPS[j]] - BASE[STEPS[step_i]]) % 12


TRIADS = ["I", "II", "III", "IV", "V", "VI", "VII", "i", "ii", "iii", "iv", "v", "vi", "vii"]


def bass_interval(prim, inv):
    """the interval between the root and the bass of an inversion, where music theory and the rule find_bass_note
    documents agree (the method has a TODO for diminished / augmented chords; those are not judged): the third of a
    chord written in lower case is minor, in upper case major (augmented sixth chords excluded); the fifth of a plain
    major / minor triad is perfect; the seventh of the dominant and of the minor triads is minor"""
    core = degree_core(prim)
    if inv == 1 and core in TRIADS + ["viio", "iio", "III+", "N"]:
        return ("m", 3) if core[0].islower() else ("M", 3)
    if inv == 2 and core in TRIADS + ["N"]:
        return ("P", 5)
    if inv == 3 and (core == "V" or core in TRIADS[7:]):
        return ("m", 7)
    return None


def up(step_i, alter, q, n):
    """(step index, alteration) a diatonic interval higher, by scale arithmetic"""
    j = (step_i + n - 1) % 7
    natural = (BASE[STEPS[j]] - BASE[STEPS[step_i]]) % 12
    return j, alter + semis(q, n) - natural


def all_intervals():
    out = []
    for n in range(1, 8):
        for q in (QUALS_P if n in (1, 4, 5) else QUALS_I):
            out.append((q, n))
    return out


def semis(q, n):
    base = {1: 0, 2: 2, 3: 4, 4: 5, 5: 7, 6: 9, 7: 11}[n]
    if n in (1, 4, 5):
        return base + {"dd": -2, "d": -1, "P": 0, "A": 1, "AA": 2}[q]
    return base + {"dd": -3, "d": -2, "m": -1, "M": 0, "A": 1, "AA": 2}[q]


# ---------------------------------------------------------------------------------------------------- tie chains
# How the ties of the argument look.  "every pitched note - including the later notes of tie chains - has moved by the
# interval" is judged per note OBJECT, from ITS OWN spelling, whatever it is tied to:
#   enh          later notes of a chain are spelled differently from the note before (G#4 tied to Ab4: valid MusicXML,
#                usual across key changes)
#   mis          a tie between two different pitches (a slur read as a tie)
#   rm_head      the first note of a chain was removed with Part.remove(): the second keeps a dangling tie_prev
#   rm_mid       a middle note was removed: dangling tie_next before it, dangling tie_prev after it
#   rm_tail      the last note was removed: dangling tie_next
#   cross        a chain runs from one part into the next part of the score / into a part that is not in the argument
#   one_way_next only `tie_next` is set (the target does not know it is tied)
#   one_way_prev only `tie_prev` is set
#   mixed        enharmonic chains, then a head and a tail removed, then one one-way link
TIE_MODES = ["enh", "mis", "rm_head", "rm_mid", "rm_tail", "cross", "one_way_next", "one_way_prev", "mixed"]


ODD_INTERVALS = [(9, "M", "up"), (8, "P", "down"), (0, "M", "up"), (-2, "M", "up"), (2, "P", "up"), (3, "M", "sideways"),
                 (15, "P", "up"), (14, "m", "down"), (-6, "P", "down"), (5, "P", "Up"), (7, "M", ""), (1, "M", "up"),
                 (10, "x", "up"), (1, "P", "down"), (8, "A", "up")]
IVL_QUALS = ["dd", "d", "m", "M", "P", "A", "AA", "x", "", "p", "MM"]
IVL_DIRS = ["up", "down", "Up", "", "sideways"]
IVL_NOTES = [("C", None, 4), ("B", 1, 3), ("F", -2, 5), ("E", 0, 0), ("G", 2, 8), ("A", -1, 2), ("D", 1, 6)]


def theory_semis(q, n):
    """size of the interval (quality q, number n >= 1, compound numbers included) from music theory"""
    simple = (n - 1) % 7 + 1
    return semis(q, simple) + 12 * ((n - 1) // 7)


def midi_of(step, alter, octv):
    return (octv + 1) * 12 + BASE[step] + (alter or 0)


def enharmonic(step, alter, octv, rng):
    """another spelling of the same sounding pitch, one staff step away, alteration within +-2"""
    m = midi_of(step, alter, octv)
    opts = []
    for ds in (1, -1):
        o2, j = divmod(7 * octv + STEPS.index(step) + ds, 7)
        a2 = m - midi_of(STEPS[j], 0, o2)
        if -2 <= a2 <= 2:
            opts.append((STEPS[j], a2, o2))
    return rng.choice(opts) if opts else (step, alter, octv)


def expected_spelling(step, alter, octv, q, n, sg):
    """(step, alteration, octave) of a note moved by the interval, from plain diatonic arithmetic: the staff position
    7*octave + step index moves by +-(number-1), the sounding pitch by +-semitones, the alteration is what is left"""
    o2, j = divmod(7 * octv + STEPS.index(step) + sg * (n - 1), 7)
    m = midi_of(step, alter, octv) + sg * semis(q, n)
    return STEPS[j], m - midi_of(STEPS[j], 0, o2), o2


def force_ties(pd, rng, want):
    """make sure the part description holds at least `want` tie links (where its notes allow it)"""
    notes = [n for n in pd["notes"] if n["kind"] == "note"]
    byid = {n["id"]: n for n in notes}
    targets = {n["tie"] for n in notes if n.get("tie")}
    at = {}
    for n in notes:
        at.setdefault((n["voice"], n["t"]), []).append(n)
    cand = list(notes)
    rng.shuffle(cand)
    for a in cand:
        if len(targets) >= want:
            break
        if a.get("tie"):
            continue
        nxt = [b for b in at.get((a["voice"], a["t"] + a["dur"]), []) if b["id"] not in targets]
        if not nxt:
            continue
        b = nxt[0]
        a["tie"] = b["id"]
        targets.add(b["id"])
        seen = set()
        while b is not None and b["id"] not in seen:   # the rest of the chain keeps the spelling
            seen.add(b["id"])
            b["step"], b["alter"], b["oct"] = a["step"], a["alter"], a["oct"]
            b = byid.get(b.get("tie"))


def respell_ties(pd, rng, mode):
    """later chain members get another spelling of the same pitch ("enh") or another pitch ("mis")"""
    byid = {n["id"]: n for n in pd["notes"]}
    k = 0
    for a in pd["notes"]:
        b = byid.get(a.get("tie"))
        if b is None or (k > 0 and rng.random() < 0.3):
            continue
        k += 1
        if mode == "mis":
            b["step"], b["alter"], b["oct"] = rng.choice(STEPS), rng.choice([-1, 0, 0, 1]), rng.randint(2, 6)
        else:
            b["step"], b["alter"], b["oct"] = enharmonic(b["step"], b["alter"], b["oct"], rng)
    return k


def tie_ops(parts, mode, rng, info):
    """edits of the built parts' tie chains (public API: Part.remove, attribute assignment); returns foreign parts
    that must stay alive"""
    import partitura.score as S

    def pick(l):
        return [] if not l else rng.sample(l, max(1, len(l) // 2))

    alln = [(p, n) for p in parts for n in p.notes]
    keep = []
    if mode in ("rm_head", "mixed"):
        for p, n in pick([(p, n) for p, n in alln if n.tie_prev is None and n.tie_next is not None]):
            p.remove(n)
            info["removed_heads"] = info.get("removed_heads", 0) + 1
    if mode == "rm_mid":
        mids = [(p, n) for p, n in alln if n.tie_prev is not None and n.tie_next is not None]
        for p, n in pick(mids or [(p, n) for p, n in alln if n.tie_prev is None and n.tie_next is not None]):
            p.remove(n)
            info["removed_mids"] = info.get("removed_mids", 0) + 1
    if mode in ("rm_tail", "mixed"):
        for p, n in pick([(p, n) for p, n in alln if n.tie_prev is not None and n.tie_next is None and n.start is not None]):
            p.remove(n)
            info["removed_tails"] = info.get("removed_tails", 0) + 1
    if mode in ("one_way_next", "one_way_prev", "mixed"):
        links = [(p, n) for p, n in alln if n.tie_next is not None and n.start is not None and n.tie_next.start is not None]
        for p, n in (pick(links)[:1] if mode == "mixed" else pick(links)):
            if mode == "one_way_prev":
                n.tie_next = None
            else:
                n.tie_next.tie_prev = None
            info["one_way"] = info.get("one_way", 0) + 1
    if mode == "cross":
        plain = lambda p: [n for n in p.notes if type(n) is S.Note]
        seq = list(parts)
        if len(seq) == 1:
            # chains that leave / enter the argument: a foreign part on either side
            for side in (0, 1):
                fp = G.build_part(G.random_part_desc(rng, pid="PX%d" % side, n_measures=1, voices=1))
                keep.append(fp)
                seq = ([fp] + seq) if side else (seq + [fp])
        for pa, pb in zip(seq, seq[1:]):
            src = [n for n in plain(pa) if n.tie_next is None]
            dst = [n for n in plain(pb) if n.tie_prev is None]
            if src and dst:
                a, b = src[-1], dst[0]
                a.tie_next, b.tie_prev = b, a
                info["cross_links"] = info.get("cross_links", 0) + 1
    return keep


# ---------------------------------------------------------------------------------------------------- heap stream
# The argument of `transpose` as the heap of the Lean model (Model/TransposeHeap.lean): cell 0 is the Score / Part, then
# the parts of a score, then the objects of each part in timeline order, then whatever else the objects refer to
# (removed chain members, notes of foreign parts, ...) in order of discovery.  A cell carries the references of the
# object (every attribute holding a TimedObject, every TimedObject inside a list attribute, in attribute-name order)
# and a payload (start, end, CRC of the class name and of every other attribute) - for a Note also the pitch fields.
def heap_of(root, known, base):
    """(objects, cell token lists) of the graph below `root`; addresses start at `base`; objects listed in `known`
    (python id -> address) keep that address (a result that shares objects with the argument shows them so)"""
    import json
    import zlib
    import partitura.score as S

    objs, index = [], {}

    def add(o):
        index[id(o)] = base + len(objs)
        objs.append(o)

    def addr(o):
        if id(o) in known:
            return known[id(o)]
        if id(o) not in index:
            add(o)
        return index[id(o)]

    add(root)
    # the code's dispatch: the parts of a Score, a Part itself, nothing of any other argument
    parts = list(root.parts) if isinstance(root, S.Score) else ([root] if isinstance(root, S.Part) else [])
    for p in parts:
        addr(p)
    content = {}
    for p in parts:
        if id(p) not in content:
            content[id(p)] = [addr(o) for o in G.part_objects(p)]
    cells = [None] * len(objs)
    k = 0
    while k < len(objs):
        o = objs[k]
        if isinstance(o, S.Score):
            cell = ["S", [addr(p) for p in parts]]
        elif isinstance(o, S.Part):
            cell = ["P", content.get(id(o), [])]   # (a foreign part is never reached: `start` / `end` are not followed)
        else:
            refs, rest = [], []
            pitch = ("step", "alter", "octave") if isinstance(o, S.Note) else ()
            for key in sorted(vars(o)):
                v = vars(o)[key]
                if key in pitch or not G._obj_attr_counts(key):
                    continue
                if isinstance(v, S.TimedObject):
                    refs.append(addr(v))
                    rest.append([key, "ref"])
                elif isinstance(v, (list, tuple)) and any(isinstance(x, S.TimedObject) for x in v):
                    refs.extend(addr(x) for x in v if isinstance(x, S.TimedObject))
                    rest.append([key, ["ref" if isinstance(x, S.TimedObject) else G._canon(x, {}) for x in v]])
                else:
                    rest.append([key, G._canon(v, {})])
            crc = zlib.crc32(json.dumps([type(o).__name__, rest], sort_keys=True, default=str).encode())
            payload = [-1 if o.start is None else o.start.t, -1 if o.end is None else o.end.t, crc]
            if isinstance(o, S.Note):
                cell = ["N", o.step, o.alter, o.octave, refs, payload]
            else:
                cell = ["O", refs, payload]
        if k < len(cells):
            cells[k] = cell
        else:
            cells.append(cell)
        k += 1
    return objs, cells


def cell_req(c):
    if c[0] in "SP":
        return "%s %s" % (c[0], W.lst(W.i, c[1]))
    if c[0] == "N":
        return "N %s %s %d %s %s" % (W.s(c[1]), W.opt(W.i, c[2]), c[3], W.lst(W.i, c[4]), W.lst(W.i, c[5]))
    return "O %s %s" % (W.lst(W.i, c[1]), W.lst(W.i, c[2]))


def cell_fmt(c):
    if c[0] in "SP":
        return c[0] + W.f_list(W.f_int, c[1])
    if c[0] == "N":
        return "N" + W.f_tuple(str(c[1]), W.f_opt(W.f_int, c[2]), W.f_int(c[3]), W.f_list(W.f_int, c[4]), W.f_list(W.f_int, c[5]))
    return "O" + W.f_tuple(W.f_list(W.f_int, c[1]), W.f_list(W.f_int, c[2]))


def linked_outside(parts):
    """notes reachable through tie links from the notes of the parts that are in none of them (removed chain members,
    notes of other parts): [(python id, note id, step, alter, octave)]"""
    inside = {id(n) for p in parts for n in p.notes}
    out, seen = [], set()
    todo = [n for p in parts for n in p.notes]
    while todo:
        n = todo.pop()
        for m in (n.tie_next, n.tie_prev):
            if m is not None and id(m) not in inside and id(m) not in seen:
                seen.add(id(m))
                out.append((id(m), m.id, m.step, m.alter, m.octave))
                todo.append(m)
    return sorted(out)


def cases(rng, tier):
    for st in STEPS:
        for al in (-2, -1, 0, 1, 2, None):
            for oc in range(0, 9):
                yield {"k": "note", "step": st, "alter": al, "oct": oc}
    for st in list(STEPS) + ["c", "H"]:
        for al in range(-3, 4):
            yield {"k": "tno", "step": st, "alter": al}
    # chord-root / local-key arithmetic: SEQUENCES of process_local_key calls (the result of a call must not depend
    # on the calls made before it) and RomanNumeral roots computed twice
    m = 60 if tier == "quick" else 1500
    degs = ["i", "ii", "iii", "iv", "v", "vi", "vii"]
    for _ in range(m):
        calls = []
        for _ in range(rng.randint(4, 12)):
            dg = rng.choice(degs)
            dg = dg.upper() if rng.random() < 0.5 else dg
            calls.append([rng.choice(["", "", "", "b", "#", "bb", "##"]) + dg, rng.choice(KEY_POOL + KEY_POOL_DASH)])
        if rng.random() < 0.3:   # what the code rejects (unknown degree, mixed case, a key without a step letter)
            calls.insert(rng.randrange(len(calls)), rng.choice([["viio", "C"], ["V7", "F"], ["", "C"], ["Vi", "a"], ["V", "x"], ["V", ""], ["bbbII", "C"], ["iv.", "g"]]))
        chains = [[rng.choice(["", "b", "#"]) + rng.choice(degs + [x.upper() for x in degs]),
                   rng.choice(["", "", "b", "#"]) + rng.choice(degs + [x.upper() for x in degs]),
                   rng.choice(KEY_POOL + KEY_POOL_DASH)] for _ in range(3)]
        yield {"k": "lockey", "calls": calls, "chains": chains}
    # chord roots of applied chords: every local key x secondary degree, all primary degrees of the tables in one case
    for ki, lk in enumerate(KEY_POOL + KEY_POOL_DASH):
        for si, sec in enumerate(["I", "II", "III", "IV", "V", "VI", "VII", "i", "ii", "iii", "iv", "v", "vi", "vii", "III+",
                                  "bVII", "bVI", "bIII", "#iv", "bii"]):
            yield {"k": "roman", "key": lk, "sec": sec, "inv": (ki + si) % 4}
    # Interval(number, quality, direction) as the user writes it: zero, negative and compound numbers, qualities that
    # do not exist for the number, directions that are neither "up" nor "down" - then one note transposed
    for num in range(-9, 18):
        yield {"k": "ivl", "n": num}
    n = 40 if tier == "quick" else 1500
    ivs = all_intervals()
    # whole calls with such intervals (raises: the argument must stay untouched; a part without pitched notes comes
    # back as a copy whatever the size of the interval) and with an argument that is neither Score nor Part (a copy)
    for i in range(len(ODD_INTERVALS) * (1 if tier == "quick" else 6)):
        num, q, dr = ODD_INTERVALS[i % len(ODD_INTERVALS)]
        yield {"k": "part", "seed": rng.randrange(2**31), "q": q, "n": num, "dir": dr, "as_part": i % 2 == 0, "small": True,
               "odd": True, "rests_only": i % 5 == 4}
    for i in range(4 if tier == "quick" else 40):
        q, num = rng.choice(ivs[5:])
        yield {"k": "part", "seed": rng.randrange(2**31), "q": q, "n": num, "dir": ["up", "down"][i % 2], "as_part": True,
               "small": True, "arg_kind": ["note", "rest"][i % 2], "ties": "enh" if i % 4 < 2 else None}
    for i in range(n):
        q, num = rng.choice(ivs)
        d = {"k": "part", "seed": rng.randrange(2**31), "q": q, "n": num, "dir": rng.choice(["up", "down"]),
             "as_part": rng.random() < 0.5}
        # history of the ARGUMENT before the call: read-only views (note array, midi pitches, ...) taken first, in the
        # middle of its construction (gen_score.build_part `warm`) or right before transposing
        r = rng.random()
        if r < 0.3:
            d["warm"] = rng.choice([2, 16, 31, 63, 64, 127, 128, 255])
        if rng.random() < 0.5:
            d["read_first"] = True
        # how the Score argument came to be (its flat `.parts` is what the caller sees; `part_structure` may lag behind)
        if not d["as_part"] and rng.random() < 0.4:
            d["score_form"] = rng.choice(["setitem", "assign_parts", "unfolded_max", "unfolded_min", "grouped", "listed_twice"])
        # two parts of one score may carry the same id (first parts of two loaded files are both "P1"); one part
        # object may be listed twice (score_form "listed_twice": it is ONE object, its notes move once, F-C16-6):
        # what is transposed is every part OBJECT the score holds, identified by nothing else
        if not d["as_part"] and rng.random() < 0.25:
            d["same_ids"] = True
        # what the TIES of the argument look like (see TIE_MODES): a third of the random arguments, and one block that
        # runs through every mode with Part and with Score arguments whatever the seed
        if rng.random() < 0.35:
            d["ties"] = rng.choice(TIE_MODES)
        yield d
    reps = 2 if tier == "quick" else 40
    for i in range(reps * len(TIE_MODES)):
        q, num = rng.choice(ivs[5:])   # not a unison: the spelling has to move
        yield {"k": "part", "seed": rng.randrange(2**31), "q": q, "n": num, "dir": ["up", "down"][(i // len(TIE_MODES)) % 2],
               "as_part": (i // len(TIE_MODES) + i % len(TIE_MODES)) % 2 == 0, "ties": TIE_MODES[i % len(TIE_MODES)], "small": True}


def call(f, *a):
    try:
        return f(*a), None
    except BaseException as e:
        if isinstance(e, (KeyboardInterrupt, SystemExit)):
            raise
        return None, e


def fmt_sp(step, alter, octv):
    return W.f_tuple(step, W.f_opt(W.f_int, alter), W.f_int(octv))


def evaluate(d):
    import partitura.score as S
    import partitura.utils.music as M

    ev = Eval()
    k = d["k"]
    if k == "note":
        st, al, oc = d["step"], d["alter"], d["oct"]
        midi0 = (oc + 1) * 12 + BASE[st] + (al or 0)
        dia0 = 7 * oc + STEPS.index(st)
        for q, n in all_intervals():
            for dr in ("up", "down"):
                note = S.Note(step=st, octave=oc, alter=al)
                iv = S.Interval(n, q, dr)
                _, e = call(M._transpose_note_inplace, note, iv)
                ev.requests.append("tn %s %s %d %s %d %s" % (st, W.opt(W.i, al), oc, W.s(q), n, dr))
                if e:
                    ev.impl.append("err")
                    ev.oracle.append("_transpose_note_inplace(%s%s%d, %s%d %s) raised %r" % (st, al, oc, q, n, dr, e))
                    continue
                ev.impl.append(fmt_sp(note.step, note.alter, note.octave))
                sg = 1 if dr == "up" else -1
                midi1 = (note.octave + 1) * 12 + BASE[note.step] + (note.alter or 0)
                dia1 = 7 * note.octave + STEPS.index(note.step)
                if midi1 != midi0 + sg * semis(q, n):
                    ev.oracle.append("semitones: %s%s%d %s%d %s -> %s%s%d moved %d, interval is %d" % (
                        st, al, oc, q, n, dr, note.step, note.alter, note.octave, midi1 - midi0, sg * semis(q, n)))
                if dia1 != dia0 + sg * (n - 1):
                    ev.oracle.append("staff steps: %s%s%d %s%d %s -> %s%s%d moved %d steps, interval is %d" % (
                        st, al, oc, q, n, dr, note.step, note.alter, note.octave, dia1 - dia0, sg * (n - 1)))
                # up then down restores the spelling
                back = S.Interval(n, q, "down" if dr == "up" else "up")
                _, e2 = call(M._transpose_note_inplace, note, back)
                if e2 or (note.step, note.alter or 0, note.octave) != (st, al or 0, oc):
                    ev.oracle.append("up/down: %s%s%d by %s%d %s and back gives %s%s%s" % (
                        st, al, oc, q, n, dr, note.step, note.alter, note.octave))
        ev.key = "note:%s:%s:%d" % (st, al, oc)
    elif k == "tno":
        st, al = d["step"], d["alter"]
        for q, n in all_intervals():
            r, e = call(M.transpose_note, st, al, S.Interval(n, q))
            ev.requests.append("tno %s %d %s %d" % (W.s(st), al, W.s(q), n))
            ev.impl.append("err" if e else W.f_tuple(r[0], W.f_int(r[1])))
            if not e and st.upper() in BASE:
                # agrees with the diatonic arithmetic of the full transposition (octave ignored)
                note = S.Note(step=st, octave=4, alter=al)
                M._transpose_note_inplace(note, S.Interval(n, q))
                if (note.step, note.alter or 0) != (r[0], r[1]):
                    ev.oracle.append("transpose_note(%s,%d,%s%d) = %r but note transposition gives %s%s" % (
                        st, al, q, n, r, note.step, note.alter))
        ev.key = "tno:%s:%d" % (st, al)
    elif k == "ivl":
        num = d["n"]
        notes = [IVL_NOTES[(num + j) % len(IVL_NOTES)] for j in range(3)]
        for q in IVL_QUALS:
            for dr in IVL_DIRS:
                iv, e = call(S.Interval, num, q, dr)
                tag = None if e is None else ("A" if isinstance(e, AssertionError) else "err")
                ev.requests.append("ivs %d %s %s" % (num, W.s(q), W.s(dr)))
                if tag:
                    ev.impl.append(tag)
                else:
                    sz, e2 = call(lambda: iv.semitones)
                    ev.impl.append(W.f_int(sz) if e2 is None else ("K" if isinstance(e2, KeyError) else "err"))
                ev.info["interval_" + ("rejected" if tag else "accepted")] = ev.info.get("interval_" + ("rejected" if tag else "accepted"), 0) + 1
                if tag and dr in ("up", "down") and (q, num) in all_intervals():
                    # the property quantifies over all 39 interval classes and both directions: each of them is an interval
                    ev.oracle.append("interval class: Interval(%d, %r, %r) is refused (%r); it is one of the 39 interval classes" % (num, q, dr, e))
                # transpose_note (octave-free, upward only) with the same Interval object; once per quality with the
                # DEFAULT direction of the constructor
                for dflt in ([False, True] if dr == "up" else [False]):
                    for st, al, oc in notes[:2]:
                        ev.requests.append("tnf %d %s %s %s %d" % (num, W.s(q), "-" if dflt else W.s(dr), W.s(st), al or 0))
                        ivd, e4 = call(lambda: S.Interval(num, q)) if dflt else (iv, e)
                        r4, e5 = (None, e4) if e4 else call(M.transpose_note, st, al or 0, ivd)
                        ev.impl.append("err" if e5 else W.f_tuple(r4[0], W.f_int(r4[1])))
                for st, al, oc in notes:
                    ev.requests.append("ivn %d %s %s %s %s %d" % (num, W.s(q), W.s(dr), W.s(st), W.opt(W.i, al), oc))
                    if tag:
                        ev.impl.append(tag)
                        continue
                    note = S.Note(step=st, octave=oc, alter=al)
                    _, e3 = call(M._transpose_note_inplace, note, iv)
                    if e3 is not None:
                        ev.impl.append("K" if isinstance(e3, KeyError) else "err")
                        ev.info["interval_without_size"] = ev.info.get("interval_without_size", 0) + 1
                        continue
                    ev.impl.append(fmt_sp(note.step, note.alter, note.octave))
                    ev.info["interval_note_moved"] = ev.info.get("interval_note_moved", 0) + 1
                    # whatever interval the constructor accepts and the transposition carries out moves the note by
                    # the interval's number of staff steps and semitones (compound numbers: whole octaves on top)
                    simple = (num - 1) % 7 + 1
                    if num >= 1 and dr in ("up", "down") and (q, simple) in all_intervals():
                        sg = 1 if dr == "up" else -1
                        m0, m1 = midi_of(st, al, oc), midi_of(note.step, note.alter, note.octave)
                        d0, d1 = 7 * oc + STEPS.index(st), 7 * note.octave + STEPS.index(note.step)
                        if m1 - m0 != sg * theory_semis(q, num):
                            ev.oracle.append("semitones: Interval(%d, %r, %r) moved %s to %s: %d semitones, the interval is %d" % (
                                num, q, dr, spell(st, al, oc), spell(note.step, note.alter, note.octave), m1 - m0, sg * theory_semis(q, num)))
                        if d1 - d0 != sg * (num - 1):
                            ev.oracle.append("staff steps: Interval(%d, %r, %r) moved %s to %s: %d steps, the interval is %d" % (
                                num, q, dr, spell(st, al, oc), spell(note.step, note.alter, note.octave), d1 - d0, sg * (num - 1)))
        ev.key = "ivl:%d" % num
    elif k == "lockey":
        def one(loc, glob, tonic, why):
            """both forms of process_local_key(loc, glob); `tonic` = what the oracle takes `glob` for; returns the
            (step index, alteration) of the new key by scale arithmetic (None: outside what the code supports)"""
            out = {}
            for flag in (True, False):
                r, e = call(S.process_local_key, loc, glob, flag)
                ev.requests.append("plk %s %s %d" % (W.s(loc), W.s(glob), flag))
                ok = e is None and (isinstance(r, tuple) if flag else isinstance(r, str))
                ev.impl.append((W.f_tuple(str(r[0]), W.f_int(r[1])) if flag else "N:" + r) if ok else "err")
                out[flag] = r if ok else e
            exp = None
            core = degree_core(loc)
            if tonic is not None and core.lower() in ROMAN_NUM and core in (core.lower(), core.upper()) and degree_in_ladder(loc, glob.islower()):
                n, st = altered_degree(loc, glob.islower())
                j, al = up_semis(tonic[0], tonic[1], n, st)
                if -3 < tonic[1] < 3 and -3 < al < 3:
                    exp = (j, al)
                    got = out[True]
                    if not isinstance(got, tuple) or (got[0], got[1]) != (STEPS[j], al):
                        ev.oracle.append("local key: process_local_key(%r, %r, True) = %r, scale arithmetic gives (%s, %d)%s [call sequence %s]" % (
                            loc, glob, got, STEPS[j], al, why, d["calls"]))
                    nm = out[False]
                    if not isinstance(nm, str) or not nm or key_tonic(nm) != (j, al) or nm[0].islower() != core.islower():
                        ev.oracle.append("local key: process_local_key(%r, %r) = %r, scale arithmetic gives the %s key on %s%s%s" % (
                            loc, glob, nm, "minor" if core.islower() else "major", STEPS[j], spell_acc(al), why))
            return exp, out[False]

        for loc, glob in d["calls"]:
            before = len(ev.oracle)
            one(loc, glob, key_tonic(glob), "")
            if len(ev.oracle) > before:
                break
        # local keys of local keys, as the DCML importer computes "V/bIII": the key name the first call returns is the
        # global key of the second
        for loc2, loc1, glob in d.get("chains", []):
            exp1, inter = one(loc1, glob, key_tonic(glob), "")
            if exp1 is not None and isinstance(inter, str) and inter:
                one(loc2, inter, exp1, " (%r is process_local_key(%r, %r))" % (inter, loc1, glob))
        # a Roman numeral's root must not depend on how often it was computed
        for txt in ("G:V65/bIII", "C:V7/bVII", "a:viio/#vi"):
            a, e1 = call(lambda: S.RomanNumeral(txt).root)
            b, e2 = call(lambda: S.RomanNumeral(txt).root)
            if (e1 is None) != (e2 is None) or (e1 is None and a != b):
                ev.oracle.append("roman numeral: root of %r is %r the first time and %r the second" % (txt, e1 or a, e2 or b))
        ev.key = "lockey:" + "|".join(l + "/" + g for l, g in d["calls"]) + "|" + "|".join("/".join(c) for c in d.get("chains", []))
    elif k == "roman":
        lk, sec = d["key"], d["sec"]
        ti, ta = key_tonic(lk)
        minor_key = lk[0].islower()
        judged = True
        if sec in DEG_BOTH or sec in DEG_MAJOR:
            q1, n1 = degree_interval(sec, minor_key)
            ai, aa = up(ti, ta, q1, n1)
        else:
            judged = degree_in_ladder(sec, minor_key)
            n1, st1 = altered_degree(sec, minor_key)
            ai, aa = up_semis(ti, ta, n1, st1)
        sec_minor = degree_core(sec)[0].islower()
        for pi, prim in enumerate(list(DEG_MAJOR) + list(DEG_BOTH) + ALTERED_DEGREES + ([""] if sec == "I" else [])):
            inv = d.get("inv", 0) if prim == "I" and sec == "V" else 1 + (pi + len(sec)) % 3
            pj = judged
            if prim in DEG_BOTH or prim in DEG_MAJOR:
                q2, n2 = degree_interval(prim, sec_minor)
                ri, ra = up(ai, aa, q2, n2)
                # the table path of the root alone (Model/RomanRoot.lean `romanRoot`)
                table_path = sec in DEG_BOTH or sec in DEG_MAJOR
            elif prim:
                pj = pj and degree_in_ladder(prim, sec_minor)
                n2, st2 = altered_degree(prim, sec_minor)
                ri, ra = up_semis(ai, aa, n2, st2)
                table_path = False
            else:
                pj, table_path, ri, ra = False, False, 0, 0
            rn, e = call(lambda: S.RomanNumeral("x", inversion=inv, local_key=lk, primary_degree=prim, secondary_degree=sec, quality="maj"))
            ev.requests.append("rn %d %s %s %s maj" % (inv, W.s(lk), W.s(prim), W.s(sec)))
            has = e is None and hasattr(rn, "root") and isinstance(rn.root, str) and isinstance(getattr(rn, "bass_note", None), str)
            ev.impl.append("err" if e else (W.f_tuple(rn.root, rn.bass_note) if has else "-"))
            if table_path and has and rn.root:
                ev.requests.append("rroot %s %s %s" % (W.s(lk), W.s(prim), W.s(sec)))
                ev.impl.append(W.f_tuple(rn.root[0].upper(), W.f_int(acc_of(rn.root))))
            if inv == 0 or not prim:
                continue   # (the constructor computes no root for an inversion of 0 / without a degree: nothing to judge)
            # the root on its own (the constructor also raises when only the BASS note leaves the range of -2..2)
            stub = object.__new__(S.RomanNumeral)
            stub.local_key, stub.primary_degree, stub.secondary_degree = lk, prim, sec
            root, e_root = call(stub.find_root_note)
            in_range = -3 < ta < 3 and -3 < aa < 3 and -3 < ra < 3
            if has and (e_root is not None or root != rn.root):
                ev.oracle.append("roman root: %s/%s in %s: the numeral stores root %r, find_root_note gives %r" % (prim, sec, lk, rn.root, e_root or root))
            if e_root is not None or not isinstance(root, str) or not root:
                if pj and in_range:
                    ev.oracle.append("roman root: find_root_note of RomanNumeral(local_key=%r, %s/%s) raised %r, scale arithmetic gives %s%+d" % (
                        lk, prim, sec, e_root, STEPS[ri], ra))
                continue
            rs, ral = root[:1].upper(), acc_of(root)
            if pj and in_range and (rs, ral) != (STEPS[ri], ra):
                ev.oracle.append("roman root: %s/%s in %s has root %r, scale arithmetic gives %s%+d (applied tonic %s%+d)" % (
                    prim, sec, lk, root, STEPS[ri], ra, STEPS[ai], aa))
            # the bass note of the inversion stands a third / fifth / seventh above the root AS THE ROOT IS SPELLED
            # (judged where the interval the method documents is the chord's: see bass_interval)
            bi = bass_interval(prim, inv)
            if bi is not None and rs in BASE and -3 < ral < 3:
                bj, ba = up(STEPS.index(rs), ral, bi[0], bi[1])
                if -3 < ba < 3:
                    bass = rn.bass_note if has else None
                    if bass is None or (bass[:1].upper(), acc_of(bass)) != (STEPS[bj], ba):
                        ev.oracle.append("bass note: %s/%s in %s, inversion %d: root %r, bass note %s; a %s%d above the root is %s%s" % (
                            prim, sec, lk, inv, root, repr(bass) if has else "raised %r" % (e,), bi[0], bi[1], STEPS[bj], spell_acc(ba)))
        ev.key = "roman:%s:%s:%s" % (lk, sec, d.get("inv"))
    elif k == "part":
        rng = random.Random(d["seed"])
        tm = d.get("ties")
        kw = dict(p_unp=0.05, p_tie=0.3)
        if tm:
            kw["p_tie"] = 0.5
        if d.get("small"):
            kw.update(n_measures=rng.randint(1, 2), voices=rng.randint(1, 2))
        if d.get("rests_only"):
            kw.update(p_rest=1.0, p_unp=0.0, p_grace=0.0)
        sd = G.random_score_desc(rng, nparts=1 if d["as_part"] else rng.randint(2 if tm == "cross" else 1, 3), **kw)
        if tm:
            for pd in sd["parts"]:
                force_ties(pd, rng, 3)
                if tm in ("enh", "mis", "mixed"):
                    ev.info["respelled_links"] = ev.info.get("respelled_links", 0) + respell_ties(pd, rng, "mis" if tm == "mis" else "enh")
        if d.get("warm"):
            for pd in sd["parts"]:
                pd["warm"] = d["warm"]
        if d.get("same_ids"):
            if len(sd["parts"]) < 2:
                sd["parts"].append(G.random_part_desc(rng, pid="P1", p_tie=0.3))
            for pd in sd["parts"]:
                pd["id"] = "P1"
        score = G.build_score(sd)
        form = d.get("score_form")
        if form == "setitem":
            # every part replaced through Score.__setitem__ by an equal, separately built part
            for i, pd in enumerate(sd["parts"]):
                score[i] = G.build_part(dict(pd, warm=0))
        elif form == "assign_parts":
            score.parts = [G.build_part(dict(pd, warm=0)) for pd in sd["parts"]]
        elif form in ("unfolded_max", "unfolded_min"):
            # put a repeat over the first bar of every part, then take the unfolded score (its `.parts` are new parts)
            for p in score.parts:
                ms = list(p.iter_all(S.Measure))
                if ms:
                    p.add(S.Repeat(), ms[0].start.t, ms[0].end.t)
            uf, e0 = call(S.unfold_part_maximal if form == "unfolded_max" else S.unfold_part_minimal, score)
            if e0 is None and isinstance(uf, S.Score):
                score = uf
        elif form == "grouped":
            g = S.PartGroup(group_symbol="brace", group_name="g")
            g.children = list(score.parts)
            for p in score.parts:
                p.parent = g
            score = S.Score(g, id="g")
        elif form == "listed_twice":
            # one part object listed twice (the same staff shown in two places of a layout, a list built with `* 2`)
            ps = list(score.parts)
            score = S.Score(ps + [ps[rng.randrange(len(ps))]], id="twice")
            ev.info["scores_listing_a_part_twice"] = 1
        arg = score.parts[0] if d["as_part"] else score
        keep_alive = tie_ops([arg] if d["as_part"] else list(arg.parts), tm, rng, ev.info) if tm else []
        ev.info["tie_links"] = sum(1 for p in ([arg] if d["as_part"] else arg.parts) for n in p.notes if n.tie_next is not None)
        if d.get("arg_kind"):
            return other_argument(d, ev, arg, rng, keep_alive)
        if d.get("read_first"):
            for p in ([arg] if d["as_part"] else list(arg.parts)):
                call(lambda: p.note_array(include_pitch_spelling=True))
                call(lambda: [n.midi_pitch for n in p.notes])
        before = G.fingerprint_score(arg, with_ids=True)
        out_before = linked_outside([arg] if d["as_part"] else list(arg.parts))
        objs0, heap0 = heap_of(arg, {}, 0)
        iv, e_iv = call(S.Interval, d["n"], d["q"], d["dir"])
        res, e = (None, e_iv) if e_iv else call(M.transpose, arg, iv)
        if d.get("odd"):
            ev.info["odd_interval_" + ("rejected" if e_iv else "raised" if e else "returned")] = 1
        after = G.fingerprint_score(arg, with_ids=True)
        # heap stream: the argument's object graph before the call -> the argument's graph after it + the result's
        known = {id(o): k for k, o in enumerate(objs0)}
        objs1, heap1 = heap_of(arg, {}, 0)
        ev.requests.append("th %s %d %s 0 %s" % (W.s(d["q"]), d["n"], W.s(d["dir"]), W.lst(cell_req, heap0)))
        if e:
            # the call raised: what the argument's object graph looks like now (model: `transposeRun`, the heap at the raise)
            ev.impl.append(W.f_tuple("err", W.f_list(cell_fmt, heap1)))
        else:
            objs2, heap2 = heap_of(res, known, len(heap0))
            ev.impl.append(W.f_tuple(W.f_int(known.get(id(res), len(heap0))), W.f_list(cell_fmt, heap1 + heap2)))
            shared = sorted({r for c in heap2 for r in (c[1] if c[0] in "SP" else c[-2]) if r < len(heap0)})
            if shared or id(res) in known:
                ev.oracle.append("the result shares %d object(s) with the argument (%s)" % (
                    len(shared) + (id(res) in known), ", ".join(type(objs0[r]).__name__ for r in shared[:4])))
        if [id(o) for o in objs0] != [id(o) for o in objs1] or heap0 != heap1:
            bad = [(a, b) for a, b in zip(heap0, heap1) if a != b][:2]
            ev.oracle.append("transpose modified the object graph of its argument: %s" % (bad or "objects added / removed",))
        ev.info["heap_cells"] = len(heap0)
        listed = {x for c in heap0 if c[0] == "P" for x in c[1]}
        ev.info["heap_external"] = sum(1 for k_, c in enumerate(heap0) if c[0] in "NO" and k_ not in listed)
        if before != after:
            ev.oracle.append("transpose modified its argument (%s argument)" % ("Part" if d["as_part"] else "Score"))
        if out_before != linked_outside([arg] if d["as_part"] else list(arg.parts)):
            ev.oracle.append("transpose modified a note that the argument's notes are tied to (removed chain member / note of another part)")
        simple_valid = d["dir"] in ("up", "down") and (d["q"], d["n"]) in all_intervals()
        if d.get("odd"):
            ev.key = "part-odd:%d:%s:%s:%s:%s" % (d["seed"], d["n"], d["q"], d["dir"], d.get("rests_only"))
        if e:
            if simple_valid:
                ev.oracle.append("transpose raised %r" % (e,))
            return ev
        if not simple_valid:
            # (nothing of the property speaks about a call the unchanged code carries out with such an interval: a part
            # without pitched notes; the heap stream compares the copy)
            if res is arg:
                ev.oracle.append("transpose returned its argument instead of a new object")
            if d["n"] >= 1 and d["dir"] in ("up", "down") and (d["q"], (d["n"] - 1) % 7 + 1) in all_intervals():
                # a compound interval that the call carries out has to move every note by the interval, whole octaves included
                sg = 1 if d["dir"] == "up" else -1
                pin = [arg] if d["as_part"] else list(arg.parts)
                pout = [res] if d["as_part"] else list(getattr(res, "parts", []))
                for pi, po in zip(pin, pout):
                    for a, b in zip(list(pi.notes), list(po.notes)):
                        dm = midi_of(b.step, b.alter, b.octave) - midi_of(a.step, a.alter, a.octave)
                        ds = 7 * b.octave + STEPS.index(b.step) - 7 * a.octave - STEPS.index(a.step)
                        if dm != sg * theory_semis(d["q"], d["n"]) or ds != sg * (d["n"] - 1):
                            ev.oracle.append("note %s (%s) moved by %d semitones and %d staff steps to %s, Interval(%d, %r, %r) is %d semitones and %d steps" % (
                                a.id, spell(a.step, a.alter, a.octave), dm, ds, spell(b.step, b.alter, b.octave), d["n"], d["q"], d["dir"],
                                sg * theory_semis(d["q"], d["n"]), sg * (d["n"] - 1)))
                            break
            return ev
        if res is arg:
            ev.oracle.append("transpose returned its argument instead of a new object")
        parts_in = [arg] if d["as_part"] else list(arg.parts)
        parts_out = [res] if d["as_part"] else list(res.parts)
        if len(parts_in) != len(parts_out):
            ev.oracle.append("number of parts changed")
            return ev
        sg = 1 if d["dir"] == "up" else -1
        # which object of the result stands for which object of the argument (by position in `.notes`, part by part)
        twin, arg_objs = {}, set()
        for pi, po in zip(parts_in, parts_out):
            ni, no = list(pi.notes), list(po.notes)
            arg_objs.update(id(a) for a in ni)
            if len(ni) == len(no):
                twin.update((id(a), b) for a, b in zip(ni, no))
        arg_objs.update(x[0] for x in out_before)
        for pi, po in zip(parts_in, parts_out):
            ni = list(pi.notes)
            no = list(po.notes)
            ev.requests.append("tp %s %d %s %s" % (W.s(d["q"]), d["n"], d["dir"], W.lst(
                lambda n: "%s %s %d" % (n.step, W.opt(W.i, n.alter), n.octave), ni)))
            ev.impl.append(W.f_list(lambda n: fmt_sp(n.step, n.alter, n.octave), no))
            if len(ni) != len(no):
                ev.oracle.append("number of notes changed")
                continue
            for a, b in zip(ni, no):
                if (a.id, a.start.t, a.end.t, a.voice, a.staff, type(a)) != (b.id, b.start.t, b.end.t, b.voice, b.staff, type(b)):
                    ev.oracle.append("note %s: onset/duration/voice/staff/id changed" % a.id)
                # the pitch every public reader reports for the moved note is that of its NEW spelling
                sp_a = (a.octave + 1) * 12 + BASE[a.step] + (a.alter or 0)
                sp_b = (b.octave + 1) * 12 + BASE[b.step] + (b.alter or 0)
                if a.midi_pitch != sp_a:
                    ev.oracle.append("argument note %s is spelled %s%s%d but reports midi_pitch %s after the call" % (
                        a.id, a.step, a.alter, a.octave, a.midi_pitch))
                if b.midi_pitch != sp_b:
                    ev.oracle.append("result note %s is spelled %s%s%d (= %d) but reports midi_pitch %s" % (
                        b.id, b.step, b.alter, b.octave, sp_b, b.midi_pitch))
                if b.midi_pitch != a.midi_pitch + sg * semis(d["q"], d["n"]):
                    ev.oracle.append("note %s (%s%s%d, tie_prev=%s, %s) moved by %d semitones, interval %s%d %s is %d" % (
                        a.id, a.step, a.alter, a.octave, a.tie_prev is not None, type(a).__name__,
                        b.midi_pitch - a.midi_pitch, d["q"], d["n"], d["dir"], sg * semis(d["q"], d["n"])))
                if 7 * b.octave + STEPS.index(b.step) != 7 * a.octave + STEPS.index(a.step) + sg * (d["n"] - 1):
                    ev.oracle.append("note %s moved by the wrong number of staff steps" % a.id)
                # the note moved by the interval from ITS OWN spelling, whatever it is tied to
                exp = expected_spelling(a.step, a.alter, a.octave, d["q"], d["n"], sg)
                if (b.step, b.alter or 0, b.octave) != exp:
                    ev.oracle.append("note %s is %s (tie_prev %s, tie_next %s): %s%d %s takes it to %s, the result has %s" % (
                        a.id, spell(a.step, a.alter, a.octave), tie_desc(a.tie_prev, arg_objs, twin), tie_desc(a.tie_next, arg_objs, twin),
                        d["q"], d["n"], d["dir"], spell(*exp), spell(b.step, b.alter, b.octave)))
                if (a.tie_next is None) != (b.tie_next is None) or (a.tie_next is not None and a.tie_next.id != b.tie_next.id):
                    ev.oracle.append("note %s: tie link changed" % a.id)
                # ties are unchanged: a link of the result leads to the result's own note standing for the target (to a
                # note of its own outside the parts where the argument's link leads outside), never into the argument
                for attr in ("tie_next", "tie_prev"):
                    ta, tb = getattr(a, attr), getattr(b, attr)
                    if (ta is None) != (tb is None):
                        ev.oracle.append("note %s: %s %s by the transposition" % (a.id, attr, "dropped" if tb is None else "created"))
                    elif ta is not None:
                        if id(tb) in arg_objs:
                            ev.oracle.append("note %s of the result: %s is a note of the ARGUMENT" % (a.id, attr))
                        elif id(ta) in twin and twin[id(ta)] is not tb:
                            ev.oracle.append("note %s of the result: %s does not lead to the result's note %s" % (a.id, attr, ta.id))
                        elif id(ta) not in twin and (type(ta), ta.id) != (type(tb), tb.id):
                            ev.oracle.append("note %s of the result: %s leads to %s, in the argument to %s" % (a.id, attr, tb.id, ta.id))
            # the note array of the result (what exports, piano rolls, ... are made from) shows the moved pitches
            na_i, e1 = call(lambda: pi.note_array())
            na_o, e2 = call(lambda: po.note_array())
            if e1 is None and e2 is None and len(na_i) == len(na_o):
                exp = sorted((str(i_), int(p_) + sg * semis(d["q"], d["n"])) for i_, p_ in zip(na_i["id"], na_i["pitch"]))
                got = sorted((str(i_), int(p_)) for i_, p_ in zip(na_o["id"], na_o["pitch"]))
                if exp != got:
                    bad = [(x, y) for x, y in zip(exp, got) if x != y][:2]
                    ev.oracle.append("note array of the result: (id, pitch) %s, the argument's moved by %d semitones gives %s" % (
                        [y for _, y in bad], sg * semis(d["q"], d["n"]), [x for x, _ in bad]))
            elif (e1 is None) != (e2 is None):
                ev.oracle.append("note array of the result raises %r, of the argument %r" % (e2, e1))
            # everything that is not a pitched note is unchanged: compare fingerprints with pitch fields masked
            fi, fo = mask_pitch(G.fingerprint_part(pi)), mask_pitch(G.fingerprint_part(po))
            if fi != fo:
                ev.oracle.append("transpose changed something other than pitch in part %s" % pi.id)
        # up and then down (down and then up) by the same interval restores the original spelling
        back, e3 = call(M.transpose, res, S.Interval(d["n"], d["q"], "down" if d["dir"] == "up" else "up"))
        if e3:
            ev.oracle.append("transposing the result back raised %r" % (e3,))
        else:
            parts_back = [back] if d["as_part"] else list(back.parts)
            for pi, pb in zip(parts_in, parts_back):
                sa = [(n.id, n.step, n.alter or 0, n.octave, n.midi_pitch) for n in pi.notes]
                sb = [(n.id, n.step, n.alter or 0, n.octave, n.midi_pitch) for n in pb.notes]
                if sa != sb:
                    bad = [(x, y) for x, y in zip(sa, sb) if x != y][:2]
                    ev.oracle.append("up and down: (id, step, alter, octave, midi) %s came back as %s" % (
                        [x for x, _ in bad], [y for _, y in bad]))
        ev.key = "part:%d:%s:%s:%s:%s:%s" % (d["seed"], d.get("warm"), d.get("read_first"), d.get("score_form"), d.get("same_ids"), tm)
        del keep_alive
    return ev


def other_argument(d, ev, part, rng, keep_alive):
    """`transpose` on an argument that is neither Score nor Part (the dispatch's last branch): one Note / Rest of the
    part.  The code returns an untransposed deep copy; the property (scores and parts) demands only that the argument
    is left alone and the result is new."""
    import partitura.score as S
    import partitura.utils.music as M

    pool = [o for o in G.part_objects(part) if (isinstance(o, S.Note) if d["arg_kind"] == "note" else isinstance(o, S.Rest))]
    if not pool:
        pool = list(part.notes)
    if not pool:
        return ev
    arg = rng.choice(pool)
    objs0, heap0 = heap_of(arg, {}, 0)
    res, e = call(M.transpose, arg, S.Interval(d["n"], d["q"], d["dir"]))
    known = {id(o): k for k, o in enumerate(objs0)}
    objs1, heap1 = heap_of(arg, {}, 0)
    ev.requests.append("th %s %d %s 0 %s" % (W.s(d["q"]), d["n"], W.s(d["dir"]), W.lst(cell_req, heap0)))
    if e:
        ev.impl.append(W.f_tuple("err", W.f_list(cell_fmt, heap1)))   # (compared with the model; the property does not judge it)
    else:
        objs2, heap2 = heap_of(res, known, len(heap0))
        ev.impl.append(W.f_tuple(W.f_int(known.get(id(res), len(heap0))), W.f_list(cell_fmt, heap1 + heap2)))
        shared = sorted({r for c in heap2 for r in (c[1] if c[0] in "SP" else c[-2]) if r < len(heap0)})
        if shared or id(res) in known:
            ev.oracle.append("the result shares %d object(s) with the argument" % (len(shared) + (id(res) in known)))
    if [id(o) for o in objs0] != [id(o) for o in objs1] or heap0 != heap1:
        ev.oracle.append("transpose modified the object graph of its argument (%s argument)" % type(arg).__name__)
    ev.info["other_argument_cells"] = len(heap0)
    ev.key = "part-other:%d:%s:%s" % (d["seed"], d["arg_kind"], type(arg).__name__)
    del keep_alive
    return ev


def tie_desc(t, arg_objs, twin):
    if t is None:
        return "none"
    return "%s %s%s" % (t.id, spell(t.step, t.alter, t.octave), "" if id(t) in twin else " (not in the argument's parts)")


def spell(step, alter, octv):
    return "%s%s%d" % (step, {None: "", 0: "", 1: "#", 2: "##", -1: "b", -2: "bb"}.get(alter, "(%+d)" % (alter or 0)), octv)


def mask_pitch(fp):
    fp = copy.deepcopy(fp)
    for o in fp["objects"]:
        if o[0] in ("Note", "GraceNote"):
            o[3] = [kv for kv in o[3] if kv[0] not in ("step", "alter", "octave")]
    return fp


def finding_key(d, f):
    return d["k"] + ":" + f.split(":")[0].split(" ")[0]


def shrink(d):
    return []


def distribution(descs, results):
    from collections import Counter

    parts = [d for d in descs if d["k"] == "part"]
    info = Counter()
    for r in results:
        for k_, v in ((r or {}).get("info") or {}).items():
            if isinstance(v, int):
                info[k_] += v
    streams = Counter(q.split(" ", 1)[0] for r in results for q in ((r or {}).get("requests") or []))
    return {"by_kind": dict(Counter(d["k"] for d in descs)),
            "part_args": sum(1 for d in parts if d["as_part"]),
            "score_args": sum(1 for d in parts if not d["as_part"]),
            "tie_modes": dict(Counter((d.get("ties") or "plain") + (":part" if d["as_part"] else ":score") for d in parts)),
            "tie_and_heap_totals": dict(info),
            "observations_per_stream": dict(streams),
            "roman_inversions": dict(Counter(d.get("inv") for d in descs if d["k"] == "roman")),
            "roman_keys_written_with_dash": sum(1 for d in descs if d["k"] == "roman" and "-" in d["key"])}
