"""C14 - performed notes sound until release or later, exactly as the pedal dictates.

Reading (chosen so that the minimally repaired code is right; DESIGN.md "### C14"):
  * notes are dictionaries as every loader and `from_note_array` build them (key `midi_pitch`, `note_on`,
    `note_off`, `velocity`, `track`, `channel`, `id`); controls carry `number`, `time`, `value`.
  * the pedal events are the controls with number 64 in time order, simultaneous ones in stream order
    (fixes/C14-2: the sort must be stable).  The pedal state "at the moment" of a release is the state
    established by the last pedal event strictly before it (value > threshold = down); an event exactly
    at the release acts after it.
  * "the first later moment at which the pedal value is at or below the threshold" = the smallest pedal
    event time >= release whose value is <= threshold; "the same pitch is struck again" = the onset of a
    *different* note of the same pitch (any channel/track) at or after the release.
  * when the pedal is down at the release and neither moment exists the property only demands
    sound_off >= release (the code answers max(last pedal time, last release) + 1; the Lean model says so too).
  * "ticks agreeing with them whenever no pedal extends the note": when sound_off == note_off,
    duration_tick == ticks(onset_sec + duration_sec) - onset_tick.
  * times are dyadic (multiples of 1/64 below 64) so binary64 and float32 hold them exactly and every
    comparison below is rational equality.
"""
from fractions import Fraction

import wire as W
from core import Eval

PROPERTY = "C14"
DRIVER = "drv_c14"
PROPS = ["PartituraModel.Props.C14"]
TRUSTED = [
    "numpy primitives as modelled: argsort(kind='stable') = stable sort, searchsorted(left) on a sorted array = "
    "number of elements < x, np.diff != 0 = adjacent states differ, np.min/np.max/np.minimum/np.unique/np.where",
    "binary64/float32 arithmetic on the dyadic test grid is exact (times are multiples of 1/64 below 64); "
    "for other inputs note_array/from_note_array round to float32 - outside the compared domain",
    "binary64 evaluation of 1e6*ppq*t/mpq before np.round (model exact; same caveat as C12)",
    "Python set iteration order in sanitize_track_numbers is arbitrary: the theorem is over every duplicate-free "
    "enumeration; the comparison relabels the implementation's numbers by first occurrence",
    "notes keyed `pitch` without `midi_pitch` are outside the reading (adjust_offsets_w_sustain reads `midi_pitch`)",
]
PARTIAL = [
    "pedal down at the release with no later pedal-up event and no later re-strike: the property names no moment; "
    "the theorem gives the code's sentinel max(last pedal time, last release)+1 (pedal_down_no_release)",
]
RULE = ("random performed parts: 0-9 notes over 1-3 pitches with times from a small per-case pool of multiples of 1/64 "
        "(forcing overlapping/repeated/zero-length notes and exact coincidences of pedal events with releases and onsets, "
        "unsorted order, several channels) x 0-12 controls (pedal 64 with values around the thresholds, other controller "
        "numbers interleaved, simultaneous events, before/after all notes) x threshold sequences (quick: ~8 sampled incl. "
        "0,63,64,126,127; thorough: all 128 in random order) x ppq/mpq; plus multi-part track renumbering cases and "
        "malformed notes. distinct = distinct (notes, controls, thresholds, ppq, mpq) text; non-trivial = at least one "
        "note and one pedal event (part cases) or at least two (part, track) keys (track cases)")
LEVEL_TEXT = ("Lean theorems over the executable model of adjust_offsets_w_sustain / note_array / from_note_array / "
              "sanitize_track_numbers for all note lists, control streams and thresholds (induction, no bounds); the "
              "model is tied to the code by exact differential comparison on generated inputs, and the property itself "
              "is re-checked on the implementation's outputs by an independent reference pedal simulation.")

G = 64  # time grid: multiples of 1/G


# ---------------------------------------------------------------------------------- generator
def _time(rng, pool):
    if pool and rng.random() < 0.8:
        return rng.choice(pool)
    return rng.randint(0, 16 * G) / G


def gen_part(rng, tier, big=False):
    npool = rng.randint(2, 8)
    pool = [rng.randint(0, 12 * G) / G if rng.random() < 0.5 else float(rng.randint(0, 12)) for _ in range(npool)]
    npitch = rng.choice([1, 1, 2, 3])
    pitches = [rng.randint(0, 127) for _ in range(npitch)]
    nn = rng.choice([0, 1, 2, 3, 4, 5, 6, 9]) if not big else rng.randint(10, 40)
    notes = []
    for i in range(nn):
        a, b = _time(rng, pool), _time(rng, pool)
        if rng.random() < 0.15:
            b = a
        on, off = min(a, b), max(a, b)
        notes.append({"p": rng.choice(pitches), "on": on, "off": off, "v": rng.randint(0, 127),
                      "tr": rng.choice([0, 0, 1, 2]), "ch": rng.choice([0, 1, 1, 2, 9]),
                      "ot": rng.random() < 0.1})
    if rng.random() < 0.25:
        for n in notes:
            if rng.random() < 0.6:
                n["so"] = rng.choice([0.0, 0.5, 2.0])  # stale sound_off = release + so
    nc = rng.choice([0, 0, 1, 2, 3, 4, 6, 8, 12]) if not big else rng.randint(10, 60)
    vals = [0, 1, 63, 64, 65, 126, 127] + [rng.randint(0, 127) for _ in range(3)]
    controls = []
    for i in range(nc):
        r = rng.random()
        if r < 0.1:
            t = -rng.randint(0, 4 * G) / G  # before everything (MIDI times are >= 0, the function accepts any)
        elif r < 0.2:
            t = 16.0 + rng.randint(0, 8 * G) / G  # after everything
        else:
            t = _time(rng, pool)
        num = 64 if rng.random() < 0.8 else rng.choice([1, 7, 11, 66, 67, 0, 127])
        controls.append({"t": t, "n": num, "v": rng.choice(vals), "tr": rng.choice([None, 0, 0, 1])})
    if rng.random() < 0.3:
        controls.sort(key=lambda c: c["t"])  # a time-ordered stream, as a MIDI file gives it
    cvals = sorted(set(c["v"] for c in controls if c["n"] == 64))
    if tier == "quick":
        base = [0, 63, 64, 126, 127]
        near = [max(0, min(127, v + d)) for v in cvals for d in (-1, 0)]
        thrs = [rng.choice(base + near) for _ in range(5)] + [rng.choice(base) for _ in range(2)] + [rng.randint(0, 127)]
        rng.shuffle(thrs)
    else:
        thrs = list(range(128))
        rng.shuffle(thrs)
    ppq = rng.choice([480, 480, 960, 96, 1, 24, rng.randint(1, 2000)])
    mpq = rng.choice([500000, 500000, 857142, 250001, 1000000, rng.randint(100000, 3000000)])
    return {"k": "part", "notes": notes, "controls": controls, "thrs": thrs, "ppq": ppq, "mpq": mpq}


def gen_bad(rng):
    d = gen_part(rng, "quick")
    d["thrs"] = d["thrs"][:2]
    if not d["notes"]:
        d["notes"].append({"p": 60, "on": 0.0, "off": 1.0, "v": 64, "tr": 0, "ch": 1, "ot": False})
    n = rng.choice(d["notes"])
    how = rng.choice(["on<0", "off<on", "pitch", "pitch-", "vel", "vel-"])
    if how == "on<0":
        n["on"] = -rng.randint(1, 64) / G
    elif how == "off<on":
        n["on"] = n["off"] + rng.randint(1, 64) / G
    elif how == "pitch":
        n["p"] = rng.randint(128, 200)
    elif how == "pitch-":
        n["p"] = -rng.randint(1, 20)
    elif how == "vel":
        n["v"] = rng.randint(128, 300)
    else:
        n["v"] = -rng.randint(1, 20)
    d["k"] = "bad"
    return d


def gen_tracks(rng):
    nparts = rng.choice([1, 2, 2, 3, 4, 5])
    parts = []
    for i in range(nparts):
        tr = lambda: rng.choice([0, 0, 1, 2, 3, -1, 7])
        otr = lambda: rng.choice([None, None, 0, 1, 2, -1, 5])
        parts.append({"notes": [tr() for _ in range(rng.choice([0, 1, 2, 3, 5, 8]))],
                      "controls": [otr() for _ in range(rng.choice([0, 0, 1, 2, 4]))],
                      "programs": [otr() for _ in range(rng.choice([0, 0, 1, 2]))]})
    return {"k": "tracks", "parts": parts}


def cases(rng, tier):
    n = {"quick": 400, "thorough": 20000, "search": 6000}.get(tier, 400)
    ptier = "quick" if tier == "search" else tier
    for i in range(n):
        r = i % 20
        if r == 17:
            yield gen_bad(rng)
        elif r in (18, 19):
            yield gen_tracks(rng)
        elif r == 16:
            yield gen_part(rng, "quick", big=True)
        else:
            # thorough: every case whose index is even walks all 128 thresholds, the others a sample
            yield gen_part(rng, ptier if (i % 2 == 0) else "quick")


# ---------------------------------------------------------------------------------- reference (oracle)
def F(x):
    return W.as_fraction(x)


def ref_tick(t, mpq, ppq):
    """round half to even of 10^6 * ppq * t / mpq on exact rationals (Python's round(Fraction))"""
    return round(Fraction(10**6 * ppq) * F(t) / mpq)


def reference(notes, controls, thr):
    """direct pedal simulation: per note ("eq", end) or ("ge", release)"""
    ped = [(F(c["t"]), c["v"]) for c in controls if c["n"] == 64]
    ped = [pv for _, pv in sorted(enumerate(ped), key=lambda e: (e[1][0], e[0]))]  # time order, ties in stream order
    out = []
    for i, n in enumerate(notes):
        rel = F(n["off"])
        down = False
        for t, v in ped:  # walk the stream up to (excluding) the release
            if t < rel:
                down = v > thr
        if not ped or thr >= 127 or not down:
            out.append(("eq", rel))
            continue
        moments = [t for t, v in ped if t >= rel and v <= thr]
        moments += [F(m["on"]) for j, m in enumerate(notes) if j != i and m["p"] == n["p"] and F(m["on"]) >= rel]
        out.append(("eq", min(moments)) if moments else ("ge", rel))
    return out


# ---------------------------------------------------------------------------------- implementation side
def _note_dicts(notes, mpq, ppq):
    from partitura.utils.music import seconds_to_midi_ticks

    out = []
    for i, n in enumerate(notes):
        d = dict(id="n%d" % i, midi_pitch=n["p"], note_on=n["on"], note_off=n["off"], velocity=n["v"],
                 track=n["tr"], channel=n["ch"])
        if n.get("ot"):
            d["note_on_tick"] = ref_tick(n["on"], mpq, ppq) + 3  # a given tick is used as it is
        if n.get("so") is not None:
            # a note dict copied from an earlier (pedalled) part carries a stale sounding end: building a part
            # recomputes every note, so the result must not depend on it
            d["sound_off"] = n["off"] + n["so"]
        out.append(d)
    return out


def _control_dicts(controls):
    out = []
    for c in controls:
        d = dict(type="sustain_pedal" if c["n"] == 64 else "cc", number=c["n"], time=c["t"], value=c["v"], channel=1)
        if c["tr"] is not None:
            d["track"] = c["tr"]
        out.append(d)
    return out


def _req_notes(notes, mpq, ppq):
    toks = [str(len(notes))]
    for n in notes:
        toks += [W.i(n["p"]), W.q(n["on"]), W.q(n["off"]), W.i(n["v"]), W.i(n["tr"]), W.i(n["ch"]),
                 W.opt(W.i, ref_tick(n["on"], mpq, ppq) + 3 if n.get("ot") else None)]
    return " ".join(toks)


def _req_controls(controls):
    toks = [str(len(controls))]
    for c in controls:
        toks += [W.i(c["n"]), W.q(c["t"]), W.i(c["v"]), W.opt(W.i, c["tr"])]
    return " ".join(toks)


def _sounds(pp):
    return [F(n["sound_off"]) for n in pp.notes]


def _fmt_q(xs):
    return W.f_list(W.f_rat, xs)


def eval_part(d):
    import partitura.performance as P

    notes, controls, thrs, mpq, ppq = d["notes"], d["controls"], d["thrs"], d["mpq"], d["ppq"]
    ev = Eval()
    rn, rc = _req_notes(notes, mpq, ppq), _req_controls(controls)
    wellformed = d["k"] == "part"
    thr0 = thrs[0]

    def build(thr):
        return P.PerformedPart(_note_dicts(notes, mpq, ppq), id="P0", controls=_control_dicts(controls),
                               sustain_pedal_threshold=thr, ppq=ppq, mpq=mpq)

    # ---- construction
    ev.requests.append("so %d %s %s" % (thr0, rn, rc))
    try:
        pp = build(thr0)
    except Exception as e:
        ev.impl.append("err")
        if wellformed:
            ev.oracle.append("total: building the part raised %s: %s (thr=%d)" % (type(e).__name__, e, thr0))
        else:
            ev.key = None
        return ev
    ev.impl.append(_fmt_q(_sounds(pp)))
    if not wellformed:
        ev.oracle.append("validation: a note with onset<0, release<onset, pitch or velocity outside 0..127 was accepted")
        return ev

    def judge(snd, thr, what):
        ref = reference(notes, controls, thr)
        for i, (s, (kind, val)) in enumerate(zip(snd, ref)):
            rel = F(notes[i]["off"])
            if s < rel:
                ev.oracle.append("ge_release: %s thr=%d note %d sounds until %s < release %s" % (what, thr, i, s, rel))
            elif kind == "eq" and s != val:
                ev.oracle.append("pedal: %s thr=%d note %d sounds until %s, the pedal dictates %s (release %s)" % (
                    what, thr, i, s, val, rel))

    # ---- threshold sequence on the same object
    seq = thrs[1:]
    ev.requests.append("rethr %d %s %s %s" % (thr0, W.lst(W.i, seq), rn, rc))
    by_thr = {thr0: _sounds(pp)}
    judge(by_thr[thr0], thr0, "construction")
    hist = []
    try:
        for t in seq:
            pp.sustain_pedal_threshold = t
            s = _sounds(pp)
            hist.append(s)
            judge(s, t, "assignment")
            if t in by_thr and by_thr[t] != s:
                ev.oracle.append("recompute: thr=%d gives %s now and gave %s earlier" % (t, s, by_thr[t]))
            by_thr[t] = s
        ev.impl.append(W.f_list(_fmt_q, hist))
    except Exception as e:
        ev.impl.append("err")
        ev.oracle.append("total: assigning the threshold raised %s: %s" % (type(e).__name__, e))
        return ev
    # setting = recomputing: a fresh part with the last threshold agrees with the re-thresholded one
    if seq:
        try:
            fresh = _sounds(build(seq[-1]))
            if fresh != hist[-1]:
                ev.oracle.append("recompute: after the sequence %s the notes sound until %s, a fresh part gives %s" % (
                    seq[-3:], hist[-1], fresh))
        except Exception as e:
            ev.oracle.append("total: building the part raised %s: %s (thr=%d)" % (type(e).__name__, e, seq[-1]))
    # raising the threshold never lengthens a note
    ts = sorted(by_thr)
    for a, b in zip(ts, ts[1:]):
        for i, (x, y) in enumerate(zip(by_thr[a], by_thr[b])):
            if y > x:
                ev.oracle.append("antitone: note %d sounds until %s at thr=%d but %s at thr=%d" % (i, x, a, y, b))

    # ---- note array and its inverse (threshold thr0)
    try:
        pp0 = build(thr0)
        na = pp0.note_array()
        rows = [(F(r["onset_sec"]), F(r["duration_sec"]), int(r["onset_tick"]), int(r["duration_tick"]),
                 int(r["pitch"]), int(r["velocity"]), int(r["track"]), int(r["channel"])) for r in na]
        ev.requests.append("rows %d %d %d %s %s" % (thr0, mpq, ppq, rn, rc))
        ev.impl.append(W.f_list(lambda r: W.f_tuple(W.f_rat(r[0]), W.f_rat(r[1]), *[W.f_int(x) for x in r[2:]]), rows))
        snd = _sounds(pp0)
        if len(rows) != len(notes):
            ev.oracle.append("rows: %d rows for %d notes" % (len(rows), len(notes)))
        for i, (r, n) in enumerate(zip(rows, notes)):
            on, off = F(n["on"]), F(n["off"])
            if r[0] != on:
                ev.oracle.append("rows: note %d onset_sec %s != %s" % (i, r[0], on))
            if not n.get("ot") and r[2] != ref_tick(on, mpq, ppq):
                ev.oracle.append("rows: note %d onset_tick %d != ticks(onset_sec) %d" % (i, r[2], ref_tick(on, mpq, ppq)))
            if r[1] != snd[i] - on:
                ev.oracle.append("rows: note %d duration_sec %s != sounding end - onset %s" % (i, r[1], snd[i] - on))
            if snd[i] == off and r[3] != ref_tick(r[0] + r[1], mpq, ppq) - r[2]:
                ev.oracle.append("rows: note %d (no pedal extension) duration_tick %d != %d" % (
                    i, r[3], ref_tick(r[0] + r[1], mpq, ppq) - r[2]))
            if (r[4], r[5]) != (n["p"], n["v"]):
                ev.oracle.append("rows: note %d pitch/velocity %s" % (i, r[4:6]))
        ev.requests.append("fna %d %d %d %s %s" % (thr0, mpq, ppq, rn, rc))
        try:
            back = P.PerformedPart.from_note_array(na)
            brows = [(int(b["midi_pitch"]), int(b["velocity"]), F(b["note_on"]), F(b["note_off"]), F(b["sound_off"]),
                      int(b["track"]), int(b["channel"])) for b in back.notes]
            ev.impl.append(W.f_list(lambda b: W.f_tuple(W.f_int(b[0]), W.f_int(b[1]), W.f_rat(b[2]), W.f_rat(b[3]),
                                                        W.f_rat(b[4]), W.f_int(b[5]), W.f_int(b[6])), brows))
            want = [(n["p"], n["v"], F(n["on"]), s) for n, s in zip(notes, snd)]
            got = [(b[0], b[1], b[2], b[4]) for b in brows]
            if want != got:
                ev.oracle.append("from_note_array: rebuilt (pitch, velocity, onset, sounding end) %s != %s" % (got[:4], want[:4]))
        except Exception as e:
            ev.impl.append("err")
            ev.oracle.append("from_note_array: rebuilding the part from its own note array raised %s: %s" % (type(e).__name__, e))
    except Exception as e:
        ev.oracle.append("total: note_array raised %s: %s" % (type(e).__name__, e))

    ref0 = reference(notes, controls, thr0)
    nped = sum(1 for c in controls if c["n"] == 64)
    ev.info = {
        "notes": len(notes), "pedal_events": nped,
        "extended": sum(1 for s, n in zip(by_thr[thr0], notes) if s > F(n["off"])),
        "restruck": sum(1 for (k, v), n, i in zip(ref0, notes, range(len(notes)))
                        if k == "eq" and v > F(n["off"]) and any(
                            j != i and m["p"] == n["p"] and F(m["on"]) == v for j, m in enumerate(notes))),
        "sentinel": sum(1 for k, _ in ref0 if k == "ge"),
        "ties": len([1 for c in controls if c["n"] == 64]) - len(set(c["t"] for c in controls if c["n"] == 64)),
        "thresholds": len(set(thrs)),
    }
    if notes and nped:
        ev.key = "%s|%s|%s|%d|%d" % (rn, rc, thrs, mpq, ppq)
    return ev


def eval_tracks(d):
    import partitura.performance as P

    ev = Eval()
    parts = d["parts"]
    pps = []
    for pi, p in enumerate(parts):
        notes = [dict(id="p%dn%d" % (pi, i), midi_pitch=60, note_on=float(i), note_off=float(i) + 0.5, velocity=64,
                      track=t, channel=1) for i, t in enumerate(p["notes"])]
        controls = []
        for t in p["controls"]:
            c = dict(type="sustain_pedal", number=64, time=0.0, value=0, channel=1)
            if t is not None:
                c["track"] = t
            controls.append(c)
        programs = []
        for t in p["programs"]:
            c = dict(time=0.0, program=1, channel=1)
            if t is not None:
                c["track"] = t
            programs.append(c)
        pps.append(P.PerformedPart(notes, id="P%d" % pi, controls=controls, programs=programs))
    toks = [str(len(parts))]
    for p in parts:
        toks += [W.lst(W.i, p["notes"]), W.lst(lambda x: W.opt(W.i, x), p["controls"]),
                 W.lst(lambda x: W.opt(W.i, x), p["programs"])]
    ev.requests.append("tracks " + " ".join(toks))
    # the keys in the order the code lists them
    def old(t):
        return -1 if t is None else t

    keys = [(i, t) for i, p in enumerate(parts) for t in p["notes"]]
    keys += [(i, old(t)) for i, p in enumerate(parts) for t in p["controls"]]
    keys += [(i, old(t)) for i, p in enumerate(parts) for t in p["programs"]]
    try:
        perf = P.Performance(pps, ensure_unique_tracks=False)
        n_before = perf.num_tracks
        part_n = [pp.num_tracks for pp in pps]
        perf.sanitize_track_numbers()
        new = [[int(n["track"]) for n in pp.notes] for pp in pps]
        newc = [[int(c["track"]) for c in pp.controls] for pp in pps]
        newp = [[int(c["track"]) for c in pp.programs] for pp in pps]
        n_after = perf.num_tracks
    except Exception as e:
        ev.impl.append("err")
        ev.oracle.append("tracks: renumbering raised %s: %s" % (type(e).__name__, e))
        return ev
    flat_new = [t for l in new for t in l] + [t for l in newc for t in l] + [t for l in newp for t in l]
    # oracle: injective on (part, track), constant on each (part, track)
    fwd, bwd = {}, {}
    for k, t in zip(keys, flat_new):
        if fwd.setdefault(k, t) != t:
            ev.oracle.append("tracks: (part, track) %s is sent to both %d and %d" % (k, fwd[k], t))
        if bwd.setdefault(t, k) != k:
            ev.oracle.append("tracks: new track %d is shared by %s and %s" % (t, bwd[t], k))
    if n_before != len(set(keys)) or n_after != len(set(keys)):
        ev.oracle.append("tracks: num_tracks %d / %d after renumbering, %d distinct (part, track) pairs" % (
            n_before, n_after, len(set(keys))))
    # canonical relabelling by first occurrence (the set's iteration order is not fixed by the property)
    canon = {}
    for t in flat_new:
        canon.setdefault(t, len(canon))
    contiguous = sorted(set(flat_new)) == list(range(len(set(flat_new))))
    fl = lambda l: W.f_list(W.f_int, [canon[t] for t in l])
    ev.impl.append(W.f_tuple(W.f_int(n_before if contiguous else -1), W.f_list(W.f_int, part_n),
                             W.f_list(lambda x: W.f_tuple(fl(x[0]), fl(x[1]), fl(x[2])), list(zip(new, newc, newp)))))
    ev.info = {"parts": len(parts), "keys": len(set(keys))}
    if len(set(keys)) >= 2:
        ev.key = ev.requests[0]
    return ev


def evaluate(d):
    if d["k"] == "tracks":
        return eval_tracks(d)
    return eval_part(d)


def finding_key(desc, failure):
    return "C14/" + failure.split(":")[0]


def shrink(d):
    if d["k"] == "tracks":
        for i in range(len(d["parts"])):
            yield dict(d, parts=d["parts"][:i] + d["parts"][i + 1:])
        for i, p in enumerate(d["parts"]):
            for f in ("notes", "controls", "programs"):
                for j in range(len(p[f])):
                    q = dict(p)
                    q[f] = p[f][:j] + p[f][j + 1:]
                    yield dict(d, parts=d["parts"][:i] + [q] + d["parts"][i + 1:])
        return
    if len(d["thrs"]) > 1:
        for i in range(len(d["thrs"])):
            yield dict(d, thrs=d["thrs"][:i] + d["thrs"][i + 1:])
        yield dict(d, thrs=d["thrs"][:1])
        yield dict(d, thrs=d["thrs"][-1:])
    for f in ("controls", "notes"):
        n = len(d[f])
        if n > 4:
            yield dict(d, **{f: d[f][: n // 2]})
            yield dict(d, **{f: d[f][n // 2:]})
        for i in range(n):
            yield dict(d, **{f: d[f][:i] + d[f][i + 1:]})
    for i, n in enumerate(d["notes"]):
        if n.get("ot"):
            yield dict(d, notes=d["notes"][:i] + [dict(n, ot=False)] + d["notes"][i + 1:])


def distribution(descs, results):
    from collections import Counter

    kinds = Counter(d["k"] for d in descs)
    tot = Counter()
    for r in results:
        for k, v in (r.get("info") or {}).items():
            tot[k] += v
    return {"kinds": dict(kinds), "totals": dict(tot),
            "cases_with_128_thresholds": sum(1 for d in descs if d["k"] == "part" and len(set(d["thrs"])) == 128)}
