"""C14 - performed notes sound until release or later, exactly as the pedal dictates.

Reading (chosen so that the minimally repaired code is right; DESIGN.md "### C14"):
  * notes are dictionaries as every loader and `from_note_array` build them (key `midi_pitch`, `note_on`,
    `note_off`, `velocity`, `track`, `channel`, `id`) or as `PerformedNote` documents them (key `pitch`; the
    class docstring lists "id, pitch, note_on, note_off, velocity, track, channel, sound_off", only `pitch`
    is accepted by `__setitem__` and tests/test_performance.py builds every note that way), given as plain
    dictionaries or as `PerformedNote` objects; missing `velocity`/`track`/`channel`/`id` take the documented
    defaults 60/0/1/None.  "The pitch" of a note is its `pitch` entry; a dictionary carrying both keys with
    different values is contradictory and outside the reading (the model mirrors what the code does with it).
    A note that carries `sound_off` < `note_off`, lacks `note_on`/`note_off`/both pitch keys, or carries
    inconsistent ticks is rejected by the documented validators (tests/test_performance.py demands it): the
    oracle makes no claim on such input, the model mirrors the rejection.  controls carry `number`, `time`, `value`.
  * "setting it recomputes every note": every note that is in `pp.notes` at the moment of the assignment, with
    the fields it has then (notes appended after construction, notes edited through `note[key] = v`); claims
    are made in states where every note still has 0 <= onset <= release.
  * `from_note_array` documents `pitch, onset_sec, duration_sec, velocity` as mandatory and ignores tick columns:
    an array without them is rejected (no claim); an array restricted to any superset of them rebuilds the same
    pitches, velocities, onsets and sounding ends; the rebuilt part has the default ppq/mpq (480/500000) and its
    own note array agrees with *those*.
  * `Performance.note_array()` holds, for every part, exactly the rows of that part's `note_array()` (ids
    prefixed when there are several parts, tracks as renumbered); the order of the rows is not part of the property.
  * the pedal events are the controls with number 64 in time order, simultaneous ones in stream order
    (fixes/C14-2: the sort must be stable).  The pedal state "at the moment" of a release is the state
    established by the last pedal event strictly before it (value > threshold = down); an event exactly
    at the release acts after it.
  * "the first later moment at which the pedal value is at or below the threshold" = the smallest pedal
    event time >= release whose value is <= threshold; "the same pitch is struck again" = the onset of a
    *different* note of the same pitch (any channel/track) at or after the release.
  * when the pedal is down at the release and neither moment exists the property only demands
    sound_off >= release (the code answers max(last pedal time, last release) + 1; the Lean model says so too).
  * "ticks agreeing with them whenever no pedal extends the note": when sound_off == note_off,
    duration_tick == ticks(onset_sec + duration_sec) - onset_tick.
  * times are dyadic (multiples of 1/64 below 64) so binary64 and float32 hold them exactly and every
    comparison below is rational equality.
  * (round 4) "any notes ... any control stream": the numbers of the dictionaries may be of any Python / numpy number
    type that holds the value exactly - Python int / float / bool, numpy signed and unsigned integers of every width,
    np.float32 / np.float64 (whole seconds as ints, data bytes as uint8, float32 scalars as `from_note_array` makes
    them).  The VALUES are what counts: every clause holds whatever the types, and a part gets the same sounding ends,
    rows and rebuilt part as the part with the same values as plain floats (wherever the property fixes them).
    Outside the reading: np.float16 and Fraction times (the unchanged tick conversion overflows / numpy refuses them),
    bool *times*, float32 times whose tick image lies within 1/8 of a rounding boundary (numpy evaluates
    1e6*ppq*t/mpq in float32 for a float32 t; `_tick_safe`), and *given ticks* (`note_on_tick`, `note_off_tick`) of
    unsigned or narrow numpy types: "a given tick is used as it is", in the arithmetic of its own type
    (`2880 - np.uint8(100)` raises, `1740 - np.uint16(1743)` wraps) - ticks are typed int / np.int32 / np.int64 / np.intp.
  * (round 5) "a performance's parts" = the `PerformedPart` objects handed to `Performance(...)`: one part, or any
    iterable of parts - the annotated argument type `Union[PerformedPart, Iterable[PerformedPart]]`, so also a tuple,
    a generator, `map`, `iter` (fixes/C14-6).  Their track numbers "are made unique" by `Performance(parts)` with its
    arguments left at their defaults (or `ensure_unique_tracks=True`) and by every later `sanitize_track_numbers()`:
    the new number is a function of (part, old track) over notes, controls and programs, injective; "without mixing
    parts" includes the key / time signatures and other meta events of a part: one that was on a track of its part's
    notes, controls or programs is renumbered with them (the code leaves the others alone: no claim).  `perf[i] = pp`
    and `performedparts.append(pp)` renumber nothing: claims are made after the next renumbering.
  * (round 5) "setting it recomputes every note": from the notes the part holds at that moment (after `del
    pp.notes[i]`, `pp.notes.insert(...)`, copies) AND the control stream as it is at that moment (after
    `pp.controls.append(c)`, `del pp.controls[i]`, `pp.controls[i]["value" | "time" | "number"] = v`, `pp.controls = [...]`).
    The keyword defaults (threshold, ppq, mpq, `adjust_offsets_w_sustain(threshold=...)`) are not fixed by the property:
    every clause is judged under whatever value is in force, and the model takes them from the regenerated tables.
    The reader side of `PerformedNote` (`note[key]`, `in`, `len`, `del`, `copy`) is compared with the model only.
  * (round 6) "all note lists ... unsorted order": the ORDER of `pp.notes` is no input of the property - the sounding end of
    a note is fixed by its release, the pedal stream and the onsets of the OTHER notes of its pitch.  So a part holding
    the same notes in another order (after `pp.notes.sort()`, `.sort(reverse=True)`, `.reverse()`, or built from a
    rearranged list) gives every note the same sounding end wherever the property fixes it (clause `order`), and a part
    rebuilt from the PERFORMANCE's note array (rows sorted by onset and pitch) has the same (pitch, velocity, onset,
    sounding end) table.  "agree under ppq and mpq" = the tick is the time rounded half to even to whole ticks (the
    reading clause `rows` always used), hence within half a tick of it, and `midi_ticks_to_seconds` of k is k ticks.
    The comparison protocol of `PerformedNote` (`<`, `<=`, `>`, `>=`, `==`, `hash`, `str`) is compared with the model only.
"""
import os
from fractions import Fraction

import wire as W
from core import Eval

PROPERTY = "C14"
DRIVER = "drv_c14"
PROPS = ["PartituraModel.Props.C14", "PartituraModel.Props.C14Dict", "PartituraModel.Props.C14Arrays",
         "PartituraModel.Props.C14Types", "PartituraModel.Props.C14Hist", "PartituraModel.Props.C14Box",
         "PartituraModel.Props.C14Tables", "PartituraModel.Props.C14Order", "PartituraModel.Props.C14Ticks"]
TRUSTED = [
    "numpy primitives through their documented contracts: argsort(kind='stable') returns a stable sort "
    "(Props.C14Arrays.stable_sort_unique: every list meeting the contract IS the model's sortBy), searchsorted(left) "
    "returns an index i with a[:i] < x <= a[i:] (searchsorted_unique: that index IS the model's searchsortedLeft; "
    "np_binsearch_correct: numpy's binary search meets the contract on sorted arrays); both are also sampled "
    "against numpy (case kinds ss / asort).  Still modelled without proof: np.diff(..) != 0 = adjacent states "
    "differ, np.where, fancy indexing, np.min/np.max/np.minimum, np.unique = the distinct pitches, np.hstack",
    "binary64/float32 arithmetic on the dyadic test grid is exact (times are multiples of 1/64 below 64); "
    "for other inputs note_array/from_note_array round to float32 - outside the compared domain",
    "binary64 evaluation of 1e6*ppq*t/mpq before np.round (model exact; same caveat as C12)",
    "the unstable default argsort by pitch inside note_array_from_part_list: the theorem (perf_rows_any_pitch_sort) "
    "is over every arrangement sorted by pitch; the comparison orders rows of equal (onset, pitch) by part and position",
    "Python dict semantics of PerformedNote (get with default, insertion order only decides which validator's message is seen)",
    "numpy's typed arrays (round 4, Model/PedalTypes.lean): np.array([...]) infers an integer dtype exactly when every "
    "element is integer-typed, a store into an integer array truncates toward zero, a float array keeps the value "
    "(sampled against numpy, case kind npst); np.vstack / np.minimum / comparisons promote and never lose a value; "
    "np.fromiter(dtype=float) gives a float array whatever the elements.  Not modelled: all-bool lists (bool array), "
    "uint64 mixed with signed integers (float64), float16",
    "harness/translate_c14.py (round 5): the constants of Gen/C14Tables.lean are obtained by CALLING the live functions on "
    "small probes (controller numbers 0..127, pitch / velocity -3..131, note_on / note_on_tick -3..3, track -4..4, 12 "
    "parts for the id prefix, a fixed key universe for `_accepted_keys`) and keyword defaults by inspect.signature: a "
    "dependence that only shows outside those probes is not seen by the translator (it is by the correspondence streams)",
    "Python list statements on `pp.notes` / `pp.controls` / `perf.performedparts` (del, insert, append, item assignment) "
    "and `isinstance(x, typing.Iterable)` are modelled as the list functions removeAt / insertAt / setAt and the three-way "
    "`PerfArg`; negative indices are not generated",
    "(round 6) Python's `list.sort()` is a stable sort that decides by `__lt__` alone, `sort(reverse=True)` = reverse, stable "
    "sort, reverse (CPython's documented behaviour), `list.reverse()`: modelled as `reorder` (Props.C14Order.sort_spec proves "
    "that EVERY stable ascending arrangement is the model's); compared on every reordering statement of the `ohist` stream",
    "(round 6) harness/translate_c14.py gen_c14_order: the key `<` compares, the key `hash` reads, the keys `==` does not see, "
    "the head of `str(note)`, the tick scale 10^6, round-half-to-even and the keyword defaults of the tick conversions are "
    "obtained by probing two notes that differ in ONE key out of id / pitch / note_on / note_off / sound_off / velocity / "
    "track / channel and six tie times: a dependence on several keys at once is seen by the `cmp` stream only",
    "(round 6) the `ticks` stream uses tempo / resolution pairs whose ticks-per-second is an integer or dyadic and dyadic "
    "times, so that binary64 evaluates 1e6*ppq*t/mpq exactly (exact ties); for other pairs the float evaluation is trusted as before",
]
PARTIAL = [
    "pedal down at the release with no later pedal-up event and no later re-strike: the property names no moment; "
    "the theorem gives the code's sentinel max(last pedal time, last release)+1 (pedal_down_never_released; the pads are "
    "regenerated and stated by closing_pads)",
    "a note dictionary with both `pitch` and `midi_pitch` and different values is outside the reading; what the code does "
    "with it is now stated exactly (both_pitch_keys: `pitch` is validated and kept, `midi_pitch` is kept unvalidated and is "
    "what the pedal adjustment and note_array read, the first accepted `note[\"pitch\"] = v` makes them equal); "
    "raw_build_refines keeps the hypothesis that the keys agree",
    "note[key] = v: exactly `note_on` may break onset <= release, exactly `note_off` may break release <= sounding end, exactly "
    "`note_on_tick` may break the tick order (setitem_keeps_* / setters_can_break); the sounding-end theorems hold after the "
    "next threshold assignment (xhistory_recompute), between assignments only under xhistory_sounds' hypothesis "
    "(no `note_off` assigned)",
    "Performance([]).note_array() raises (np.hstack of nothing): mirrored, no claim",
    "a key / time signature or other meta event on a track that none of its part's notes, controls and programs is on keeps "
    "its number (metas_follow): it may coincide with a new number of another part - mirrored, no claim",
    "`perf[i] = pp` and `performedparts.append(pp)` do not renumber (box_set_append): uniqueness is proved for the state after "
    "each renumbering (box_history_unique), not between",
    "the reader side of PerformedNote (`note[key]`, `in`, `len`, `del`, `copy`, reader_keys / copy_iff_valid) is modelled and "
    "compared; the property says nothing about it, so there is no oracle clause (a disagreement is reported without a failing input)",
    "(round 6) the comparison protocol of PerformedNote (`<`, `<=`, `>`, `>=`, `==`, `hash`, `str`; compare_by_onset, "
    "note_order_total_preorder, note_eq_iff, eq_same_hash) and WHICH arrangement `pp.notes.sort()` produces are modelled and "
    "compared; the property says nothing about them (its clauses hold for EVERY arrangement: sound_order_free), so there is no "
    "oracle clause for them",
    "(round 6) order-freeness is proved for the sounding ends (sound_order_free, sound_perm_pairs, reorder_commutes_assign, "
    "from_array_any_order); statements that address notes BY POSITION (`pp.notes[i][key] = v`, `del pp.notes[i]`) mean another "
    "note after a reordering - histories are proved as they run (yhistory_recompute), not up to reordering",
    "(round 6) rows_ticks_agree assumes no given `note_on_tick` (a given tick is used as it is) and positive ppq / mpq "
    "(mpq = 0 divides by zero: the model rejects, numpy answers inf / raises - not compared)",
]
RULE = ("random performed parts: 0-9 notes over 1-3 pitches with times from a small per-case pool of multiples of 1/64 "
        "(forcing overlapping/repeated/zero-length notes and exact coincidences of pedal events with releases and onsets, "
        "unsorted order, several channels) x 0-12 controls (pedal 64 with values around the thresholds, other controller "
        "numbers interleaved, simultaneous events, before/after all notes) x threshold sequences (quick: ~8 sampled incl. "
        "0,63,64,126,127; thorough: all 128 in random order) x ppq/mpq x column subsets for from_note_array; "
        "histories (kind hist): notes as documented dictionaries (pitch / midi_pitch / both / neither, missing optional "
        "keys, stale or too small sound_off, ticks) given as dicts or PerformedNote objects, then 3-12 statements: "
        "threshold assignments (repeated value, raised then lowered), note[key] = value over every accepted and two "
        "unaccepted keys with valid and invalid values, appended notes; performances of 0-4 such parts (kind perf); "
        "multi-part track renumbering cases; malformed notes; numpy contract samples (ss, asort, npst). Round 4, number "
        "types: 55% of the parts / histories and half of the performances carry typed numbers - the three time columns "
        "(onsets, releases, pedal times) each uniformly integer-typed (values on whole seconds, pedal changes and "
        "re-strikes between them), float-typed (float / np.float64 / np.float32) or mixed, one type for the column or "
        "one per element out of int, np.int8..64, np.uint8..64, np.intp, bool (0/1); pitches, velocities, tracks, "
        "channels, control numbers / values, thresholds and given ticks as numpy / Python ints (rarely a float holding "
        "the integer); statements note[key] = value and appended notes typed alike; track numbers of several types. "
        "Round 5: histories in which notes are also removed / inserted / copied and the control stream is edited in place "
        "(append, delete, number / time / value of one event, replacement) with a threshold assignment after most edits "
        "(kind xhist); one PerformedNote under assignments, reads, `in`, `len`, `del`, `copy` (kind note); parts built with "
        "the keyword defaults and adjust_offsets_w_sustain called directly (kind defaults); Performance(arg) for a list, "
        "tuple, generator, iter, map, single part, list with a foreign item, non-iterable, string, dict x ensure_unique_tracks "
        "given / left out x parts whose notes, controls, programs and key / time signatures / other meta events sit on "
        "shared, missing (-1) and unused tracks, then `perf[i] = pp`, append and renumberings (kind box). "
        "Round 6: histories that also sort / reverse-sort / reverse the note list, most reorderings followed (half of them "
        "preceded) by a threshold assignment (kind ohist; at each assignment the same notes reversed and sorted by release "
        "must sound the same); two PerformedNotes - independent, or one a copy of the other with at most one key changed - "
        "under < <= > >= == hash str (kind cmp); 3-10 dyadic times (whole ticks, exact ties of both parities, 2^-3..2^-12 "
        "beside a tie) x 10 tempo / resolution pairs through both tick conversions (kind ticks); parts with pairwise "
        "different (onset, pitch) rebuilt from Performance(pp | [pp]).note_array() restricted to a column subset (kind fnap). "
        "distinct = distinct "
        "request text; non-trivial = at least one note and one pedal event (part/hist cases), at least two (part, track) "
        "keys (track cases), at least two notes (perf), non-empty array (ss/asort)")
LEVEL_TEXT = ("Lean theorems over the executable model of PerformedNote (constructor defaults, validators, __setitem__), "
              "adjust_offsets_w_sustain, the threshold setter under arbitrary histories of assignments / edits / appended "
              "notes, note_array / from_note_array (column subsets) / Performance.note_array / sanitize_track_numbers, for "
              "all note lists, control streams, thresholds and histories (induction, no bounds); the model is tied to the "
              "code by exact differential comparison on generated inputs, and the property itself is re-checked on the "
              "implementation's outputs by an independent reference pedal simulation.  Round 4: the dtype of the "
              "sounding-end array is explicit in the model (PedalTypes.soundOffsD); kinds_irrelevant proves that with the "
              "code's dtype=float the number types of the dictionaries cannot change a sounding end, and every clause of "
              "the oracle is evaluated on typed parts and against the same values as plain floats.  Round 5: the "
              "constants of the source (controller number, comparison, pads, defaults of missing keys / columns / "
              "keywords, accepted keys, validator ranges, array columns, id prefix) are REGENERATED on every run "
              "(Gen/C14Tables.lean) - the model uses them, Props/C14Tables.lean states the ones the property fixes; "
              "every PerformedNote setter is classified by the invariant it re-establishes / keeps / may break; "
              "'setting it recomputes every note' is proved over histories that also remove, insert and copy notes "
              "and edit the control stream in place (xhistory_recompute); the Performance container is modelled with "
              "its argument dispatch and the meta events, renumbering is proved total, unique, num_tracks-preserving "
              "and idempotent (sanitize_box_spec, sanitize_box_idempotent) over every history of statements on it.  Round 6: "
              "the ORDER of the note list is proved irrelevant (sound_order_free: any permutation of the notes, any "
              "controls, any threshold - every note keeps its sounding end; reorder_commutes_assign: sort / reverse then "
              "assign = assign then sort / reverse), also for the part rebuilt from the Performance's sorted note array "
              "(rebuilt_from_performance_array) and over all histories that also reorder the list (yhistory_recompute); "
              "'seconds and ticks agree' is quantified for all times and all positive ppq / mpq (tick_within_half, "
              "tick_exact_on_grid, tick_mono, rows_ticks_agree: onset tick within half a tick, tick duration >= 0 and "
              "within one tick); the comparison protocol of PerformedNote and the tick scale are regenerated "
              "(Gen/C14Order.lean) and modelled (Model/PedalOrder.lean).")

G = 64  # time grid: multiples of 1/G

# ---------------------------------------------------------------------------------- number types (round 4)
# Every number of a note / control dictionary may come as a Python int / float / bool or as a numpy scalar (the MIDI
# loaders give Python numbers, `from_note_array` numpy float32 / int32 scalars, user code whole seconds as ints or
# data bytes as uint8).  A case description keeps the *values* as before (JSON floats / ints: the request text of the
# Lean model and the reference are computed from them alone) and names the type of every number separately (keys
# `ton toff tso tp tv ttr tch tot` of a note, `tt tv tn ttr` of a control, `_ty` of a documented note dictionary, a
# fifth element of a note[key] = value statement, `tth` for the thresholds).  `_num` builds the typed number; a type
# that cannot hold the value exactly (or, for float32, whose tick image could round differently) falls back to the
# plain Python number, so that every description - also a shrunk one - stays inside the compared domain.
INT_KINDS = ["int", "i64", "i32", "i16", "i8", "u8", "u16", "u32", "u64", "ip"]
FLOAT_KINDS = ["float", "f64", "f32"]
TICK_KINDS = ["int", "i64", "i32", "ip"]  # a given tick is used as it is, in the arithmetic of its own type (see the reading)
_RANGE = {"i8": (-2**7, 2**7 - 1), "i16": (-2**15, 2**15 - 1), "i32": (-2**31, 2**31 - 1), "i64": (-2**63, 2**63 - 1),
          "ip": (-2**63, 2**63 - 1), "u8": (0, 2**8 - 1), "u16": (0, 2**16 - 1), "u32": (0, 2**32 - 1), "u64": (0, 2**64 - 1),
          "bool": (0, 1), "npbool": (0, 1)}


def _np_types():
    import numpy as np

    return {"i8": np.int8, "i16": np.int16, "i32": np.int32, "i64": np.int64, "ip": np.intp, "u8": np.uint8,
            "u16": np.uint16, "u32": np.uint32, "u64": np.uint64, "f64": np.float64, "f32": np.float32,
            "npbool": np.bool_}


def _tick_safe(x, mpq, ppq):
    """float32 arithmetic of 1e6*ppq*t/mpq (numpy keeps a float32 operand's precision) stays on the same side of
    every rounding boundary: the exact value is an integer, or at least 1/8 away from k + 1/2 and below 2**17"""
    v = Fraction(10**6 * ppq) * F(x) / mpq
    if v.denominator == 1 and abs(v) < 2**22:
        return True
    return abs(v) < 2**17 and abs((v % 1) - Fraction(1, 2)) >= Fraction(1, 8)


def _num(x, kind, tick=None):
    """the number `x` of a description as a value of the named type"""
    if kind is None or x is None:
        return x
    if kind == "int":
        return int(x) if x == int(x) else x
    if kind == "float":
        return float(x)
    if kind == "bool":
        return bool(x) if x in (0, 1) else x
    if kind in _RANGE:
        lo, hi = _RANGE[kind]
        if x != int(x):
            return x
        if not (lo <= int(x) <= hi):
            return int(x)
        return _np_types()[kind](int(x))
    if kind == "f32":
        if tick is not None and not _tick_safe(x, *tick):
            return float(x)
        import numpy as np

        return np.float32(x) if float(np.float32(x)) == float(x) else float(x)
    if kind == "f64":
        return _np_types()["f64"](x)
    return x


def _int_kind(rng, x=None):
    ks = ["int", "int", "i64", "i64", "i32", "i16", "u8", "u16", "u32", "u64", "ip", "i8"]
    if x in (0, 1):
        ks += ["bool"]
    return rng.choice(ks)


def _group_kinds(rng, xs, group):
    """type names for the numbers `xs` of one field over the whole part: I = all integer-typed (the values must be
    integers), F = float types, M = integer-typed where the value is an integer (mostly), f = plain"""
    if group == "f":
        return [None] * len(xs)
    uni = rng.random() < 0.5
    ik, fk = _int_kind(rng), rng.choice(FLOAT_KINDS)
    out = []
    for x in xs:
        if group == "I" or (group == "M" and x == int(x) and rng.random() < 0.7):
            out.append(ik if uni else _int_kind(rng))
        else:
            out.append(fk if uni else rng.choice(FLOAT_KINDS))
    return out


def apply_types(rng, notes, controls):
    """round-4 generator dimension: give every number of the part a type.  The three time columns the sustain code
    turns into arrays (onsets, releases, pedal times) are typed per column, so that a column is uniformly integer
    typed (all-int releases with pedal changes and re-strikes between whole seconds, all-int pedal times with
    fractional releases, ...) as often as it is mixed."""
    import math

    g_off = rng.choice(["I", "I", "I", "M", "F", "f"])
    g_on = rng.choice(["I", "I", "M", "F", "f"])
    g_ct = rng.choice(["I", "I", "M", "F", "f", "f"])
    for n in notes:
        if g_on == "I":
            n["on"] = float(math.floor(n["on"]))
        if g_off == "I":
            n["off"] = float(math.ceil(n["off"]))
    for c in controls:
        if g_ct == "I" and c["n"] == 64:
            c["t"] = float(round(c["t"]))
        elif g_ct != "I" and (g_off == "I" or g_on == "I") and c["t"] == int(c["t"]) and rng.random() < 0.6:
            c["t"] += rng.randint(1, G - 1) / G  # pedal changes between the whole seconds of the integer-typed columns
    for key, tkey, grp in (("on", "ton", g_on), ("off", "toff", g_off)):
        for n, k in zip(notes, _group_kinds(rng, [n[key] for n in notes], grp)):
            if k is not None:
                n[tkey] = k
    ped = [c for c in controls if c["n"] == 64]
    for c, k in zip(ped, _group_kinds(rng, [c["t"] for c in ped], g_ct)):
        if k is not None:
            c["tt"] = k
    for c in controls:
        if c["n"] != 64 and rng.random() < 0.5:
            c["tt"] = rng.choice(FLOAT_KINDS + (INT_KINDS if c["t"] == int(c["t"]) else []))
    # the integer-valued fields: any integer type (data bytes as uint8 / int8, numpy ints, bool for 0 and 1) and,
    # rarely, a float holding the integer
    def ik(x):
        return rng.choice(["float", "f64", "f32"]) if rng.random() < 0.06 else _int_kind(rng, x)

    p_int = rng.choice([0.3, 0.9])
    for n in notes:
        for key, tkey in (("p", "tp"), ("v", "tv"), ("tr", "ttr"), ("ch", "tch")):
            if rng.random() < p_int:
                n[tkey] = ik(n[key])
        if n.get("ot") and rng.random() < 0.5:
            n["tot"] = rng.choice(TICK_KINDS)
        if n.get("so") is not None and rng.random() < 0.7:
            n["tso"] = rng.choice(FLOAT_KINDS + (INT_KINDS if n["so"] == int(n["so"]) and n["off"] == int(n["off"]) else []))
    for c in controls:
        if rng.random() < p_int:
            c["tv"] = ik(c["v"])
        if rng.random() < p_int:
            c["tn"] = _int_kind(rng)
        if c["tr"] is not None and rng.random() < p_int:
            c["ttr"] = _int_kind(rng, c["tr"])
    return g_on + g_off + g_ct


def _typed(d):
    """has the description any typed number"""
    if isinstance(d, dict):
        return any(k in ("ton", "toff", "tso", "tp", "tv", "ttr", "tch", "tot", "tt", "tn", "_ty", "tth") and v
                   or _typed(v) for k, v in d.items())
    if isinstance(d, list):
        return (len(d) == 5 and d[0] == "S" and d[4] is not None) or any(_typed(x) for x in d)
    return False


def _untyped(d):
    """the same values as plain Python numbers"""
    if isinstance(d, dict):
        return {k: _untyped(v) for k, v in d.items()
                if k not in ("ton", "toff", "tso", "tp", "tv", "ttr", "tch", "tot", "tt", "tn", "_ty", "tth")}
    if isinstance(d, list):
        if len(d) == 5 and d[0] == "S":
            return d[:4]
        return [_untyped(x) for x in d]
    return d


# ---------------------------------------------------------------------------------- generator
def _time(rng, pool):
    if pool and rng.random() < 0.8:
        return rng.choice(pool)
    return rng.randint(0, 16 * G) / G


def gen_part(rng, tier, big=False):
    npool = rng.randint(2, 8)
    pool = [rng.randint(0, 12 * G) / G if rng.random() < 0.5 else float(rng.randint(0, 12)) for _ in range(npool)]
    npitch = rng.choice([1, 1, 2, 3])
    pitches = [rng.randint(0, 127) for _ in range(npitch)]
    nn = rng.choice([0, 1, 2, 3, 4, 5, 6, 9]) if not big else rng.randint(10, 40)
    notes = []
    for i in range(nn):
        a, b = _time(rng, pool), _time(rng, pool)
        if rng.random() < 0.15:
            b = a
        on, off = min(a, b), max(a, b)
        notes.append({"p": rng.choice(pitches), "on": on, "off": off, "v": rng.randint(0, 127),
                      "tr": rng.choice([0, 0, 1, 2]), "ch": rng.choice([0, 1, 1, 2, 9]),
                      "ot": rng.random() < 0.1})
    if rng.random() < 0.25:
        for n in notes:
            if rng.random() < 0.6:
                n["so"] = rng.choice([0.0, 0.5, 2.0])  # stale sound_off = release + so
    nc = rng.choice([0, 0, 1, 2, 3, 4, 6, 8, 12]) if not big else rng.randint(10, 60)
    vals = [0, 1, 63, 64, 65, 126, 127] + [rng.randint(0, 127) for _ in range(3)]
    controls = []
    for i in range(nc):
        r = rng.random()
        if r < 0.1:
            t = -rng.randint(0, 4 * G) / G  # before everything (MIDI times are >= 0, the function accepts any)
        elif r < 0.2:
            t = 16.0 + rng.randint(0, 8 * G) / G  # after everything
        else:
            t = _time(rng, pool)
        num = 64 if rng.random() < 0.8 else rng.choice([1, 7, 11, 66, 67, 0, 127])
        controls.append({"t": t, "n": num, "v": rng.choice(vals), "tr": rng.choice([None, 0, 0, 1])})
    if rng.random() < 0.3:
        controls.sort(key=lambda c: c["t"])  # a time-ordered stream, as a MIDI file gives it
    # round 4: the number types of the dictionaries (half of the parts keep plain Python floats / ints)
    prof = apply_types(rng, notes, controls) if rng.random() < 0.55 else None
    cvals = sorted(set(c["v"] for c in controls if c["n"] == 64))
    if tier == "quick":
        base = [0, 63, 64, 126, 127]
        near = [max(0, min(127, v + d)) for v in cvals for d in (-1, 0)]
        thrs = [rng.choice(base + near) for _ in range(5)] + [rng.choice(base) for _ in range(2)] + [rng.randint(0, 127)]
        rng.shuffle(thrs)
    else:
        thrs = list(range(128))
        rng.shuffle(thrs)
    ppq = rng.choice([480, 480, 960, 96, 1, 24, rng.randint(1, 2000)])
    mpq = rng.choice([500000, 500000, 857142, 250001, 1000000, rng.randint(100000, 3000000)])
    # columns of the array handed to from_note_array: [onset_sec+duration_sec, velocity, id, track, channel]
    r = rng.random()
    ff = [True, True, True, True, True] if r < 0.3 else [rng.random() < 0.85, rng.random() < 0.9, rng.random() < 0.5,
                                                          rng.random() < 0.5, rng.random() < 0.5]
    d = {"k": "part", "notes": notes, "controls": controls, "thrs": thrs, "ppq": ppq, "mpq": mpq,
         "ff": ff, "sid": rng.random() < 0.15}
    if prof is not None:
        d["prof"] = prof
        if rng.random() < 0.5:
            d["tth"] = [_int_kind(rng) for _ in range(rng.randint(1, 3))]  # the thresholds' types, cyclically
    return d


# ---- histories over note dictionaries as PerformedNote documents them
KEYS = ["id", "pitch", "midi_pitch", "note_on", "note_off", "sound_off", "velocity", "track", "channel",
        "note_on_tick", "note_off_tick"]
INT_KEYS = ("pitch", "midi_pitch", "velocity", "track", "channel", "note_on_tick", "note_off_tick")


def raw_profile(rng):
    """round 4: how the numbers of the documented note dictionaries of one part are typed (see `apply_types`)"""
    return {"on": rng.choice(["I", "I", "M", "F", "f"]), "off": rng.choice(["I", "I", "I", "M", "F", "f"]),
            "uni": rng.random() < 0.5, "ik": _int_kind(rng), "fk": rng.choice(FLOAT_KINDS), "p_int": rng.choice([0.3, 0.9])}


def type_raw(rng, d, prof):
    import math

    ty = {}

    def kind(g, x):
        if g == "f":
            return None
        if g == "I" or (g == "M" and x == int(x) and rng.random() < 0.7):
            return prof["ik"] if prof["uni"] else _int_kind(rng)
        return prof["fk"] if prof["uni"] else rng.choice(FLOAT_KINDS)

    if "note_on" in d and prof["on"] == "I":
        d["note_on"] = float(math.floor(d["note_on"]))
    if "note_off" in d and prof["off"] == "I":
        new = float(math.ceil(d["note_off"]))
        if "sound_off" in d:
            d["sound_off"] += new - d["note_off"]
        d["note_off"] = new
    for key, g in (("note_on", prof["on"]), ("note_off", prof["off"]), ("sound_off", rng.choice(["M", "F", "f"]))):
        if key in d:
            k = kind(g, d[key])
            if k is not None:
                ty[key] = k
    for key in INT_KEYS:
        if key in d and rng.random() < prof["p_int"]:
            ty[key] = rng.choice(TICK_KINDS) if key.endswith("_tick") else (
                rng.choice(FLOAT_KINDS) if rng.random() < 0.06 else _int_kind(rng, d[key]))
    if ty:
        d["_ty"] = ty
    return d


def gen_raw(rng, pool, pitches, i, style=None, prof=None):
    d = _gen_raw(rng, pool, pitches, i, style)
    return type_raw(rng, d, prof) if prof else d


def _gen_raw(rng, pool, pitches, i, style=None):
    a, b = _time(rng, pool), _time(rng, pool)
    if rng.random() < 0.15:
        b = a
    on, off = min(a, b), max(a, b)
    p = rng.choice(pitches)
    d = {"id": "n%d" % i}
    st = style or rng.choice(["midi"] * 5 + ["pitch"] * 4 + ["both"])
    r = rng.random()
    if r < 0.02:
        st = "none"
    elif r < 0.04:
        st = "differ"
    if st in ("midi", "both", "differ"):
        d["midi_pitch"] = p
    if st in ("pitch", "both"):
        d["pitch"] = p
    if st == "differ":
        d["pitch"] = rng.choice([p + 1, 300, -2, rng.choice(pitches)])
    d["note_on"], d["note_off"] = on, off
    if rng.random() < 0.7:
        d["velocity"] = rng.randint(0, 127)
    if rng.random() < 0.6:
        d["track"] = rng.choice([0, 0, 1, 2])
    if rng.random() < 0.6:
        d["channel"] = rng.choice([0, 1, 1, 2, 9])
    if rng.random() < 0.2:
        d["sound_off"] = off + rng.choice([0.0, 0.5, 2.0, 2.0, -0.25])
    if rng.random() < 0.15:
        d["note_on_tick"] = rng.choice([0, 3, 100, 100, -1])
        if rng.random() < 0.6:
            d["note_off_tick"] = rng.choice([0, 50, 100, 200, -5])
    elif rng.random() < 0.05:
        d["note_off_tick"] = rng.choice([-3, 7])
    r = rng.random()
    if r < 0.03:
        del d[rng.choice(["note_on", "note_off", "id"])]
    elif r < 0.05:
        d["velocity"] = rng.choice([128, -1])
    elif r < 0.07:
        d["note_on"] = d["note_off"] + 0.5
    return d


def gen_setop(rng, pool, pitches, nnotes):
    i = rng.randrange(nnotes) if nnotes and rng.random() < 0.97 else nnotes + rng.randint(0, 2)
    k = rng.choice(["pitch"] * 5 + ["note_on", "note_off", "note_off", "sound_off", "velocity", "track", "channel",
                                    "note_on_tick", "note_off_tick", "midi_pitch", "foo", "id"])
    if k in ("pitch", "midi_pitch"):
        v = rng.choice(pitches + pitches + [rng.randint(0, 127), 128, -1])
    elif k == "note_on":
        v = rng.choice([0.0, min(pool), min(pool), _time(rng, pool), -0.5])
    elif k == "note_off":
        v = rng.choice([max(pool), max(pool) + 1.0, _time(rng, pool), _time(rng, pool), -1.0])
    elif k == "sound_off":
        v = rng.choice([max(pool) + 2.0, _time(rng, pool), 0.0, -1.0])
    elif k == "velocity":
        v = rng.choice([0, 127, 128, -1, rng.randint(0, 127)])
    elif k in ("track", "channel"):
        v = rng.choice([0, 1, 5, -1, 300])
    elif k == "note_on_tick":
        v = rng.choice([0, 10, 100, -1])
    elif k == "note_off_tick":
        v = rng.choice([0, 50, 100, 500, -1])
    elif k == "id":
        v = "x%d" % rng.randint(0, 3)
    else:
        v = rng.choice([0, 300])
    return ["S", i, k, v]


def gen_hist(rng, tier):
    base = gen_part(rng, "quick")
    pool = sorted(set([n["on"] for n in base["notes"]] + [n["off"] for n in base["notes"]] + [0.0, 1.0]))
    pitches = sorted(set(n["p"] for n in base["notes"])) or [60]
    if rng.random() < 0.5:
        pitches = pitches[:2]
    nn = rng.choice([0, 1, 2, 2, 3, 4, 5])
    style = rng.choice([None, None, "pitch", "midi"])
    prof = raw_profile(rng) if rng.random() < 0.55 else None
    notes = [gen_raw(rng, pool, pitches, i, style, prof) for i in range(nn)]
    controls = base["controls"]
    cvals = sorted(set(c["v"] for c in controls if c["n"] == 64))
    tb = [0, 63, 64, 126, 127] + [max(0, min(127, v + d)) for v in cvals for d in (-1, 0)]
    ops = []
    cnt = nn
    last = None
    for j in range(rng.randint(3, 12)):
        r = rng.random()
        if r < 0.4:
            if last is not None and rng.random() < 0.25:
                t = last  # the same value again
            elif last is not None and rng.random() < 0.3:
                t = rng.choice([min(127, last + rng.randint(1, 40)), max(0, last - rng.randint(1, 40))])
            else:
                t = rng.choice(tb)
            ops.append(["T", t])
            last = t
        elif r < 0.8:
            o = gen_setop(rng, pool, pitches, cnt)
            if prof and not isinstance(o[3], str):
                import math

                g = prof["on"] if o[2] == "note_on" else prof["off"] if o[2] == "note_off" else "M"
                if g == "I":  # the column stays integer-typed
                    o[3] = float(math.floor(o[3]) if o[2] == "note_on" else math.ceil(o[3]))
                if o[2].endswith("_tick"):
                    o.append(rng.choice(TICK_KINDS))
                elif g == "I" or (g == "M" and o[3] == int(o[3]) and rng.random() < 0.7):
                    o.append(prof["ik"] if prof["uni"] else _int_kind(rng, o[3]))
                elif g != "f" and o[2] in ("note_on", "note_off", "sound_off"):
                    o.append(prof["fk"] if prof["uni"] else rng.choice(FLOAT_KINDS))
            ops.append(o)
        else:
            ops.append(["A", gen_raw(rng, pool, pitches, cnt, style, prof)])
            cnt += 1  # (an upper bound when the note is rejected)
    if rng.random() < 0.7:
        ops.append(["T", rng.choice(tb)])
    d = {"k": "hist", "notes": notes, "controls": controls, "thr": rng.choice(tb), "ops": ops,
         "ppq": base["ppq"], "mpq": base["mpq"], "obj": rng.random() < 0.4}
    if prof and rng.random() < 0.5:
        d["tth"] = [_int_kind(rng) for _ in range(rng.randint(1, 3))]
    return d


def gen_perf(rng):
    nparts = rng.choice([0, 1, 1, 2, 2, 3, 4])
    parts = []
    for i in range(nparts):
        h = gen_hist(rng, "quick")
        notes = []
        prof = raw_profile(rng) if rng.random() < 0.5 else None
        for j in range(rng.choice([0, 1, 2, 3, 5])):
            d = gen_raw(rng, [0.0, 0.5, 1.0, 1.5, 2.0, 3.0], [60, 60, 61, 72], j, rng.choice(["midi", "pitch"]), prof)
            d["id"] = "n%d" % j  # the id tells the position (rows of equal onset and pitch are ordered by it)
            notes.append(d)
        parts.append({"notes": notes, "controls": h["controls"][:4], "thr": h["thr"], "ppq": h["ppq"], "mpq": h["mpq"],
                      "programs": [rng.choice([None, 0, 1, 5]) for _ in range(rng.choice([0, 0, 1, 2]))]})
    return {"k": "perf", "parts": parts, "uid": rng.random() < 0.75}


NPST_KINDS = ["int", "i64", "i32", "i16", "i8", "u8", "u16", "u32", "ip", "float", "f64", "f32"]


def gen_npstore(rng):
    """numpy contract sample (round 4): the dtype `np.array([...])` infers and what `a[0] = x` leaves in the array"""
    n = rng.choice([1, 1, 2, 3, 5])
    allint = rng.random() < 0.6
    ks = [rng.choice(NPST_KINDS[:9] if allint or rng.random() < 0.6 else NPST_KINDS[9:]) for _ in range(n)]
    signed = any(k in ("int", "i64", "i32", "i16", "i8", "ip", "float", "f64", "f32") for k in ks)
    x = rng.randint(-8 * G if signed else 0, 8 * G) / G
    return {"k": "npst", "a": [[float(rng.randint(0, 12)), k] for k in ks], "x": x}


def gen_np(rng):
    if rng.random() < 0.4:
        return gen_npstore(rng)
    n = rng.choice([0, 1, 2, 3, 5, 8, 13, 40])
    vals = [rng.randint(0, 6) / 2 for _ in range(n)] if rng.random() < 0.7 else [rng.randint(-64, 64) / G for _ in range(n)]
    if rng.random() < 0.5:
        return {"k": "ss", "a": sorted(vals), "x": rng.choice(vals + [rng.randint(-2, 8) / 2])}
    return {"k": "asort", "a": vals}


def gen_bad(rng):
    d = gen_part(rng, "quick")
    d["thrs"] = d["thrs"][:2]
    if not d["notes"]:
        d["notes"].append({"p": 60, "on": 0.0, "off": 1.0, "v": 64, "tr": 0, "ch": 1, "ot": False})
    n = rng.choice(d["notes"])
    how = rng.choice(["on<0", "off<on", "pitch", "pitch-", "vel", "vel-"])
    if how == "on<0":
        n["on"] = -rng.randint(1, 64) / G
    elif how == "off<on":
        n["on"] = n["off"] + rng.randint(1, 64) / G
    elif how == "pitch":
        n["p"] = rng.randint(128, 200)
    elif how == "pitch-":
        n["p"] = -rng.randint(1, 20)
    elif how == "vel":
        n["v"] = rng.randint(128, 300)
    else:
        n["v"] = -rng.randint(1, 20)
    d["k"] = "bad"
    return d


def gen_tracks(rng):
    nparts = rng.choice([1, 2, 2, 3, 4, 5])
    parts = []
    for i in range(nparts):
        tr = lambda: rng.choice([0, 0, 1, 2, 3, -1, 7])
        otr = lambda: rng.choice([None, None, 0, 1, 2, -1, 5])
        parts.append({"notes": [tr() for _ in range(rng.choice([0, 1, 2, 3, 5, 8]))],
                      "controls": [otr() for _ in range(rng.choice([0, 0, 1, 2, 4]))],
                      "programs": [otr() for _ in range(rng.choice([0, 0, 1, 2]))]})
        if rng.random() < 0.4:  # round 4: the track numbers' types, cyclically (equal numbers of different types are one track)
            parts[-1]["tt"] = [rng.choice(["int", "i64", "i32", "i16", "i8", "ip", "float", "f64"]) for _ in range(rng.randint(1, 3))]
    return {"k": "tracks", "parts": parts}



# ---------------------------------------------------------------------------------- round 5: more of the code in the model
NKEYS = ["id", "pitch", "midi_pitch", "note_on", "note_off", "sound_off", "velocity", "track", "channel", "note_on_tick",
         "note_off_tick", "foo"]


def gen_ctl(rng, pool, vals):
    return {"t": _time(rng, pool), "n": 64 if rng.random() < 0.8 else rng.choice([1, 7, 66, 0]), "v": rng.choice(vals),
            "tr": rng.choice([None, 0, 0, 1, 3])}


def gen_xhist(rng):
    """a history in which notes are also removed / inserted / copied and the control stream is edited in place"""
    d = _untyped(gen_hist(rng, "quick"))
    pool = sorted(set([r.get("note_on", 0.0) for r in d["notes"]] + [r.get("note_off", 1.0) for r in d["notes"]] + [0.0, 1.0, 2.5]))
    pitches = sorted(set(r.get("pitch", r.get("midi_pitch", 60)) for r in d["notes"] if 0 <= r.get("pitch", r.get("midi_pitch", 60)) <= 127)) or [60]
    vals = [0, 1, 63, 64, 65, 126, 127]
    nn, nc = len(d["notes"]), len(d["controls"])
    ops = []
    for o in d["ops"]:
        r = rng.random()
        if r < 0.45:
            k = rng.random()
            if k < 0.18:
                ops.append(["C", "append", gen_ctl(rng, pool, vals)])
                nc += 1
            elif k < 0.32:
                i = rng.randrange(nc) if nc and rng.random() < 0.9 else nc + rng.randint(0, 1)
                ops.append(["C", "del", i])
                nc = max(0, nc - 1)
            elif k < 0.5:
                i = rng.randrange(nc) if nc and rng.random() < 0.93 else nc + rng.randint(0, 1)
                ops.append(["C", "value", i, rng.choice(vals)])
            elif k < 0.62:
                i = rng.randrange(nc) if nc and rng.random() < 0.93 else nc
                ops.append(["C", "time", i, _time(rng, pool)])
            elif k < 0.7:
                i = rng.randrange(nc) if nc and rng.random() < 0.93 else nc
                ops.append(["C", "number", i, rng.choice([64, 64, 7, 66])])
            elif k < 0.76:
                cs = [gen_ctl(rng, pool, vals) for _ in range(rng.choice([0, 1, 2, 4]))]
                ops.append(["C", "replace", cs])
                nc = len(cs)
            elif k < 0.88:
                i = rng.randrange(nn) if nn and rng.random() < 0.9 else nn + rng.randint(0, 1)
                ops.append(["X", i])
                nn = max(0, nn - 1)
            elif k < 0.95:
                ops.append(["I", rng.randint(0, nn + 1), _gen_raw(rng, pool, pitches, 50 + len(ops))])
                nn += 1
            else:
                ops.append(["Y", rng.randrange(nn) if nn and rng.random() < 0.9 else nn])
            if rng.random() < 0.6:
                ops.append(["T", rng.choice([0, 63, 64, 64, 126, 127])])
        ops.append(o)
        if o[0] == "A":
            nn += 1
    d["ops"] = ops
    d["k"] = "xhist"
    d["obj"] = bool(d.get("obj"))
    return d


def gen_note(rng):
    pool = [0.0, 0.5, 1.0, 2.0, 3.5]
    raw = _gen_raw(rng, pool, [60, 61, 72], 0)
    ops = []
    for _ in range(rng.randint(3, 10)):
        r = rng.random()
        if r < 0.4:
            o = gen_setop(rng, pool, [60, 61, 72], 1)
            ops.append(["S", o[2], o[3]])
        elif r < 0.6:
            ops.append(["G", rng.choice(NKEYS)])
        elif r < 0.72:
            ops.append(["H", rng.choice(NKEYS)])
        elif r < 0.8:
            ops.append(["L"])
        elif r < 0.86:
            ops.append(["D", rng.choice(NKEYS)])
        else:
            ops.append(["C"])
    return {"k": "note", "raw": raw, "ops": ops}


def gen_defaults(rng):
    d = _untyped(gen_part(rng, "quick"))
    if not d["notes"]:
        d["notes"].append({"p": 60, "on": 0.0, "off": 1.0, "v": 64, "tr": 0, "ch": 1, "ot": False})
    for n in d["notes"]:
        n.pop("so", None)
    return {"k": "defaults", "notes": d["notes"], "controls": d["controls"]}


def gen_boxpart(rng):
    tr = lambda: rng.choice([0, 0, 1, 2, 3, -1, 7])
    otr = lambda: rng.choice([None, None, 0, 1, 2, -1, 5])
    return {"notes": [tr() for _ in range(rng.choice([0, 1, 2, 3, 5]))],
            "controls": [otr() for _ in range(rng.choice([0, 0, 1, 2, 4]))],
            "programs": [otr() for _ in range(rng.choice([0, 0, 1, 2]))],
            "metas": [rng.choice([None, 0, 1, 2, 4, 9, -1]) for _ in range(rng.choice([0, 0, 1, 2, 3, 5]))]}


BOX_ARGS = ["list", "list", "tuple", "gen", "iter", "map", "single", "junk", "other", "str", "dict"]


def gen_box(rng):
    kind = rng.choice(BOX_ARGS)
    nparts = 1 if kind == "single" else rng.choice([0, 1, 2, 2, 3, 4])
    parts = [gen_boxpart(rng) for _ in range(nparts)]
    d = {"k": "box", "arg": kind, "parts": parts, "ensure": rng.choice([None, True, True, False])}
    if kind == "junk":
        d["junk"] = sorted(set(rng.randint(0, nparts) for _ in range(rng.choice([1, 1, 2]))))
    ops = []
    for _ in range(rng.choice([0, 1, 2, 3, 5])):
        r = rng.random()
        if r < 0.45:
            ops.append(["Z"])
        elif r < 0.8:
            ops.append(["P", rng.randint(0, max(0, nparts - 1)) if rng.random() < 0.9 else nparts + 1, gen_boxpart(rng)])
        else:
            ops.append(["Q", gen_boxpart(rng)])
            nparts += 1
    if ops and rng.random() < 0.6:
        ops.append(["Z"])
    d["ops"] = ops
    return d


# ---------------------------------------------------------------------------------- round 6 generators
ORD_OPS = ["sort", "desc", "rev"]


def gen_ohist(rng):
    """a history (as xhist) in which the note list is ALSO reordered: pp.notes.sort() / .sort(reverse=True) / .reverse(),
    most reorderings followed (and many preceded) by an assignment of the threshold"""
    d = gen_xhist(rng)
    thrs = [0, 63, 64, 64, 126, 127, d["thr"]]
    ops = []
    n_ord = 0
    for o in d["ops"] + [None]:
        if rng.random() < (0.35 if n_ord else 0.6):
            t = rng.choice(thrs)
            if rng.random() < 0.5:
                ops.append(["T", t])
            ops.append(["O", rng.choice(ORD_OPS)])
            n_ord += 1
            if rng.random() < 0.25:
                ops.append(["O", rng.choice(ORD_OPS)])
            if rng.random() < 0.8:
                ops.append(["T", t if rng.random() < 0.7 else rng.choice(thrs)])
        if o is not None:
            ops.append(o)
    d["ops"] = ops
    d["k"] = "ohist"
    return d


def gen_cmp(rng):
    """two performed notes for `<`, `<=`, `>`, `>=`, `==`, `hash`, `str`: independent ones, or the second a copy of the
    first with at most one key changed (so that equality and a tie of the onsets are reached)"""
    pool = [0.0, 0.5, 1.0, 1.0, 2.0, 3.5]
    a = _gen_raw(rng, pool, [60, 61, 72], 0)
    r = rng.random()
    if r < 0.4:
        b = _gen_raw(rng, pool, [60, 61, 72], rng.choice([0, 1]))
    else:
        b = dict(a)
        if r < 0.85:
            k = rng.choice(["id", "pitch", "note_on", "note_on", "note_on", "note_off", "sound_off", "velocity", "track", "channel",
                            "note_on_tick", "note_off_tick", "drop_tick"])
            if k == "id":
                b["id"] = rng.choice(["n0", "n1", "x"])
            elif k in ("pitch",):
                for kk in ("pitch", "midi_pitch"):
                    if kk in b:
                        b[kk] = rng.choice([60, 61])
            elif k == "note_on":
                b["note_on"] = rng.choice([0.0, 0.25, 0.5])
            elif k == "note_off":
                b["note_off"] = b.get("note_off", 1.0) + rng.choice([0.0, 0.5])
                b.pop("sound_off", None)
            elif k == "sound_off":
                b["sound_off"] = b.get("note_off", 1.0) + rng.choice([0.0, 0.5, 1.0])
            elif k in ("velocity", "track", "channel"):
                b[k] = rng.choice([0, 1, 60, 64])
            elif k in ("note_on_tick", "note_off_tick"):
                b[k] = rng.choice([0, 10, 2000])
            else:
                b.pop("note_on_tick", None)
                b.pop("note_off_tick", None)
    return {"k": "cmp", "a": a, "b": b}


TICK_RATES = [(500000, 480), (500000, 512), (1000000, 96), (250000, 120), (2000000, 1), (1000000, 1), (600000, 480),
              (750000, 384), (500000, 1), (1000000, 1000)]


def gen_ticks(rng):
    """times on a dyadic grid x tempo / resolution pairs whose ticks-per-second is an integer or dyadic, so that binary64
    evaluates 1e6*ppq*t/mpq exactly: whole ticks, exact ties (k + 1/2 ticks, both parities), times just beside a tie"""
    mpq, ppq = rng.choice(TICK_RATES)
    rate = Fraction(10**6 * ppq, mpq)
    ts = []
    for _ in range(rng.randint(3, 10)):
        r = rng.random()
        k = rng.randint(0, 4000)
        if r < 0.3:
            t = Fraction(2 * k + 1, 2) / rate          # a tie
        elif r < 0.45:
            t = Fraction(k) / rate                     # a whole tick
        elif r < 0.65:
            t = (Fraction(2 * k + 1, 2) + rng.choice([-1, 1]) * Fraction(1, 2 ** rng.randint(3, 12))) / rate
        else:
            t = Fraction(rng.randint(0, 64 * 64), 64)
        if t.denominator & (t.denominator - 1) or t.denominator > 2 ** 30:
            t = Fraction(rng.randint(0, 64 * 64), 64)   # not dyadic: binary64 would not hold it
        ts.append([t.numerator, t.denominator])
    return {"k": "ticks", "mpq": mpq, "ppq": ppq, "ts": ts}


def gen_fnap(rng):
    """a part whose notes have pairwise different (onset, pitch) — the order of the performance's note array is then fixed
    by the documented sort — for from_note_array(Performance(pp).note_array())"""
    d = _untyped(gen_part(rng, "quick"))
    seen, notes = set(), []
    for n in d["notes"]:
        if (n["on"], n["p"]) not in seen:
            seen.add((n["on"], n["p"]))
            n.pop("so", None)
            notes.append(n)
    return {"k": "fnap", "notes": notes, "controls": d["controls"], "thr": d["thrs"][0], "mpq": d["mpq"], "ppq": d["ppq"],
            "ff": d["ff"], "sid": d["sid"], "single": rng.random() < 0.5}


def cases(rng, tier):
    n = {"quick": 400, "thorough": 20000, "search": 6000}.get(tier, 400)
    ptier = "quick" if tier == "search" else tier
    for i in range(n):
        r = i % 20
        if r == 17:
            yield gen_bad(rng)
        elif r in (18, 19):
            yield gen_tracks(rng)
        elif r == 16:
            yield gen_part(rng, "quick", big=True)
        else:
            # thorough: every case whose index is even walks all 128 thresholds, the others a sample
            yield gen_part(rng, ptier if (i % 2 == 0) else "quick")
        # round 2: histories over documented note dictionaries, performances, numpy contract samples
        if i % 2 == 0:
            yield gen_hist(rng, ptier)
        if i % 8 == 1:
            yield gen_perf(rng)
        if i % 10 == 3:
            yield gen_np(rng)
        # round 5: removals / control edits, the reader side of one note, keyword defaults, the Performance container
        if i % 3 == 1:
            yield gen_xhist(rng)
        if i % 5 == 2:
            yield gen_box(rng)
        if i % 8 == 5:
            yield gen_note(rng)
        if i % 16 == 9:
            yield gen_defaults(rng)
        # round 6: reorderings of the note list, the comparison protocol of PerformedNote, seconds <-> ticks
        if i % 4 == 2:
            yield gen_ohist(rng)
        if i % 8 == 7:
            yield gen_cmp(rng)
        if i % 16 == 4:
            yield gen_ticks(rng)
        if i % 8 == 6:
            yield gen_fnap(rng)


# ---------------------------------------------------------------------------------- reference (oracle)
def F(x):
    return W.as_fraction(x)


def ref_tick(t, mpq, ppq):
    """round half to even of 10^6 * ppq * t / mpq on exact rationals (Python's round(Fraction))"""
    return round(Fraction(10**6 * ppq) * F(t) / mpq)


def reference(notes, controls, thr):
    """direct pedal simulation: per note ("eq", end) or ("ge", release)"""
    ped = [(F(c["t"]), c["v"]) for c in controls if c["n"] == 64]
    ped = [pv for _, pv in sorted(enumerate(ped), key=lambda e: (e[1][0], e[0]))]  # time order, ties in stream order
    out = []
    for i, n in enumerate(notes):
        rel = F(n["off"])
        down = False
        for t, v in ped:  # walk the stream up to (excluding) the release
            if t < rel:
                down = v > thr
        if not ped or thr >= 127 or not down:
            out.append(("eq", rel))
            continue
        moments = [t for t, v in ped if t >= rel and v <= thr]
        moments += [F(m["on"]) for j, m in enumerate(notes) if j != i and m["p"] == n["p"] and F(m["on"]) >= rel]
        out.append(("eq", min(moments)) if moments else ("ge", rel))
    return out


# ---------------------------------------------------------------------------------- implementation side
def _note_dicts(notes, mpq, ppq, sid=False):
    out = []
    tk = (mpq, ppq)
    for i, n in enumerate(notes):
        d = dict(id="x" if sid else "n%d" % i, midi_pitch=_num(n["p"], n.get("tp")), note_on=_num(n["on"], n.get("ton"), tk),
                 note_off=_num(n["off"], n.get("toff"), tk), velocity=_num(n["v"], n.get("tv")),
                 track=_num(n["tr"], n.get("ttr")), channel=_num(n["ch"], n.get("tch")))
        if n.get("ot"):
            d["note_on_tick"] = _num(ref_tick(n["on"], mpq, ppq) + 3, n.get("tot"))  # a given tick is used as it is
        if n.get("so") is not None:
            # a note dict copied from an earlier (pedalled) part carries a stale sounding end: building a part
            # recomputes every note, so the result must not depend on it
            d["sound_off"] = _num(n["off"] + n["so"], n.get("tso"), tk)
        out.append(d)
    return out


def _control_dicts(controls):
    out = []
    for c in controls:
        d = dict(type="sustain_pedal" if c["n"] == 64 else "cc", number=_num(c["n"], c.get("tn")), time=_num(c["t"], c.get("tt")),
                 value=_num(c["v"], c.get("tv")), channel=1)
        if c["tr"] is not None:
            d["track"] = _num(c["tr"], c.get("ttr"))
        out.append(d)
    return out


def _type_sig(d):
    """the types of a case, for the distinctness key"""
    if isinstance(d, dict):
        return "".join("%s=%s;" % (k, v) if k in ("ton", "toff", "tso", "tp", "tv", "ttr", "tch", "tot", "tt", "tn", "_ty", "tth")
                       else _type_sig(v) for k, v in sorted(d.items()))
    if isinstance(d, list):
        return "".join(_type_sig(x) for x in d) + (str(d[4]) if len(d) == 5 and d and d[0] == "S" else "")
    return ""


def _thr(d, j, t):
    """the j-th threshold of a case as a number of the type the case names for it"""
    tth = d.get("tth")
    return _num(t, tth[j % len(tth)]) if tth else t


def _req_notes(notes, mpq, ppq):
    toks = [str(len(notes))]
    for n in notes:
        toks += [W.i(n["p"]), W.q(n["on"]), W.q(n["off"]), W.i(n["v"]), W.i(n["tr"]), W.i(n["ch"]),
                 W.opt(W.i, ref_tick(n["on"], mpq, ppq) + 3 if n.get("ot") else None)]
    return " ".join(toks)


def _kind_tok(x):
    import numbers

    return "I" if isinstance(x, numbers.Integral) else "F"


def _req_typed(nd, cd, notes, controls, mpq, ppq):
    """typed notes and controls for the `sot` request: values from the description, kinds from the built numbers"""
    toks = [str(len(notes))]
    for n, d in zip(notes, nd):
        toks += [W.i(n["p"]), W.q(n["on"]), _kind_tok(d["note_on"]), W.q(n["off"]), _kind_tok(d["note_off"]), W.i(n["v"]),
                 W.i(n["tr"]), W.i(n["ch"]), W.opt(W.i, ref_tick(n["on"], mpq, ppq) + 3 if n.get("ot") else None)]
    toks.append(str(len(controls)))
    for c, d in zip(controls, cd):
        toks += [W.i(c["n"]), W.q(c["t"]), _kind_tok(d["time"]), W.i(c["v"]), W.opt(W.i, c["tr"])]
    return " ".join(toks)


def _raw_toks(d):
    """a note dictionary as the driver reads it (absent key = `-`)"""
    f = lambda k, g: W.opt(g, d.get(k))
    return " ".join([f("id", W.s), f("pitch", W.i), f("midi_pitch", W.i), f("note_on", W.q), f("note_off", W.q),
                     f("sound_off", W.q), f("velocity", W.i), f("track", W.i), f("channel", W.i),
                     f("note_on_tick", W.i), f("note_off_tick", W.i)])


def _req_raws(ds):
    return " ".join([str(len(ds))] + [_raw_toks(d) for d in ds])


def _view(pp):
    """every note of the part as the model prints it"""
    out = []
    for n in pp.notes:
        g = n.pnote_dict if hasattr(n, "pnote_dict") else n
        out.append(W.f_tuple(str(g.get("id")), W.f_int(g["pitch"]), W.f_opt(W.f_int, g.get("midi_pitch")), W.f_rat(F(g["note_on"])),
                             W.f_rat(F(g["note_off"])), W.f_rat(F(g["sound_off"])), W.f_int(g["velocity"]),
                             W.f_int(g["track"]), W.f_int(g["channel"]),
                             W.f_opt(W.f_int, g.get("note_on_tick")), W.f_opt(W.f_int, g.get("note_off_tick"))))
    return "[" + ",".join(out) + "]"


def _arow(r):
    return W.f_tuple(str(r["id"]), W.f_tuple(W.f_rat(F(r["onset_sec"])), W.f_rat(F(r["duration_sec"])),
                                             W.f_int(r["onset_tick"]), W.f_int(r["duration_tick"]), W.f_int(r["pitch"]),
                                             W.f_int(r["velocity"]), W.f_int(r["track"]), W.f_int(r["channel"])))


def _claimed(g):
    """the note is one the property speaks about: a pitch, 0 <= onset <= release"""
    try:
        return g.get("pitch") is not None and 0 <= g["note_on"] <= g["note_off"]
    except Exception:
        return False


def _wellformed_raw(d):
    """True: the property demands that the note is accepted; False: the property (or the documented validators) let it
    be rejected; None: the property demands that it is rejected"""
    p = d.get("pitch", d.get("midi_pitch"))
    if "note_on" not in d or "note_off" not in d or p is None:
        return False
    if "pitch" in d and "midi_pitch" in d and d["pitch"] != d["midi_pitch"]:
        return False
    bad = d["note_on"] < 0 or d["note_off"] < d["note_on"] or not (0 <= p <= 127) or not (0 <= d.get("velocity", 60) <= 127)
    if bad:
        return None
    if "sound_off" in d and d["sound_off"] < d["note_off"]:
        return False
    if d.get("note_on_tick", 0) < 0:
        return False
    if "note_off_tick" in d and d.get("note_on_tick", -1) >= 0 and (d["note_off_tick"] < 0 or d["note_off_tick"] < d["note_on_tick"]):
        return False
    return True


def _req_controls(controls):
    toks = [str(len(controls))]
    for c in controls:
        toks += [W.i(c["n"]), W.q(c["t"]), W.i(c["v"]), W.opt(W.i, c["tr"])]
    return " ".join(toks)


def _sounds(pp):
    return [F(n["sound_off"]) for n in pp.notes]


def _fmt_q(xs):
    return W.f_list(W.f_rat, xs)


def eval_part(d):
    import partitura.performance as P

    notes, controls, thrs, mpq, ppq = d["notes"], d["controls"], d["thrs"], d["mpq"], d["ppq"]
    ev = Eval()
    rn, rc = _req_notes(notes, mpq, ppq), _req_controls(controls)
    wellformed = d["k"] == "part"
    thr0 = thrs[0]

    sid = bool(d.get("sid"))

    def build(thr, j=0, plain=False):
        if plain:  # the same values as plain Python floats / ints
            return P.PerformedPart(_note_dicts(_untyped(notes), mpq, ppq, sid), id="P0", controls=_control_dicts(_untyped(controls)),
                                   sustain_pedal_threshold=thr, ppq=ppq, mpq=mpq)
        return P.PerformedPart(_note_dicts(notes, mpq, ppq, sid), id="P0", controls=_control_dicts(controls),
                               sustain_pedal_threshold=_thr(d, j, thr), ppq=ppq, mpq=mpq)

    typed = _typed(d)

    # ---- construction
    ev.requests.append("so %d %s %s" % (thr0, rn, rc))
    try:
        pp = build(thr0)
    except Exception as e:
        ev.impl.append("err")
        if wellformed:
            ev.oracle.append("total: building the part raised %s: %s (thr=%d)" % (type(e).__name__, e, thr0))
        else:
            ev.key = None
        return ev
    ev.impl.append(_fmt_q(_sounds(pp)))
    if not wellformed:
        ev.oracle.append("validation: a note with onset<0, release<onset, pitch or velocity outside 0..127 was accepted")
        return ev
    if typed:
        # the typed model (Model/PedalTypes.lean): the kinds of the three time columns go with the values
        ev.requests.append("sot %d %s" % (thr0, _req_typed(_note_dicts(notes, mpq, ppq, sid), _control_dicts(controls), notes, controls, mpq, ppq)))
        ev.impl.append(_fmt_q(_sounds(pp)))

    def judge(snd, thr, what):
        ref = reference(notes, controls, thr)
        for i, (s, (kind, val)) in enumerate(zip(snd, ref)):
            rel = F(notes[i]["off"])
            if s < rel:
                ev.oracle.append("ge_release: %s thr=%d note %d sounds until %s < release %s" % (what, thr, i, s, rel))
            elif kind == "eq" and s != val:
                ev.oracle.append("pedal: %s thr=%d note %d sounds until %s, the pedal dictates %s (release %s)" % (
                    what, thr, i, s, val, rel))

    # ---- threshold sequence on the same object
    seq = thrs[1:]
    ev.requests.append("rethr %d %s %s %s" % (thr0, W.lst(W.i, seq), rn, rc))
    by_thr = {thr0: _sounds(pp)}
    judge(by_thr[thr0], thr0, "construction")

    # round 4: the values are what counts.  The same part with every number a plain Python float / int: wherever the
    # property fixes the sounding end (every note but those held by a pedal that is never released) the two agree.
    twin = None
    if typed:
        try:
            twin = build(thr0, plain=True)
        except Exception as e:
            ev.oracle.append("total: building the part (plain numbers) raised %s: %s (thr=%d)" % (type(e).__name__, e, thr0))

    def same_as_twin(snd, thr, what):
        if twin is None:
            return
        for i, (a, b, (kind, _)) in enumerate(zip(snd, _sounds(twin), reference(notes, controls, thr))):
            if kind == "eq" and a != b:
                ev.oracle.append("types: %s thr=%d note %d sounds until %s, with the same values as plain floats until %s "
                                 "(types: onset %s release %s)" % (what, thr, i, a, b, notes[i].get("ton"), notes[i].get("toff")))

    same_as_twin(by_thr[thr0], thr0, "construction")
    hist = []
    try:
        for j, t in enumerate(seq):
            pp.sustain_pedal_threshold = _thr(d, j + 1, t)
            s = _sounds(pp)
            hist.append(s)
            judge(s, t, "assignment")
            if twin is not None and j < 8:
                twin.sustain_pedal_threshold = t
                same_as_twin(s, t, "assignment")
            if t in by_thr and by_thr[t] != s:
                ev.oracle.append("recompute: thr=%d gives %s now and gave %s earlier" % (t, s, by_thr[t]))
            by_thr[t] = s
        ev.impl.append(W.f_list(_fmt_q, hist))
    except Exception as e:
        ev.impl.append("err")
        ev.oracle.append("total: assigning the threshold raised %s: %s" % (type(e).__name__, e))
        return ev
    # setting = recomputing: a fresh part with the last threshold agrees with the re-thresholded one
    if seq:
        try:
            fresh = _sounds(build(seq[-1], len(seq)))
            if fresh != hist[-1]:
                ev.oracle.append("recompute: after the sequence %s the notes sound until %s, a fresh part gives %s" % (
                    seq[-3:], hist[-1], fresh))
        except Exception as e:
            ev.oracle.append("total: building the part raised %s: %s (thr=%d)" % (type(e).__name__, e, seq[-1]))
    # raising the threshold never lengthens a note
    ts = sorted(by_thr)
    for a, b in zip(ts, ts[1:]):
        for i, (x, y) in enumerate(zip(by_thr[a], by_thr[b])):
            if y > x:
                ev.oracle.append("antitone: note %d sounds until %s at thr=%d but %s at thr=%d" % (i, x, a, y, b))

    # ---- note array and its inverse (threshold thr0)
    try:
        pp0 = build(thr0)
        na = pp0.note_array()
        rows = [(F(r["onset_sec"]), F(r["duration_sec"]), int(r["onset_tick"]), int(r["duration_tick"]),
                 int(r["pitch"]), int(r["velocity"]), int(r["track"]), int(r["channel"])) for r in na]
        ev.requests.append("rows %d %d %d %s %s" % (thr0, mpq, ppq, rn, rc))
        ev.impl.append(W.f_list(lambda r: W.f_tuple(W.f_rat(r[0]), W.f_rat(r[1]), *[W.f_int(x) for x in r[2:]]), rows))
        snd = _sounds(pp0)
        if twin is not None:
            twin.sustain_pedal_threshold = thr0
            ref0_ = reference(notes, controls, thr0)
            trows = twin.note_array()
            for i, (r, tr_) in enumerate(zip(na, trows)):
                for f in ("onset_sec", "onset_tick", "pitch", "velocity") + (
                        ("duration_sec",) if i < len(ref0_) and ref0_[i][0] == "eq" else ()) + (
                        ("duration_tick",) if i < len(snd) and snd[i] == F(notes[i]["off"]) else ()):
                    if r[f] != tr_[f]:
                        ev.oracle.append("types: note array row %d: %s = %s, with the same values as plain floats %s" % (
                            i, f, r[f], tr_[f]))
        if len(rows) != len(notes):
            ev.oracle.append("rows: %d rows for %d notes" % (len(rows), len(notes)))
        for i, (r, n) in enumerate(zip(rows, notes)):
            on, off = F(n["on"]), F(n["off"])
            if r[0] != on:
                ev.oracle.append("rows: note %d onset_sec %s != %s" % (i, r[0], on))
            if not n.get("ot") and r[2] != ref_tick(on, mpq, ppq):
                ev.oracle.append("rows: note %d onset_tick %d != ticks(onset_sec) %d" % (i, r[2], ref_tick(on, mpq, ppq)))
            if r[1] != snd[i] - on:
                ev.oracle.append("rows: note %d duration_sec %s != sounding end - onset %s" % (i, r[1], snd[i] - on))
            if snd[i] == off and r[3] != ref_tick(r[0] + r[1], mpq, ppq) - r[2]:
                ev.oracle.append("rows: note %d (no pedal extension) duration_tick %d != %d" % (
                    i, r[3], ref_tick(r[0] + r[1], mpq, ppq) - r[2]))
            if (r[4], r[5]) != (n["p"], n["v"]):
                ev.oracle.append("rows: note %d pitch/velocity %s" % (i, r[4:6]))
        ev.requests.append("fna %d %d %d %s %s" % (thr0, mpq, ppq, rn, rc))
        try:
            back = P.PerformedPart.from_note_array(na)
            brows = [(int(b["midi_pitch"]), int(b["velocity"]), F(b["note_on"]), F(b["note_off"]), F(b["sound_off"]),
                      int(b["track"]), int(b["channel"])) for b in back.notes]
            ev.impl.append(W.f_list(lambda b: W.f_tuple(W.f_int(b[0]), W.f_int(b[1]), W.f_rat(b[2]), W.f_rat(b[3]),
                                                        W.f_rat(b[4]), W.f_int(b[5]), W.f_int(b[6])), brows))
            want = [(n["p"], n["v"], F(n["on"]), s) for n, s in zip(notes, snd)]
            got = [(b[0], b[1], b[2], b[4]) for b in brows]
            if want != got:
                ev.oracle.append("from_note_array: rebuilt (pitch, velocity, onset, sounding end) %s != %s" % (got[:4], want[:4]))
        except Exception as e:
            ev.impl.append("err")
            ev.oracle.append("from_note_array: rebuilding the part from its own note array raised %s: %s" % (type(e).__name__, e))
        # ---- from_note_array of the array restricted to some columns; the rebuilt part's own note array
        ff = d.get("ff")
        if ff is not None:
            cols = (["onset_sec", "duration_sec"] if ff[0] else []) + ["onset_tick", "duration_tick", "pitch"] + (
                ["velocity"] if ff[1] else []) + (["id"] if ff[2] else []) + (["track"] if ff[3] else []) + (
                ["channel"] if ff[4] else [])
            ev.requests.append("fnav %d %d %d %s %s %s" % (thr0, mpq, ppq, _req_raws(_note_dicts(_untyped(notes), mpq, ppq, sid)), rc,
                                                          " ".join(W.b(x) for x in ff)))
            try:
                back = P.PerformedPart.from_note_array(na[cols])
                bna = back.note_array()
                ev.impl.append(W.f_tuple(_view(back), "[" + ",".join(_arow(r) for r in bna) + "]"))
                got = [(int(b["pitch"]), int(b["velocity"]), F(b["note_on"]), F(b["sound_off"])) for b in back.notes]
                want = [(n["p"], n["v"], F(n["on"]), s) for n, s in zip(notes, snd)]
                if want != got:
                    ev.oracle.append("from_note_array: columns %s: rebuilt (pitch, velocity, onset, sounding end) %s != %s" % (
                        cols, got[:4], want[:4]))
                for i, (r, w) in enumerate(zip(bna, want)):
                    if (F(r["onset_sec"]), F(r["onset_sec"]) + F(r["duration_sec"])) != (w[2], w[3]):
                        ev.oracle.append("rows: rebuilt part: note %d reports (%s, +%s), expected onset %s end %s" % (
                            i, r["onset_sec"], r["duration_sec"], w[2], w[3]))
                    if int(r["onset_tick"]) != ref_tick(w[2], back.mpq, back.ppq):
                        ev.oracle.append("rows: rebuilt part: note %d onset_tick %d != ticks(onset_sec) %d under its ppq=%d mpq=%d" % (
                            i, r["onset_tick"], ref_tick(w[2], back.mpq, back.ppq), back.ppq, back.mpq))
            except Exception as e:
                ev.impl.append("err")
                if (ff[0] and ff[1]) or not notes:
                    ev.oracle.append("from_note_array: columns %s: raised %s: %s" % (cols, type(e).__name__, e))
    except Exception as e:
        if os.environ.get("VERIF_DEBUG"):
            import traceback

            traceback.print_exc()
        ev.oracle.append("total: note_array raised %s: %s" % (type(e).__name__, e))

    ref0 = reference(notes, controls, thr0)
    nped = sum(1 for c in controls if c["n"] == 64)
    ev.info = {
        "notes": len(notes), "pedal_events": nped,
        "extended": sum(1 for s, n in zip(by_thr[thr0], notes) if s > F(n["off"])),
        "restruck": sum(1 for (k, v), n, i in zip(ref0, notes, range(len(notes)))
                        if k == "eq" and v > F(n["off"]) and any(
                            j != i and m["p"] == n["p"] and F(m["on"]) == v for j, m in enumerate(notes))),
        "sentinel": sum(1 for k, _ in ref0 if k == "ge"),
        "ties": len([1 for c in controls if c["n"] == 64]) - len(set(c["t"] for c in controls if c["n"] == 64)),
        "thresholds": len(set(thrs)),
    }
    if notes and nped:
        ev.key = "%s|%s|%s|%d|%d|%s" % (rn, rc, thrs, mpq, ppq, _type_sig(d))
    ev.info["typed"] = int(typed)
    if typed:
        offk = [n.get("toff") or "float" for n in notes]
        ev.info["all_int_releases"] = int(bool(notes) and all(k in INT_KINDS or k == "bool" for k in offk))
        ev.info["all_int_releases_extended_to_fraction"] = int(ev.info["all_int_releases"] and any(
            s.denominator != 1 for snd in by_thr.values() for s in snd))
    return ev


def eval_tracks(d):
    import partitura.performance as P

    ev = Eval()
    parts = d["parts"]
    pps = []
    for pi, p in enumerate(parts):
        tt = p.get("tt")
        cnt = [0]

        def ty(t):
            cnt[0] += 1
            return _num(t, tt[cnt[0] % len(tt)]) if tt else t

        notes = [dict(id="p%dn%d" % (pi, i), midi_pitch=60, note_on=float(i), note_off=float(i) + 0.5, velocity=64,
                      track=ty(t), channel=1) for i, t in enumerate(p["notes"])]
        controls = []
        for t in p["controls"]:
            c = dict(type="sustain_pedal", number=64, time=0.0, value=0, channel=1)
            if t is not None:
                c["track"] = ty(t)
            controls.append(c)
        programs = []
        for t in p["programs"]:
            c = dict(time=0.0, program=1, channel=1)
            if t is not None:
                c["track"] = ty(t)
            programs.append(c)
        pps.append(P.PerformedPart(notes, id="P%d" % pi, controls=controls, programs=programs))
    toks = [str(len(parts))]
    for p in parts:
        toks += [W.lst(W.i, p["notes"]), W.lst(lambda x: W.opt(W.i, x), p["controls"]),
                 W.lst(lambda x: W.opt(W.i, x), p["programs"])]
    ev.requests.append("tracks " + " ".join(toks))
    # the keys in the order the code lists them
    def old(t):
        return -1 if t is None else t

    keys = [(i, t) for i, p in enumerate(parts) for t in p["notes"]]
    keys += [(i, old(t)) for i, p in enumerate(parts) for t in p["controls"]]
    keys += [(i, old(t)) for i, p in enumerate(parts) for t in p["programs"]]
    try:
        perf = P.Performance(pps, ensure_unique_tracks=False)
        n_before = perf.num_tracks
        part_n = [pp.num_tracks for pp in pps]
        perf.sanitize_track_numbers()
        new = [[int(n["track"]) for n in pp.notes] for pp in pps]
        newc = [[int(c["track"]) for c in pp.controls] for pp in pps]
        newp = [[int(c["track"]) for c in pp.programs] for pp in pps]
        n_after = perf.num_tracks
    except Exception as e:
        ev.impl.append("err")
        ev.oracle.append("tracks: renumbering raised %s: %s" % (type(e).__name__, e))
        return ev
    flat_new = [t for l in new for t in l] + [t for l in newc for t in l] + [t for l in newp for t in l]
    # oracle: injective on (part, track), constant on each (part, track)
    fwd, bwd = {}, {}
    for k, t in zip(keys, flat_new):
        if fwd.setdefault(k, t) != t:
            ev.oracle.append("tracks: (part, track) %s is sent to both %d and %d" % (k, fwd[k], t))
        if bwd.setdefault(t, k) != k:
            ev.oracle.append("tracks: new track %d is shared by %s and %s" % (t, bwd[t], k))
    if n_before != len(set(keys)) or n_after != len(set(keys)):
        ev.oracle.append("tracks: num_tracks %d / %d after renumbering, %d distinct (part, track) pairs" % (
            n_before, n_after, len(set(keys))))
    # the numbers themselves: the code enumerates the (part, track) pairs in sorted order (fix C06-3) and so does the model
    fl = lambda l: W.f_list(W.f_int, l)
    ev.impl.append(W.f_tuple(W.f_int(n_before), W.f_list(W.f_int, part_n),
                             W.f_list(lambda x: W.f_tuple(fl(x[0]), fl(x[1]), fl(x[2])), list(zip(new, newc, newp)))))
    ev.info = {"parts": len(parts), "keys": len(set(keys))}
    if len(set(keys)) >= 2:
        ev.key = ev.requests[0]
    return ev


_SIGNED = {"u8": "i16", "u16": "i32", "u32": "i64", "u64": "i64"}
_TIME_KEYS = ("note_on", "note_off", "sound_off")


def _time_kind(kind):
    """In the documented-dictionary histories a note may be left INVERTED (note_on > note_off after `note[key] = v`, a
    malformed appended dictionary: the property says nothing about the values of such a note).  A difference of two
    unsigned numpy numbers does not go negative there, it wraps around (np.uint8(0) - np.uint16(6) = 65530), which
    the exact-rational model does not mirror: found by the thorough tier (seed 11) as a lone model/implementation
    disagreement.  Times of these histories are therefore typed with the signed type of the next width."""
    return _SIGNED.get(kind, kind)


def _raw_dict(r, tick=None):
    """the note dictionary of a description with its numbers in the types the description names"""
    ty = r.get("_ty") or {}
    return {k: (_num(v, _time_kind(ty.get(k)), tick) if k in _TIME_KEYS else _num(v, ty.get(k), None)) if k in ty else v
            for k, v in r.items() if k != "_ty"}


def _mk_notes(P, raws, obj, tick=None):
    return [P.PerformedNote(_raw_dict(r, tick)) if obj else _raw_dict(r, tick) for r in raws]


def _errtok(e):
    return {"KeyError": "K", "IndexError": "I"}.get(type(e).__name__, "V")


def _contra(r):
    return "pitch" in r and "midi_pitch" in r and r["pitch"] != r["midi_pitch"]


def _judge_state(ev, pp, controls, thr, what, contra=()):
    """the property on the current state of the part (independent of the model): reference pedal simulation over
    the notes as they are now, pitch = the documented `pitch` entry"""
    gs = [n.pnote_dict for n in pp.notes]
    if not all(_claimed(g) for g in gs) or any(contra):
        return False
    cur = [{"p": g["pitch"], "on": g["note_on"], "off": g["note_off"]} for g in gs]
    for i, (g, (kind, val)) in enumerate(zip(gs, reference(cur, controls, thr))):
        s_, rel = F(g["sound_off"]), F(g["note_off"])
        if s_ < rel:
            ev.oracle.append("ge_release: %s thr=%d note %d sounds until %s < release %s" % (what, thr, i, s_, rel))
        elif kind == "eq" and s_ != val:
            ev.oracle.append("pedal: %s thr=%d note %d (of %d) sounds until %s, the pedal dictates %s (release %s)" % (
                what, thr, i, len(gs), s_, val, rel))
    return True


def _judge_rows(ev, pp, na, what, contra=()):
    if len(na) != len(pp.notes):
        ev.oracle.append("rows: %s: %d rows for %d notes" % (what, len(na), len(pp.notes)))
    for i, (r, n) in enumerate(zip(na, pp.notes)):
        g = n.pnote_dict
        if not _claimed(g) or (i < len(contra) and contra[i]):
            continue
        on = F(g["note_on"])
        if F(r["onset_sec"]) != on or F(r["duration_sec"]) != F(g["sound_off"]) - on:
            ev.oracle.append("rows: %s: note %d reports (%s, +%s) for onset %s sounding end %s" % (
                what, i, r["onset_sec"], r["duration_sec"], on, g["sound_off"]))
        if "note_on_tick" not in g and int(r["onset_tick"]) != ref_tick(on, pp.mpq, pp.ppq):
            ev.oracle.append("rows: %s: note %d onset_tick %d != ticks(onset_sec) %d" % (
                what, i, r["onset_tick"], ref_tick(on, pp.mpq, pp.ppq)))
        if (int(r["pitch"]), int(r["velocity"])) != (g["pitch"], g["velocity"]):
            ev.oracle.append("rows: %s: note %d pitch/velocity (%d, %d) for a note with (%s, %s)" % (
                what, i, r["pitch"], r["velocity"], g["pitch"], g["velocity"]))


def eval_hist(d):
    import partitura.performance as P

    ev = Eval()
    raws, controls, thr0, ops, mpq, ppq = d["notes"], d["controls"], d["thr"], d["ops"], d["mpq"], d["ppq"]
    toks = []
    for o in ops:
        if o[0] == "T":
            toks.append("T %d" % o[1])
        elif o[0] == "S":
            k, v = o[2], o[3]
            if k in ("note_on", "note_off", "sound_off"):
                toks.append("S %d %s %s" % (o[1], k, W.q(v)))
            elif k == "id":
                toks.append("S %d id %s" % (o[1], W.s(v)))
            elif k in INT_KEYS:
                toks.append("S %d %s %d" % (o[1], k, v))
            else:
                toks.append("S %d other" % o[1])
        else:
            toks.append("A " + _raw_toks(o[1]))
    ev.requests.append("hist %d %d %d %s %s %d %s" % (thr0, mpq, ppq, _req_raws(raws), _req_controls(controls), len(ops),
                                                     " ".join(toks)))
    wf = [_wellformed_raw(r) for r in raws]
    try:
        pp = P.PerformedPart(_mk_notes(P, raws, d.get("obj"), (mpq, ppq)), id="P0", controls=_control_dicts(controls),
                             sustain_pedal_threshold=_thr(d, 0, thr0), ppq=ppq, mpq=mpq)
    except Exception as e:
        ev.impl.append("err")
        if all(w is True for w in wf):
            ev.oracle.append("total: building the part raised %s: %s (thr=%d)" % (type(e).__name__, e, thr0))
        return ev
    if any(w is None for w in wf):
        ev.oracle.append("validation: a note with onset<0, release<onset, pitch or velocity outside 0..127 was accepted")
    contra = [_contra(r) for r in raws]  # contradictory pitch keys (until a pitch is assigned)
    judged = 1 if _judge_state(ev, pp, controls, thr0, "construction", contra) else 0
    v0 = _view(pp)
    steps = []
    appended = 0
    for oi, o in enumerate(ops):
        try:
            if o[0] == "T":
                pp.sustain_pedal_threshold = _thr(d, oi + 1, o[1])
                judged += 1 if _judge_state(ev, pp, controls, o[1], "assignment after %d appended notes" % appended, contra) else 0
            elif o[0] == "S":
                pp.notes[o[1]][o[2]] = (_num(o[3], _time_kind(o[4]), (mpq, ppq)) if o[2] in _TIME_KEYS else _num(o[3], o[4], None)) \
                    if len(o) > 4 else o[3]
                if o[2] == "pitch":
                    contra[o[1]] = False
            else:
                w = _wellformed_raw(o[1])
                try:
                    pp.notes.append(P.PerformedNote(_raw_dict(o[1], (mpq, ppq))))
                    appended += 1
                    contra.append(_contra(o[1]))
                    if w is None:
                        ev.oracle.append("validation: a note with onset<0, release<onset, pitch or velocity outside 0..127 was accepted")
                except Exception as e:
                    if w is True:
                        ev.oracle.append("total: PerformedNote raised %s: %s on a well-formed note" % (type(e).__name__, e))
                    raise
            tok = "ok"
        except Exception as e:
            tok = _errtok(e)
            if o[0] == "T":
                tok = "F"
                ev.oracle.append("total: assigning the threshold raised %s: %s" % (type(e).__name__, e))
        steps.append(W.f_tuple(tok, _view(pp)))
    try:
        # PerformedPart.note_array accepts and ignores any arguments
        na = pp.note_array() if len(ops) % 2 else pp.note_array(True, include_pitch_spelling=True)
        rows = "[" + ",".join(_arow(r) for r in na) + "]"
        _judge_rows(ev, pp, na, "after the history", contra)
    except Exception as e:
        rows = "err"
        ev.oracle.append("total: note_array raised %s: %s" % (type(e).__name__, e))
    ev.impl.append(W.f_tuple(v0, "[" + ",".join(steps) + "]", rows))
    nped = sum(1 for c in controls if c["n"] == 64)
    ev.info = {"hist_ops": len(ops), "hist_judged_states": judged, "hist_appended": appended, "hist_typed": int(_typed(d)),
               "hist_rejected_statements": sum(1 for x in steps if not x.startswith("(ok"))}
    if pp.notes and nped:
        ev.key = ev.requests[0] + _type_sig(d)
    return ev


def eval_perf(d):
    import partitura.performance as P

    ev = Eval()
    parts = d["parts"]
    toks = [str(len(parts))]
    for p in parts:
        toks.append("%d %d %d %s %s %s" % (p["thr"], p["mpq"], p["ppq"], _req_raws(p["notes"]), _req_controls(p["controls"]),
                                           W.lst(lambda x: W.opt(W.i, x), p["programs"])))
    uid = bool(d.get("uid", True))
    ev.requests.append("perf %s %s" % (W.b(uid), " ".join(toks)))
    wf = all(_wellformed_raw(r) is True for p in parts for r in p["notes"])
    pps = []
    try:
        for i, p in enumerate(parts):
            progs = []
            for t in p["programs"]:
                c = dict(time=0.0, program=1, channel=1)
                if t is not None:
                    c["track"] = t
                progs.append(c)
            pps.append(P.PerformedPart(_mk_notes(P, p["notes"], i % 2 == 1, (p["mpq"], p["ppq"])), id="P%d" % i,
                                       controls=_control_dicts(p["controls"]),
                                       programs=progs, sustain_pedal_threshold=p["thr"], ppq=p["ppq"], mpq=p["mpq"]))
    except Exception as e:
        ev.impl.append("err")
        if wf:
            ev.oracle.append("total: building the part raised %s: %s" % (type(e).__name__, e))
        return ev
    old = [[n["track"] for n in pp.notes] for pp in pps]
    try:
        perf = P.Performance(pps)
        own = [pp.note_array() for pp in pps]
        na = perf.note_array() if uid else perf.note_array(unique_id_per_part=False)
        ntr = perf.num_tracks
    except Exception as e:
        ev.impl.append("err")
        if parts:
            ev.oracle.append("total: Performance / note_array raised %s: %s" % (type(e).__name__, e))
        return ev
    # rows of equal (onset, pitch) come in the order the unstable pitch sort leaves them: order those by part and position
    def pos(r):
        m = str(r["id"])
        if len(parts) > 1 and uid:
            return (int(m[1:3]), int(m[5:]))
        # without the prefix the part is told by the (renumbered, hence part-specific) track
        return (part_of_track.get(int(r["track"]), -1), int(m[1:]))

    part_of_track = {int(n["track"]): i for i, pp in enumerate(pps) for n in pp.notes}

    idok = all(str(r.get("id", "")).startswith("n") for p in parts for r in p["notes"])
    rows = sorted(na, key=lambda r: (F(r["onset_sec"]), int(r["pitch"]), pos(r))) if idok else list(na)
    if [(F(r["onset_sec"]), int(r["pitch"])) for r in rows] != [(F(r["onset_sec"]), int(r["pitch"])) for r in na]:
        rows = list(na)  # not in (onset, pitch) order: let the comparison show it
    ev.impl.append(W.f_tuple(W.f_int(ntr), "[" + ",".join(_arow(r) for r in rows) + "]"))
    # oracle: the performance array holds exactly the rows of the parts (ids prefixed), each consistent with its note
    want = []
    for i, (pp, a) in enumerate(zip(pps, own)):
        _judge_rows(ev, pp, a, "part %d" % i, [_contra(r) for r in parts[i]["notes"]])
        for r in a:
            t = tuple(r.tolist())
            want.append(t[:-1] + (("P%02d_" % i if len(parts) > 1 and uid else "") + t[-1],))
    if sorted(want) != sorted(tuple(r.tolist()) for r in na):
        ev.oracle.append("rows: the performance note array is not the union of its parts' note arrays (%d rows, parts have %d)" % (
            len(na), len(want)))
    fwd, bwd = {}, {}
    for i, (pp, o) in enumerate(zip(pps, old)):
        for n, t0 in zip(pp.notes, o):
            k, t = (i, t0), int(n["track"])
            if fwd.setdefault(k, t) != t:
                ev.oracle.append("tracks: (part, track) %s is sent to both %d and %d" % (k, fwd[k], t))
            if bwd.setdefault(t, k) != k:
                ev.oracle.append("tracks: new track %d is shared by %s and %s" % (t, bwd[t], k))
    ev.info = {"perf_parts": len(parts), "perf_rows": len(na)}
    if len(na) >= 2:
        ev.key = ev.requests[0]
    return ev


def eval_np(d):
    import numpy as np

    ev = Eval()
    if d["k"] == "npst":
        a = np.array([_num(v, k) for v, k in d["a"]])
        ev.requests.append("npstore %s %s" % (W.lst(lambda vk: _kind_tok(_num(*vk)), d["a"]), W.q(d["x"])))
        a[0] = d["x"]
        isint = a.dtype.kind in "iu"
        ev.impl.append(W.f_tuple("I" if isint else "F", W.f_rat(F(a[0]))))
        if isint != all(_kind_tok(_num(v, k)) == "I" for v, k in d["a"]):
            ev.oracle.append("numpy: np.array of kinds %s has dtype %s" % ([k for _, k in d["a"]], a.dtype))
        want = F(d["x"]) if not isint else Fraction(int(F(d["x"])))  # int() of a Fraction truncates toward zero
        if F(a[0]) != want:
            ev.oracle.append("numpy: storing %s into an array of dtype %s leaves %s" % (d["x"], a.dtype, a[0]))
        ev.key = ev.requests[0]
        return ev
    a = np.array(d["a"], dtype=float)
    if d["k"] == "ss":
        ev.requests.append("ssorted %s %s" % (W.lst(W.q, d["a"]), W.q(d["x"])))
        i = int(np.searchsorted(a, d["x"]))
        ev.impl.append(W.f_tuple(W.f_int(i), W.f_int(i)))
        if not (all(t < d["x"] for t in d["a"][:i]) and all(d["x"] <= t for t in d["a"][i:])):
            ev.oracle.append("numpy: searchsorted(%s, %s) = %d breaks a[:i] < x <= a[i:]" % (d["a"], d["x"], i))
    else:
        ev.requests.append("asort %s" % W.lst(W.q, d["a"]))
        idx = [int(i) for i in np.argsort(a, kind="stable")]
        ev.impl.append(W.f_list(W.f_int, idx))
        if idx != sorted(range(len(d["a"])), key=lambda i: (d["a"][i], i)):
            ev.oracle.append("numpy: argsort(kind='stable') of %s = %s is not the stable order" % (d["a"], idx))
    if len(d["a"]):
        ev.key = ev.requests[0]
    return ev



# ---------------------------------------------------------------------------------- round 5 evaluators
def _nview(n):
    g = n.pnote_dict
    return W.f_tuple(str(g.get("id")), W.f_int(g["pitch"]), W.f_opt(W.f_int, g.get("midi_pitch")), W.f_rat(F(g["note_on"])),
                     W.f_rat(F(g["note_off"])), W.f_rat(F(g["sound_off"])), W.f_int(g["velocity"]), W.f_int(g["track"]),
                     W.f_int(g["channel"]), W.f_opt(W.f_int, g.get("note_on_tick")), W.f_opt(W.f_int, g.get("note_off_tick")))


def _set_tok(k, v):
    if k in ("note_on", "note_off", "sound_off"):
        return "%s %s" % (k, W.q(v))
    if k == "id":
        return "id %s" % W.s(v)
    if k in INT_KEYS:
        return "%s %d" % (k, v)
    return "other"


def _key_tok(k):
    return k if k in KEYS else "other"


def eval_note(d):
    import partitura.performance as P

    ev = Eval()
    raw, ops = d["raw"], d["ops"]
    toks = []
    for o in ops:
        if o[0] == "S":
            toks.append("S " + _set_tok(o[1], o[2]))
        elif o[0] in ("G", "H", "D"):
            toks.append("%s %s" % (o[0], _key_tok(o[1])))
        else:
            toks.append(o[0])
    ev.requests.append("note %s %d %s" % (_raw_toks(raw), len(ops), " ".join(toks)))
    wf = _wellformed_raw(raw)
    try:
        n = P.PerformedNote(dict(raw))
    except Exception as e:
        ev.impl.append("err")
        if wf is True:
            ev.oracle.append("total: PerformedNote raised %s: %s on a well-formed note" % (type(e).__name__, e))
        return ev
    if wf is None:
        ev.oracle.append("validation: a note with onset<0, release<onset, pitch or velocity outside 0..127 was accepted")
    v0 = _nview(n)
    steps = []
    cnt = {}
    for o in ops:
        try:
            if o[0] == "S":
                n[o[1]] = o[2]
                tok = "ok"
            elif o[0] == "G":
                v = n[o[1]]
                if v is None:
                    tok = "None"
                elif o[1] == "id":
                    tok = str(v)
                elif o[1] in ("note_on", "note_off", "sound_off"):
                    tok = W.f_rat(F(v))
                else:
                    tok = W.f_int(v)
            elif o[0] == "H":
                tok = W.f_bool(o[1] in n)
            elif o[0] == "L":
                tok = "%d" % len(n)
            elif o[0] == "D":
                del n[o[1]]
                tok = "ok"
            else:
                # (the property is silent about copies: compared with the model only — the copy of a note whose current
                # values pass the validators is that note, any other note cannot be copied)
                m = n.copy()
                n = m
                tok = "ok"
        except Exception as e:
            tok = _errtok(e)
        cnt["note_%s_%s" % (o[0], "ok" if tok not in ("K", "V", "I") else tok)] = cnt.get("note_%s_%s" % (o[0], "ok" if tok not in ("K", "V", "I") else tok), 0) + 1
        steps.append(W.f_tuple(tok, _nview(n)))
    ev.impl.append(W.f_tuple(v0, "[" + ",".join(steps) + "]"))
    ev.info = cnt
    ev.key = ev.requests[0]
    return ev


def _ctl_view(pp):
    return "[" + ",".join(W.f_tuple(W.f_int(c["number"]), W.f_rat(F(c["time"])), W.f_int(c["value"])) for c in pp.controls) + "]"


def _xop_tok(o):
    if o[0] == "T":
        return "T %d" % o[1]
    if o[0] == "S":
        return "S %d %s" % (o[1], _set_tok(o[2], o[3]))
    if o[0] == "A":
        return "A " + _raw_toks(o[1])
    if o[0] == "X":
        return "X %d" % o[1]
    if o[0] == "I":
        return "I %d %s" % (o[1], _raw_toks(o[2]))
    if o[0] == "Y":
        return "Y %d" % o[1]
    if o[0] == "O":
        return "O %s" % o[1]
    c = o[1]
    if c == "append":
        return "C append %s %s %s %s" % (W.i(o[2]["n"]), W.q(o[2]["t"]), W.i(o[2]["v"]), W.opt(W.i, o[2]["tr"]))
    if c == "del":
        return "C del %d" % o[2]
    if c == "time":
        return "C time %d %s" % (o[2], W.q(o[3]))
    if c in ("number", "value"):
        return "C %s %d %d" % (c, o[2], o[3])
    return "C replace " + _req_controls(o[2])


def eval_xhist(d):
    import partitura.performance as P

    ev = Eval()
    raws, controls, thr0, ops, mpq, ppq = d["notes"], d["controls"], d["thr"], d["ops"], d["mpq"], d["ppq"]
    ordered = d["k"] == "ohist"
    ev.requests.append("%s %d %d %d %s %s %d %s" % (d["k"], thr0, mpq, ppq, _req_raws(raws), _req_controls(controls), len(ops),
                                                    " ".join(_xop_tok(o) for o in ops)))
    wf = [_wellformed_raw(r) for r in raws]
    try:
        pp = P.PerformedPart(_mk_notes(P, raws, d.get("obj")), id="P0", controls=_control_dicts(controls),
                             sustain_pedal_threshold=thr0, ppq=ppq, mpq=mpq)
    except Exception as e:
        ev.impl.append("err")
        if all(w is True for w in wf):
            ev.oracle.append("total: building the part raised %s: %s (thr=%d)" % (type(e).__name__, e, thr0))
        return ev
    if any(w is None for w in wf):
        ev.oracle.append("validation: a note with onset<0, release<onset, pitch or velocity outside 0..127 was accepted")
    contra = [_contra(r) for r in raws]
    cur = [dict(c) for c in controls]  # the control stream as it is now (description level, for the reference)
    judged = 1 if _judge_state(ev, pp, cur, thr0, "construction", contra) else 0
    v0 = _view(pp)
    steps = []
    cnt = {}
    last_thr = thr0
    for oi, o in enumerate(ops):
        what = o[0] + ("_" + o[1] if o[0] == "C" else "")
        try:
            if o[0] == "T":
                pp.sustain_pedal_threshold = o[1]
                last_thr = o[1]
                judged += 1 if _judge_state(ev, pp, cur, o[1], "assignment %d (after removals / control edits)" % oi, contra) else 0
                if all(_claimed(n.pnote_dict) for n in pp.notes) and not any(contra) and all(
                        _wellformed_raw({k: v for k, v in n.pnote_dict.items() if k != "sound_off"}) is True for n in pp.notes):
                    # setting = recomputing from what the part holds NOW: a part freshly built from the current notes
                    # (without their sounding ends) and the current controls sounds the same
                    cp = [{k: v for k, v in n.pnote_dict.items() if k != "sound_off"} for n in pp.notes]
                    try:
                        fresh = P.PerformedPart(cp, controls=[dict(c) for c in pp.controls], sustain_pedal_threshold=o[1])
                        a, b = _sounds(pp), _sounds(fresh)
                        if a != b:
                            ev.oracle.append("recompute: after statement %d the notes sound until %s, a part freshly built from the "
                                             "current notes and controls gives %s" % (oi, a, b))
                        if ordered and len(cp) > 1:
                            # (round 6) the order of the list is irrelevant: the same notes in reversed order and sorted
                            # by release sound the same, note by note (where the property fixes the sounding end)
                            det = [kind == "eq" for kind, _ in reference(
                                [{"p": g["pitch"], "on": g["note_on"], "off": g["note_off"]} for g in cp], cur, o[1])]
                            for name, perm in (("reversed", list(range(len(cp)))[::-1]),
                                               ("sorted by release", sorted(range(len(cp)), key=lambda j: (cp[j]["note_off"], -j)))):
                                other = P.PerformedPart([dict(cp[j]) for j in perm], controls=[dict(c) for c in pp.controls],
                                                        sustain_pedal_threshold=o[1])
                                c_ = _sounds(other)
                                for pos, j in enumerate(perm):
                                    if det[j] and c_[pos] != a[j]:
                                        ev.oracle.append("order: after statement %d note %d sounds until %s; with the same notes %s "
                                                         "it sounds until %s" % (oi, j, a[j], name, c_[pos]))
                                        break
                            cnt["order_checked_states"] = cnt.get("order_checked_states", 0) + 1
                    except Exception as e:
                        ev.oracle.append("total: building a part from the current notes raised %s: %s" % (type(e).__name__, e))
            elif o[0] == "S":
                pp.notes[o[1]][o[2]] = o[3]
                if o[2] == "pitch":
                    contra[o[1]] = False
            elif o[0] == "A":
                pp.notes.append(P.PerformedNote(dict(o[1])))
                contra.append(_contra(o[1]))
            elif o[0] == "X":
                if o[1] >= len(pp.notes):
                    raise IndexError("no such note")
                del pp.notes[o[1]]
                del contra[o[1]]
            elif o[0] == "I":
                pp.notes.insert(o[1], P.PerformedNote(dict(o[2])))
                contra.insert(o[1], _contra(o[2]))
            elif o[0] == "Y":
                pp.notes[o[1]] = pp.notes[o[1]].copy()
            elif o[0] == "O":
                before = [(id(n), n["sound_off"]) for n in pp.notes]
                tagged = list(zip(pp.notes, contra))
                if o[1] == "sort":
                    pp.notes.sort()
                elif o[1] == "desc":
                    pp.notes.sort(reverse=True)
                else:
                    pp.notes.reverse()
                # `contra` follows its note (identity)
                pos = {}
                for n, cflag in tagged:
                    pos.setdefault(id(n), []).append(cflag)
                contra = [pos[id(n)].pop(0) for n in pp.notes]
                if sorted(before) != sorted((id(n), n["sound_off"]) for n in pp.notes):
                    ev.oracle.append("order: statement %d (%s) lost, duplicated or changed a note" % (oi, o[1]))
                what = "O_" + o[1]
            else:
                c = o[1]
                if c == "append":
                    pp.controls.append(_control_dicts([o[2]])[0])
                    cur.append(dict(o[2]))
                elif c == "del":
                    del pp.controls[o[2]]
                    del cur[o[2]]
                elif c == "replace":
                    pp.controls = _control_dicts(o[2])
                    cur = [dict(x) for x in o[2]]
                else:
                    pp.controls[o[2]][c] = o[3]
                    cur[o[2]] = dict(cur[o[2]], **{{"number": "n", "time": "t", "value": "v"}[c]: o[3]})
            tok = "ok"
        except Exception as e:
            tok = _errtok(e)
            if o[0] == "T":
                tok = "F"
                ev.oracle.append("total: assigning the threshold raised %s: %s" % (type(e).__name__, e))
        cnt["x_%s_%s" % (what, tok)] = cnt.get("x_%s_%s" % (what, tok), 0) + 1
        steps.append(W.f_tuple(tok, _view(pp), _ctl_view(pp)))
    try:
        na = pp.note_array()
        rows = "[" + ",".join(_arow(r) for r in na) + "]"
        _judge_rows(ev, pp, na, "after the history", contra)
    except Exception as e:
        rows = "err"
        ev.oracle.append("total: note_array raised %s: %s" % (type(e).__name__, e))
    ntr = pp.num_tracks
    want = len(set([n["track"] for n in pp.notes] + [c.get("track", -1) for c in pp.controls]))
    if ntr != want:
        ev.oracle.append("tracks: num_tracks of the part is %d, its notes and controls are on %d tracks" % (ntr, want))
    if ordered:
        ev.impl.append(W.f_tuple(v0, "[" + ",".join(steps) + "]", rows))
    else:
        ev.impl.append(W.f_tuple(v0, "[" + ",".join(steps) + "]", rows, "%d" % ntr, _ctl_view(pp)))
    cnt["%s_judged_states" % d["k"]] = judged
    ev.info = cnt
    if pp.notes or steps:
        ev.key = ev.requests[0]
    return ev


def eval_defaults(d):
    import inspect

    import partitura.performance as P

    ev = Eval()
    notes, controls = d["notes"], d["controls"]
    blank = P.PerformedPart([])
    mpq, ppq = blank.mpq, blank.ppq  # the live defaults (a given tick of the description is relative to them)
    ev.requests.append("defaults %s %s" % (_req_notes(notes, mpq, ppq), _req_controls(controls)))
    try:
        pp = P.PerformedPart(_note_dicts(notes, mpq, ppq), controls=_control_dicts(controls))
        so = _sounds(pp)
        na = pp.note_array()
        rows = [(F(r["onset_sec"]), F(r["duration_sec"]), int(r["onset_tick"]), int(r["duration_tick"]),
                 int(r["pitch"]), int(r["velocity"]), int(r["track"]), int(r["channel"])) for r in na]
        plain = _note_dicts(notes, mpq, ppq)
        for g in plain:  # what PerformedNote would add; the function itself only needs the three keys it reads
            g.setdefault("pitch", g["midi_pitch"])
        P.adjust_offsets_w_sustain(plain, _control_dicts(controls))
        direct = [F(g["sound_off"]) for g in plain]
    except Exception as e:
        ev.impl.append("err")
        ev.oracle.append("total: building the part with the keyword defaults raised %s: %s" % (type(e).__name__, e))
        return ev
    ev.impl.append(W.f_tuple(_fmt_q(so), W.f_list(lambda r: W.f_tuple(W.f_rat(r[0]), W.f_rat(r[1]), *[W.f_int(x) for x in r[2:]]), rows),
                             _fmt_q(direct)))
    # the property under whatever threshold is in force
    for snd, thr, what in ((so, pp.sustain_pedal_threshold, "default threshold of the part"),
                           (direct, inspect.signature(P.adjust_offsets_w_sustain).parameters["threshold"].default,
                            "default threshold of adjust_offsets_w_sustain")):
        for i, (s_, (kind, val)) in enumerate(zip(snd, reference(notes, controls, thr))):
            rel = F(notes[i]["off"])
            if s_ < rel:
                ev.oracle.append("ge_release: %s thr=%s note %d sounds until %s < release %s" % (what, thr, i, s_, rel))
            elif kind == "eq" and s_ != val:
                ev.oracle.append("pedal: %s thr=%s note %d sounds until %s, the pedal dictates %s" % (what, thr, i, s_, val))
    for i, (r, n) in enumerate(zip(rows, notes)):
        if not n.get("ot") and r[2] != ref_tick(F(n["on"]), pp.mpq, pp.ppq):
            ev.oracle.append("rows: note %d onset_tick %d != ticks(onset_sec) %d under the part's ppq=%d mpq=%d" % (
                i, r[2], ref_tick(F(n["on"]), pp.mpq, pp.ppq), pp.ppq, pp.mpq))
    ev.info = {"defaults_cases": 1}
    ev.key = ev.requests[0]
    return ev


def _box_toks(p):
    return " ".join([W.lst(W.i, p["notes"]), W.lst(lambda x: W.opt(W.i, x), p["controls"]),
                     W.lst(lambda x: W.opt(W.i, x), p["programs"]), W.lst(lambda x: W.opt(W.i, x), p["metas"])])


def _mk_boxpart(P, p, name):
    notes = [dict(id="%sn%d" % (name, i), midi_pitch=60, note_on=float(i), note_off=float(i) + 0.5, velocity=64, track=t, channel=1)
             for i, t in enumerate(p["notes"])]

    def lst(ts, **kw):
        out = []
        for t in ts:
            c = dict(kw)
            if t is not None:
                c["track"] = t
            out.append(c)
        return out

    m = p["metas"]
    a, b = len(m) // 3, len(m) - len(m) // 3
    return P.PerformedPart(notes, id=name, controls=lst(p["controls"], type="sustain_pedal", number=64, time=0.0, value=0, channel=1),
                           programs=lst(p["programs"], time=0.0, program=1, channel=1),
                           key_signatures=lst(m[:a], time=0.0, key="C"), time_signatures=lst(m[a:b], time=0.0, beats=4, beat_type=4),
                           meta_other=lst(m[b:], time=0.0, text="x"))


def _box_snap(pps):
    out = []
    for pp in pps:
        out.append(([n["track"] for n in pp.notes], [c.get("track") for c in pp.controls], [c.get("track") for c in pp.programs],
                    [c.get("track") for c in pp.key_signatures + pp.time_signatures + pp.meta_other]))
    return out


def _box_view(perf):
    snap = _box_snap(perf.performedparts)
    fo = lambda l: W.f_list(lambda x: W.f_opt(W.f_int, x), l)
    return W.f_tuple("%d" % len(perf), "%d" % perf.num_tracks, W.f_list(W.f_int, [pp.num_tracks for pp in perf.performedparts]),
                     W.f_list(lambda x: W.f_tuple(W.f_list(W.f_int, x[0]), fo(x[1]), fo(x[2]), fo(x[3])), snap))


def _judge_renumbered(ev, before, after, ntr, what):
    """`before` / `after`: snapshots around one renumbering.  Unique without mixing parts: the new number is a function
    of (part, old track) on the notes, controls and programs, injective; a key / time signature or other meta event
    that was on a track of its part's notes, controls or programs is still on it; num_tracks counts the pairs."""
    old = lambda t: -1 if t is None else t
    fwd, bwd = {}, {}
    for i, (b, a) in enumerate(zip(before, after)):
        for f in range(3):
            for t0, t1 in zip(b[f], a[f]):
                k = (i, old(t0))
                if t1 is None or fwd.setdefault(k, t1) != t1:
                    ev.oracle.append("tracks: %s: (part, track) %s is sent to both %s and %s" % (what, k, fwd.get(k), t1))
                elif bwd.setdefault(t1, k) != k:
                    ev.oracle.append("tracks: %s: new track %s is shared by %s and %s" % (what, t1, bwd[t1], k))
    for i, (b, a) in enumerate(zip(before, after)):
        for t0, t1 in zip(b[3], a[3]):
            k = (i, old(t0))
            if k in fwd and t1 != fwd[k]:
                ev.oracle.append("tracks: %s: a meta event of part %d on old track %s is now on %s, the notes / controls of that "
                                 "track on %s" % (what, i, t0, t1, fwd[k]))
    if ntr != len(fwd):
        ev.oracle.append("tracks: %s: num_tracks %d, %d distinct (part, track) pairs" % (what, ntr, len(fwd)))
    return len(fwd)


def eval_box(d):
    import partitura.performance as P

    ev = Eval()
    kind, parts, ens, ops = d["arg"], d["parts"], d.get("ensure"), d["ops"]
    pps = [_mk_boxpart(P, p, "P%d" % i) for i, p in enumerate(parts)]
    junk = d.get("junk") or []
    if kind == "single":
        arg, atok = pps[0], "single " + _box_toks(parts[0])
    elif kind == "other":
        arg, atok = 5, "other"
    elif kind == "str":
        arg, atok = "ab", "items 2 - -"
    elif kind == "dict":
        arg, atok = {"k%d" % i: pp for i, pp in enumerate(pps)}, "items %d %s" % (len(pps), " ".join("-" for _ in pps))
    elif kind == "junk":
        items, toks = [], []
        for i, pp in enumerate(pps + [None]):
            if i in junk:
                items.append({"not": "a part"})
                toks.append("-")
            if pp is not None:
                items.append(pp)
                toks.append(_box_toks(parts[i]))
        arg, atok = items, "items %d %s" % (len(items), " ".join(toks))
    else:
        atok = "items %d %s" % (len(pps), " ".join(_box_toks(p) for p in parts))
        arg = {"list": lambda: list(pps), "tuple": lambda: tuple(pps), "gen": lambda: (pp for pp in pps), "iter": lambda: iter(pps),
               "map": lambda: map(lambda x: x, pps)}[kind]()
    otoks = []
    for o in ops:
        otoks.append("Z" if o[0] == "Z" else "P %d %s" % (o[1], _box_toks(o[2])) if o[0] == "P" else "Q " + _box_toks(o[1]))
    ev.requests.append("box %s %s %d %s" % (W.opt(W.b, ens), atok, len(ops), " ".join(otoks)))
    proper = kind in ("list", "tuple", "gen", "iter", "map", "single")
    before = _box_snap(pps)
    try:
        perf = P.Performance(arg) if ens is None else P.Performance(arg, ensure_unique_tracks=ens)
    except Exception as e:
        ev.impl.append("err")
        if proper:
            ev.oracle.append("container: Performance(<%s of %d parts>) raised %s: %s" % (kind, len(pps), type(e).__name__, e))
        ev.info = {"box_arg_%s_rejected" % kind: 1}
        return ev
    info = {"box_arg_%s_accepted" % kind: 1}
    if proper:
        if len(perf) != len(pps) or any(a is not b for a, b in zip(perf.performedparts, pps)):
            ev.oracle.append("container: Performance(<%s of %d parts>) holds %d parts" % (kind, len(pps), len(perf)))
        elif ens is not False:  # `ensure_unique_tracks` given as True or left at its default
            info["box_pairs"] = _judge_renumbered(ev, before, _box_snap(perf.performedparts), perf.num_tracks, "construction")
    v0 = _box_view(perf)
    steps = []
    for oi, o in enumerate(ops):
        try:
            if o[0] == "Z":
                b4 = _box_snap(perf.performedparts)
                perf.sanitize_track_numbers()
                af = _box_snap(perf.performedparts)
                _judge_renumbered(ev, b4, af, perf.num_tracks, "statement %d" % oi)
                info["box_metas_followed"] = info.get("box_metas_followed", 0) + sum(
                    1 for i, (b, a) in enumerate(zip(b4, af)) for t0 in b[3]
                    if (-1 if t0 is None else t0) in [(-1 if t is None else t) for f in range(3) for t in b[f]])
                info["box_metas_left"] = info.get("box_metas_left", 0) + sum(
                    1 for i, (b, a) in enumerate(zip(b4, af)) for t0 in b[3]
                    if (-1 if t0 is None else t0) not in [(-1 if t is None else t) for f in range(3) for t in b[f]])
                # renumbering again changes nothing
                perf.sanitize_track_numbers()
                if _box_snap(perf.performedparts) != af:
                    ev.oracle.append("tracks: statement %d: renumbering a second time changed the numbers: %s -> %s" % (
                        oi, af, _box_snap(perf.performedparts)))
            elif o[0] == "P":
                perf[o[1]] = _mk_boxpart(P, o[2], "S%d" % oi)
            else:
                perf.performedparts.append(_mk_boxpart(P, o[1], "Q%d" % oi))
            tok = "ok"
        except Exception as e:
            tok = _errtok(e) if o[0] != "Z" else "F"
            if o[0] == "Z":
                ev.oracle.append("tracks: renumbering raised %s: %s" % (type(e).__name__, e))
        info["box_%s_%s" % (o[0], tok)] = info.get("box_%s_%s" % (o[0], tok), 0) + 1
        steps.append(W.f_tuple(tok, _box_view(perf)))
    ev.impl.append(W.f_tuple(v0, "[" + ",".join(steps) + "]"))
    ev.info = info
    if len(perf) >= 1:
        ev.key = ev.requests[0]
    return ev


def eval_fnap(d):
    """round 6, composition through the PERFORMANCE's note array: from_note_array(Performance(pp).note_array()[columns])
    has the same pitches, velocities, onsets and sounding ends as pp (as a table: the array is sorted by onset and pitch)"""
    import partitura.performance as P

    ev = Eval()
    notes, controls, thr, mpq, ppq, ff = d["notes"], d["controls"], d["thr"], d["mpq"], d["ppq"], d["ff"]
    raws = _note_dicts(notes, mpq, ppq, d.get("sid"))
    ev.requests.append("fnap %d %d %d %s %s 0 %s" % (thr, mpq, ppq, _req_raws(raws), _req_controls(controls),
                                                     " ".join(W.b(x) for x in ff)))
    cols = (["onset_sec", "duration_sec"] if ff[0] else []) + ["onset_tick", "duration_tick", "pitch"] + (
        ["velocity"] if ff[1] else []) + (["id"] if ff[2] else []) + (["track"] if ff[3] else []) + (["channel"] if ff[4] else [])
    try:
        pp = P.PerformedPart([dict(r) for r in raws], id="P0", controls=_control_dicts(controls), sustain_pedal_threshold=thr,
                             ppq=ppq, mpq=mpq)
        snd = _sounds(pp)
        perf = P.Performance(pp if d.get("single") else [pp])
        na = perf.note_array()
    except Exception as e:
        ev.impl.append("err")
        if notes:
            ev.oracle.append("total: building the part / the performance's note array raised %s: %s" % (type(e).__name__, e))
        return ev
    try:
        back = P.PerformedPart.from_note_array(na[cols])
        bna = back.note_array()
    except Exception as e:
        ev.impl.append("err")
        if (ff[0] and ff[1]) or not notes:
            ev.oracle.append("from_note_array: columns %s of the performance's array: raised %s: %s" % (cols, type(e).__name__, e))
        return ev
    ev.impl.append(W.f_tuple("[" + ",".join(_arow(r) for r in na) + "]", _view(back), "[" + ",".join(_arow(r) for r in bna) + "]"))
    got = sorted((int(b["pitch"]), int(b["velocity"]), F(b["note_on"]), F(b["sound_off"])) for b in back.notes)
    want = sorted((n["p"], n["v"], F(n["on"]), s_) for n, s_ in zip(notes, snd))
    if got != want:
        ev.oracle.append("from_note_array: rebuilt from the performance's note array (columns %s): (pitch, velocity, onset, "
                         "sounding end) %s != %s" % (cols, got[:4], want[:4]))
    ev.info = {"fnap_rows": len(na), "fnap_reordered": int([str(r["id"]) for r in na] != [str(r["id"]) for r in pp.note_array()])}
    if len(na) >= 2:
        ev.key = ev.requests[0]
    return ev


def eval_cmp(d):
    """round 6: the comparison protocol of PerformedNote — compared with the model only (the property is silent about it)"""
    import partitura.performance as P

    ev = Eval()
    ev.requests.append("cmp %s %s" % (_raw_toks(d["a"]), _raw_toks(d["b"])))
    try:
        a, b = P.PerformedNote(dict(d["a"])), P.PerformedNote(dict(d["b"]))
    except Exception:
        ev.impl.append("err")
        ev.info = {"cmp_rejected": 1}
        return ev
    try:
        res = [bool(a < b), bool(a <= b), bool(a > b), bool(a >= b), bool(a == b), hash(a) == hash(b)]
        ev.impl.append(W.f_tuple(*([W.f_bool(x) for x in res] + [str(a)])))
        ev.info = {"cmp_lt": int(res[0]), "cmp_gt": int(res[2]), "cmp_tie": int(res[1] and res[3]), "cmp_eq": int(res[4]),
                   "cmp_samehash": int(res[5])}
    except Exception as e:
        ev.impl.append("raised %s" % type(e).__name__)
    ev.key = ev.requests[0]
    return ev


def eval_ticks(d):
    """round 6: seconds_to_midi_ticks / midi_ticks_to_seconds against the model, and the clause "seconds and ticks agree
    under ppq and mpq" (within half a tick, exact on whole ticks, monotone) judged independently on exact rationals"""
    from partitura.utils.music import seconds_to_midi_ticks, midi_ticks_to_seconds

    ev = Eval()
    mpq, ppq = d["mpq"], d["ppq"]
    ts = [Fraction(a, b) for a, b in d["ts"]]
    req = "%d %d %d %s" % (mpq, ppq, len(ts), " ".join(W.q(t) for t in ts))
    ev.requests.append("ticks " + req)
    ev.requests.append("tickback " + req)
    try:
        ks = [seconds_to_midi_ticks(float(t), mpq=mpq, ppq=ppq) for t in ts]
        back = [float(midi_ticks_to_seconds(k, mpq=mpq, ppq=ppq)) for k in ks]
    except Exception as e:
        ev.impl += ["err", "err"]
        ev.oracle.append("total: the tick conversion raised %s: %s" % (type(e).__name__, e))
        return ev
    ev.impl.append(W.f_list(W.f_int, ks))
    ev.impl.append(("@approx", back, 1e-12))
    tick = Fraction(mpq, 10**6 * ppq)
    ties = whole = 0
    for t, k in zip(ts, ks):
        x = t / tick
        if abs(Fraction(int(k)) - x) > Fraction(1, 2):
            ev.oracle.append("ticks: %s s is %s ticks (mpq=%d ppq=%d), reported %d: more than half a tick off" % (t, x, mpq, ppq, k))
        elif int(k) != ref_tick(t, mpq, ppq):
            # the reading of "agree" every clause `rows` uses: the tick is the time rounded half to even
            ev.oracle.append("ticks: %s s is %s ticks (mpq=%d ppq=%d), reported %d, rounded half to even %d" % (
                t, x, mpq, ppq, k, ref_tick(t, mpq, ppq)))
        if x.denominator == 1:
            whole += 1
            if int(k) != x:
                ev.oracle.append("ticks: %s s is exactly %s ticks (mpq=%d ppq=%d), reported %d" % (t, x, mpq, ppq, k))
        if x.denominator == 2:
            ties += 1
    for k, bk in zip(ks, back):
        want = Fraction(int(k)) * tick
        if abs(Fraction(bk) - want) > Fraction(1, 10**9) * max(1, abs(want)):
            ev.oracle.append("ticks: %d ticks are %s s (mpq=%d ppq=%d), midi_ticks_to_seconds gives %r" % (k, want, mpq, ppq, bk))
    for (t1, k1), (t2, k2) in zip(sorted(zip(ts, ks)), sorted(zip(ts, ks))[1:]):
        if k1 > k2:
            ev.oracle.append("ticks: %s s <= %s s but tick %d > tick %d" % (t1, t2, k1, k2))
    ev.info = {"tick_times": len(ts), "tick_ties": ties, "tick_whole": whole}
    ev.key = ev.requests[0]
    return ev


def evaluate(d):
    if d["k"] == "tracks":
        return eval_tracks(d)
    if d["k"] == "hist":
        return eval_hist(d)
    if d["k"] == "perf":
        return eval_perf(d)
    if d["k"] in ("ss", "asort", "npst"):
        return eval_np(d)
    if d["k"] in ("xhist", "ohist"):
        return eval_xhist(d)
    if d["k"] == "cmp":
        return eval_cmp(d)
    if d["k"] == "fnap":
        return eval_fnap(d)
    if d["k"] == "ticks":
        return eval_ticks(d)
    if d["k"] == "note":
        return eval_note(d)
    if d["k"] == "defaults":
        return eval_defaults(d)
    if d["k"] == "box":
        return eval_box(d)
    return eval_part(d)


def finding_key(desc, failure):
    return "C14/" + failure.split(":")[0]


def shrink(d):
    if d["k"] == "tracks":
        for i in range(len(d["parts"])):
            yield dict(d, parts=d["parts"][:i] + d["parts"][i + 1:])
        for i, p in enumerate(d["parts"]):
            for f in ("notes", "controls", "programs"):
                for j in range(len(p[f])):
                    q = dict(p)
                    q[f] = p[f][:j] + p[f][j + 1:]
                    yield dict(d, parts=d["parts"][:i] + [q] + d["parts"][i + 1:])
        return
    if d["k"] in ("ss", "asort", "npst"):
        for i in range(len(d["a"])):
            if d["k"] != "npst" or len(d["a"]) > 1:
                yield dict(d, a=d["a"][:i] + d["a"][i + 1:])
        return
    if d["k"] == "perf":
        for i in range(len(d["parts"])):
            yield dict(d, parts=d["parts"][:i] + d["parts"][i + 1:])
        for i, p in enumerate(d["parts"]):
            for f in ("notes", "controls", "programs"):
                for j in range(len(p[f])):
                    q = dict(p)
                    q[f] = p[f][:j] + p[f][j + 1:]
                    if f == "notes":  # ids carry the position
                        q[f] = [dict(r, id="n%d" % k) if "id" in r else r for k, r in enumerate(q[f])]
                    yield dict(d, parts=d["parts"][:i] + [q] + d["parts"][i + 1:])
        return
    if d["k"] == "cmp":
        for w in ("a", "b"):
            for k in ("sound_off", "note_on_tick", "note_off_tick", "track", "channel", "velocity", "id"):
                if k in d[w]:
                    q = dict(d[w])
                    del q[k]
                    yield dict(d, **{w: q})
        return
    if d["k"] == "ticks":
        for i in range(len(d["ts"])):
            yield dict(d, ts=d["ts"][:i] + d["ts"][i + 1:])
        return
    if d["k"] == "fnap":
        for f in ("controls", "notes"):
            for i in range(len(d[f])):
                yield dict(d, **{f: d[f][:i] + d[f][i + 1:]})
        return
    if d["k"] in ("xhist", "ohist", "note", "box"):
        ops = d["ops"]
        for i in range(len(ops) - 1, -1, -1):
            yield dict(d, ops=ops[:i] + ops[i + 1:])
        if d["k"] in ("xhist", "ohist"):
            for i in range(len(d["controls"])):
                if not any(o[0] == "C" for o in ops):
                    yield dict(d, controls=d["controls"][:i] + d["controls"][i + 1:])
            if not any(o[0] in ("S", "X", "I", "Y") for o in ops):
                for i in range(len(d["notes"])):
                    yield dict(d, notes=d["notes"][:i] + d["notes"][i + 1:])
            if d.get("obj"):
                yield dict(d, obj=False)
        if d["k"] == "box" and d["arg"] not in ("single", "junk") and not any(o[0] == "P" for o in ops):
            for i in range(len(d["parts"])):
                yield dict(d, parts=d["parts"][:i] + d["parts"][i + 1:])
        if d["k"] == "box":
            for i, p in enumerate(d["parts"]):
                for f in ("notes", "controls", "programs", "metas"):
                    for j in range(len(p[f])):
                        q = dict(p)
                        q[f] = p[f][:j] + p[f][j + 1:]
                        yield dict(d, parts=d["parts"][:i] + [q] + d["parts"][i + 1:])
        return
    if d["k"] == "defaults":
        for f in ("controls", "notes"):
            for i in range(len(d[f])):
                if f == "controls" or len(d[f]) > 1:
                    yield dict(d, **{f: d[f][:i] + d[f][i + 1:]})
        return
    if d["k"] == "hist":
        ops = d["ops"]
        for i in range(len(ops) - 1, -1, -1):
            yield dict(d, ops=ops[:i] + ops[i + 1:])
        for i in range(len(d["controls"])):
            yield dict(d, controls=d["controls"][:i] + d["controls"][i + 1:])
        for i in range(len(d["notes"])):
            # indices of later statements shift
            nops = []
            for o in ops:
                if o[0] == "S":
                    if o[1] == i:
                        continue
                    nops.append(["S", o[1] - 1 if o[1] > i else o[1]] + list(o[2:]))
                else:
                    nops.append(o)
            yield dict(d, notes=d["notes"][:i] + d["notes"][i + 1:], ops=nops)
        for i, r in enumerate(d["notes"]):
            for k in ("sound_off", "note_on_tick", "note_off_tick", "track", "channel", "velocity"):
                if k in r:
                    q = dict(r)
                    del q[k]
                    yield dict(d, notes=d["notes"][:i] + [q] + d["notes"][i + 1:])
        if d.get("obj"):
            yield dict(d, obj=False)
        return
    if len(d["thrs"]) > 1:
        for i in range(len(d["thrs"])):
            yield dict(d, thrs=d["thrs"][:i] + d["thrs"][i + 1:])
        yield dict(d, thrs=d["thrs"][:1])
        yield dict(d, thrs=d["thrs"][-1:])
    for f in ("controls", "notes"):
        n = len(d[f])
        if n > 4:
            yield dict(d, **{f: d[f][: n // 2]})
            yield dict(d, **{f: d[f][n // 2:]})
        for i in range(n):
            yield dict(d, **{f: d[f][:i] + d[f][i + 1:]})
    for i, n in enumerate(d["notes"]):
        if n.get("ot"):
            yield dict(d, notes=d["notes"][:i] + [dict(n, ot=False)] + d["notes"][i + 1:])


def distribution(descs, results):
    from collections import Counter

    kinds = Counter(d["k"] for d in descs)
    tot = Counter()
    for r in results:
        for k, v in (r.get("info") or {}).items():
            tot[k] += v
    return {"kinds": dict(kinds), "totals": dict(tot),
            "cases_with_128_thresholds": sum(1 for d in descs if d["k"] == "part" and len(set(d["thrs"])) == 128)}
