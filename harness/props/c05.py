"""C05 - the note array is a faithful table of the score.

Readings (where the property's words leave a choice, the one under which the repaired code is right):

* "ordered by onset, then pitch": by the stored `onset_beat` column (float32, the unit
  `get_time_units_from_note_array` picks), then by `pitch`; rows equal in both are unordered
  (the first numpy sort is not stable) and are canonicalised before comparing.
* "quarter and beat values equal the part's time maps", "optional columns equal what the score
  states at the onset": the oracle compares the columns with the part's OWN maps (`beat_map`,
  `quarter_map`, `key_signature_map`, `time_signature_map`, `metrical_position_map`) evaluated at
  the note's onset (and offset for durations), and - for descriptions whose reading is not in
  question (everything starts at 0, measures tile the part) - with a Fraction recomputation from the
  description (`Described`).  The Lean model composes the C02 / C10 models of those maps.  When a
  map itself raises on a generated part, the option that needs it is not exercised on that part.
* `collapse=True` (docstring: "collapses consecutive rests on the same voice to a single rest of their
  combined duration"): on parts whose rests do not overlap within a voice, the rows of a voice are the
  maximal runs of rests adjacent in divisions.
* float32 columns: |stored - map value| <= 2^-20 * max(1, |map value|).
* "missing voices or staves": the documented replacement (largest voice in the table + 1; staff 0).
* a list of parts in which a part has several quarter durations is refused by the code with an
  explicit exception ("not supported"); that refusal is not counted as a failure.  A part without
  notes does not constrain the least common multiple.
* rest arrays of part LISTS are not rescaled by the code (they carry no divisions column); the
  property only speaks of the rest array of a part, the list version is compared with the model
  (union, prefixed ids, order) but its div columns are not judged by the oracle.
* inverse direction: "same onsets, durations and pitches" = the division columns exactly when the
  array has them (and then the new part's divisions must make the given beat columns true, i.e.
  divisions * duration_beat * 4/beat_type = duration_div); for beat-only arrays (documented as
  quarters) onset_div/divs and duration_div/divs of the new part equal the given beats, up to
  the documented shift that moves a negative first onset to 0.
* inverse direction, what comes BACK (round 4): the quarter / beat columns of the new part's note array are the
  onsets that went in - a late entry (positive first onset) stays where it is, a pickup (negative first onset, time
  signature, shorter than a bar) ends at beat 0, a barebones part counts from its first note (documented shift).
  Not judged (see inv_expected_back): pieces that end before their first bar line (C02 reads the only, short,
  measure as a pickup), bars that are not a whole number of divisions (C11), contradicting columns.
* "every optional column equals what the score states" (round 5): a value Python reads as false is a VALUE - voice 0,
  staff 0, alteration 0, octave 0, an empty id are what the score states; only None is "missing" (voice: largest voice
  + 1, staff: 0, alteration: 0).  A stated voice -1 collides with the code's marker and is not generated.
* inverse direction with CHANGING signature columns (round 5): the rebuilt part must state, at every note, the time
  signature the array states there (columns or `time_sigs` list) - a change wherever the column changes, also back to
  an earlier value; "the same onsets come back" in beats is asked of arrays that are self-consistent (their beat
  columns are what their division columns give under their own signature columns, up to a pickup: invx_consistent) and
  whose first bar is complete.  The array can only say where a signature starts by a row that carries it: a change
  that no note stands on is placed at the next note (not judged in beats when the beat type changes there).
  Key-signature columns are not part of "onsets, durations and pitches": that they come back (repaired code,
  fixes/C05-10) is compared with the model and proved of it, not judged by the oracle; an array with such columns must
  be ACCEPTED ('inverse raised').
* "a tie chain is one row ... whose onset and duration in divisions equal the timeline values" (round 6, seed C05-k): the
  duration of the row is the SUM of the durations of the members of the chain (anchor: "their summed duration"; the sounding
  time), and the beat / quarter durations are the maps' values between the onset and onset + that sum.  For a chain without
  gaps that is the span to the end of its last member; for a chain whose members are not adjacent on the timeline (a tie
  over a first ending into the second, links set by hand) it is NOT the span.  Generated chains run forward in time
  (a member never starts before the previous one ends); overlapping members are not generated.
* tied RESTS (links set by hand; no importer makes them): every Rest keeps its row (Part.rests: "all rest objects"), the
  duration of a rest that has a tie_next is the chain sum, as for notes.
* score-level tables: only onset_div, duration_div and divs_pq are rescaled to the common divisions; the metrical columns
  stay in the divisions of the row's own part (C05.merged_metrical_columns_in_part_divisions); model and oracle follow
  the code.
"""
import math
from fractions import Fraction

import numpy as np

import wire as W
from core import Eval

PROPERTY = "C05"
DRIVER = "drv_c05"
PROPS = ["PartituraModel.Props.C05", "PartituraModel.Props.C05Compose", "PartituraModel.Props.C05Collapse",
         "PartituraModel.Props.C05Back", "PartituraModel.Props.C05Ts", "PartituraModel.Props.C05Tables",
         "PartituraModel.Props.C05Columns", "PartituraModel.Props.C05San", "PartituraModel.Props.C05Stored",
         "PartituraModel.Props.C05StoredScore", "PartituraModel.Props.C05Order", "PartituraModel.Props.C05TsStored",
         "PartituraModel.Props.C05Tie"]
TRUSTED = [
    "the timeline reads that describe a part to the model (property C01): len(part._points), first/last point, "
    "_quarter_times/_quarter_durations, iter_all(TimeSignature | KeySignature | Measure) with their start/end times, "
    "_use_musical_beat; the VALUES of the maps are not handed over any more: the model computes them with "
    "Model/TimeMap.lean (C02) and Model/StepMap.lean (C10); key_mode_to_int(None) = major (C12 table)",
    "numpy structured arrays, np.argsort(kind='mergesort') stable, default argsort = some permutation sorted by key, "
    "np.lexsort, np.hstack, np.lcm.reduce, rfn.merge_arrays; iterating a structured array yields views of its rows",
    "floats: the model rounds exact rationals with f32round / f64round (round to nearest even, 24 / 53 bits; compared "
    "with numpy.float32 / Python float on generated values, requests `f32`, `f64`).  For EVERY note-array and rest-array "
    "entry point (part, group, score, list, nested groups; rest arrays collapsed or not) the binary64 evaluation inside "
    "scipy's interpolator, the binary32 store and the binary32 sums of collapse_rests are modelled operation by operation "
    "(Model/NoteArrayF64.lean) and compared with tolerance 0 (requests `partf`, `restsf`, round 6: `scoref`, `restlistf`, "
    "`restsfc`): the sort key is the stored column (C05.stored_table_sorted, every_entry_point_sorted_on_stored_column).  "
    "np.isclose in the pickup test is evaluated with exact thresholds; overflow is not modelled; that numpy adds two "
    "float32 scalars with one rounding is assumed.  Inverse direction: the table that comes back for arrays with "
    "changing signature columns is modelled on the stored values as well (Model/NoteArrayTsF.lean, request `invxf`, "
    "tolerance 0); the requests `inv` / `invback` (one signature, what the onsets are moved by) keep the exact-rational "
    "model compared within 2^-20 relative",
    "Fraction.limit_denominator (modelled and compared on every generated value), Python round/int on binary64",
    "estimate_spelling / estimate_voices keep the pitch (C17): in the model of the created part a spelling that keeps "
    "every integer pitch stands for them (`dummySpell`, C12.midi_spelling); tie_notes / find_tuplets / sanitize_part "
    "inside note_array_to_score(sanitize=True) are C11's model and theorems, composed here with every side condition "
    "discharged for the notes create_part adds (Props/C05San.lean); on every generated array the oracle still compares "
    "the sanitized part with the unsanitized one and reads the tie chains off the timeline",
    "inverse direction with changing signature columns (request `invx`): the model is told which columns the array has, "
    "the divs argument, the time_sigs list and the sanitize flag and computes the created part itself - signatures with "
    "their start times, pickup measure, measures (Model/Measures.lean, C11), the pieces tie_notes leaves, and the whole "
    "note array of the new part through Model/TimeMap.lean (C02) and Model/StepMap.lean (C10), key names through "
    "Model/Pitch.lean (C12); not modelled: key_sigs / estimate_key arguments, a time_sigs list with explicit end times, "
    "the `name_id` / id assignment (ids are not compared in this direction)",
    "harness/translate_c05.py reads the literal data (field lists, option -> map selection, keyword defaults, missing-"
    "voice marker, id prefix format, sort kinds, limit_denominator, lexsort keys, the column names of the signature "
    "switches; round 6: the columns note_array_from_part_list rescales, the option it forces, the divisions of an empty "
    "table, the columns collapse_rests sums and tests) off the live source with `ast` / `inspect`; an item whose form it cannot read is left empty and its "
    "theorem holds vacuously (Gen.C05.unreadable; the evidence reports their number as translator_unreadable_items - 0 on "
    "the unchanged tree; round 6: no `example` demands it any more, a harmless rewriting must not break the build)",
    "inverse direction, what comes back (request `invback`): the model is told the one time signature the new part gets "
    "(columns of the array / time_sigs / 4/4 for estimate_time) and the sanitize flag; of add_measures only the first "
    "measure (to the bar line or the end of the part) and of the time maps only the pickup rule are modelled (C11 / C02 "
    "own the rest); the float arithmetic of anacrusis_divs (float32 x int64 -> binary64, float32 x Python int -> float32) is "
    "modelled by exact rationals and half-even rounding (repaired rule, fixes/C05-9): they agree unless the noise reaches 1/2",
    "tie chains: tie_next / tie_prev are read off the description (indices); GenericNote.duration_tied and end_tied.t of the "
    "real objects are compared with the model's durationTied / endTied on every generated part (stream `tied`); chains that "
    "run backwards in time or overlap are not generated (span_is_sum_plus_gaps holds for them all the same)",
    "isinstance dispatch of Python: the harness tells the model the kind of the argument (Part, PartGroup, Score, list, "
    "structured / plain ndarray, other); PerformedPart / Performance arguments belong to other properties",
]
PARTIAL = [
    "collapse=True: collapse_float_totals_partial is for exact float columns; with float32 columns the merged beat / "
    "quarter durations are float32 sums, left to right, one rounding per addition (collapse_float_sums says exactly that "
    "for every rounding; compared bit for bit, stream `restsfc`) - they equal the exact total only up to rounding, which "
    "is not bounded by a theorem; the division totals and which rests merge are proved for every rounding (collapse_total, "
    "collapse_merges_adjacent; on the stored table: stored_collapse); totals are per VOICE (the code ignores the staff); "
    "the hypotheses CleanTable (rows ordered by onset_div, positive durations, no overlap within a voice) are checked by "
    "the oracle on each generated part, overlapping rests are compared with the model only",
    "binary64: that the operation-by-operation evaluation (fwd64) stays within a bound of the exact C02 map (fwd) is not "
    "a theorem; both are tied to the code by the correspondence (tolerance 0 / 2^-20) and row_values_composed speaks of "
    "the exact map, stored_columns of the binary64 one.  Likewise the order against the TIMELINE (Props/C05Order.lean: "
    "earlier in divisions = no larger stored onset; ordered by onset_div outright where binary32 keeps the onsets apart) "
    "is proved for the exact-map table rowsC (C02 strict monotonicity + float32_monotone), not for the binary64 one: "
    "that fwd64 is monotone across knots is not a theorem.  beat_order_eq keeps its hypothesis: its `=` half is false "
    "for onsets closer than the binary32 spacing (kernel-checked example in Props/C05Order.lean)",
    "inverse direction, sanitize=True: from_to_array_x / time_signature_columns_come_back / key_signature_columns_come_back "
    "are about the table of the created part BEFORE tie_notes (its notes are untied), sanitize_keeps_created_notes (C11 "
    "composed, no side condition) says tie_notes / find_tuplets / sanitize_part keep those rows in C11's representation of "
    "a note list (keys); that the two representations of a TIED note list (C11: keys, C05: indices) give the same table "
    "is not a theorem - the `invx` stream compares the pieces of tie_notes and the whole table with the real part",
    "Props/C05Ts.lean, Props/C05TsStored.lean (the same theorems of the table as stored): the signature columns come back for arrays WITH division columns (beat-only arrays get their "
    "divisions from create_divs_from_beats: compared and judged by the oracle, not proved); that the BEAT columns come "
    "back over several signatures is not a theorem (composition of C02's knots with the change list): correspondence "
    "`invx` + oracle 'inverse onsets back' on self-consistent arrays; Props/C05Back.lean proves it for one signature",
    "Props/C05Back.lean (onsets that come back): proved for beat columns on the 1/256 grid (limit_denominator is then the "
    "identity: late_entry_not_moved / pickup_moved_to_zero hold for every array in terms of the limited beats); beats that "
    "float32 does not hold exactly (5/6 -> 0.8333333) are covered by the correspondence `invback`, the oracle clause "
    "'inverse onsets back' and the kernel-checked example exPickup32, not by a theorem; one time signature, one division "
    "value; onsets_back_late_entry assumes the created part has no short first measure (no_pickup_without_short_bar says when)",
    "row_values_composed: a time outside the part's extent (NaN in a float column) makes the model refuse (`none`) where "
    "the code stores NaN; generated notes lie inside the part; musical beats only with the default table "
    "(use_musical_beat() without arguments)",
]
RULE = ("generated parts (explicit measures, optional pickup, time/key signature changes, optional division change, "
        "tie chains across bars, grace notes, chords, rests, unpitched notes, voice=None, staff=None, optionally switched to "
        "musical beats) and scores of 1-4 parts (divisions drawn so that their lcm usually exceeds each, empty parts, nested "
        "PartGroups of depth <= 3) x sampled and exhaustive include_* combinations x unique_id_per_part x every entry point "
        "(Part/PartGroup/Score.note_array, note_array_from_part(_list), ensure_notearray on part / group / score / list / "
        "arrays / other objects; the same for rest arrays incl. collapse on every division value); random note arrays "
        "(beat / div / both columns, optional time-signature columns, negative first onsets, malformed, sanitize on/off, "
        "notes crossing barlines) for the inverse; the inverse direction additionally over the whole grid {beat, div, both "
        "columns} x {negative, zero, positive first onset} x {barebones, estimate_time, time-signature columns, time_sigs "
        "list}, every cell at least twice per run (30 x in thorough), with quarter columns, sanitize on/off, pickups that float32 "
        "rounds towards 0, late entries of a division / a beat / whole bars.  Round 5: 35 % of the parts carry FALSY-BUT-VALID "
        "values (voices numbered from 0 next to positive and missing voices, staff 0, octave 0 / -1, one empty id), 25 % have "
        "signatures that RETURN (time signature A B A with different beat types, key A B A); every entry point is also called "
        "without options (defaults); arrays whose ts / ks columns change and return (patterns ABA, ABAB, ABCA, AABA, ...) x "
        "{div, both, beat columns} x {columns, time_sigs list} x pickup x sanitize x key columns under both spellings of their "
        "names x voices from 0, one third of them taken from generated parts (24 per quick run, 600 thorough); the id prefix "
        "format applied by Python against the model.  Round 6: every score / group / list / rest-list / collapsed table that "
        "comes back is compared a second time with tolerance 0 against the stored-value model (counts by entry point, "
        "nesting, lcm exceeding every part, rests actually merged: features stored_*), and so is the table that comes back "
        "from every `invx` array (`invxf`).  Tie chains WITH GAPS (seed C05-k): 40 % of the parts hold "
        "ties over 1-3 unrelated notes / rests of the voice (the first ending that does not continue the tie) and / or one "
        "link set by hand between non-adjacent notes of different voices, both exhaustive-option parts of every run do, the "
        "rest-array parts may tie two non-adjacent rests; corpus/C05/23-tie-over-first-ending.json; features tie_chain_with_gap, "
        "tie_chain_gap_other_voice, tied_rests_with_gap, stored_tied_span_exceeds_sum; stream `tied` (duration_tied and "
        "end_tied.t of every timed object against Model/NoteArrayTie.lean).  distinct = distinct request text; non-trivial = at least one row compared")
LEVEL_TEXT = ("Lean 4 theorems over an executable model of the table construction (tie chains, voice/staff replacement, "
              "two-pass sort, lcm rescaling, id prefixing, rest collapsing, entry-point dispatch, inverse construction incl. "
              "when the onsets are shifted, where the pickup measure ends and which quarter / beat onsets come back), "
              "unbounded over all note lists, composed with the C02 / C10 models of the part's maps (row_values_composed: "
              "every time / signature / metrical column IS that model's value at the onset or offset, float32 only in the "
              "sort key); the model is tied to the code by running both on the same generated parts/scores/arrays - the "
              "model is fed the part description, not map values - and comparing every cell, and an independent "
              "Fraction/plain-Python oracle rebuilds the table from the timeline and from the description.  Round 5: the "
              "inverse direction is composed end to end inside the model (array -> signature changes -> created part -> "
              "add_measures / tie_notes of C11 -> note array through C02 / C10 / C12): the time- and key-signature columns "
              "come back for every valid array with division columns (theorems, also when a signature returns), sanitize "
              "keeps the created notes (C11 composed, no side condition); falsy-but-valid values are kept (theorem); the "
              "literal data of the source (dtype field lists, option -> map selection, defaults, markers, formats) is "
              "regenerated on every run and proved equal to what the model implements for all 2^8 option vectors; the "
              "float columns of part-level arrays are modelled bit for bit (binary64 evaluation, binary32 store) and the "
              "order of the table is proved on the stored column.  Round 6: the same for every entry point - score, group, "
              "list, nested groups, rest lists, collapse=True: the dispatch is ONE function over a part table (proved equal "
              "to the round-2 dispatch at the exact table), every row of a score-level table is proved to carry the stored "
              "cells of a note of one of its parts with the division columns multiplied by lcm / divisions and divs_pq = lcm "
              "(stored_score_rows), the table is ordered by the stored onset_beat column for every entry point, and all of "
              "it is compared with the real arrays with tolerance 0.  'Ordered by onset' is proved against the timeline: "
              "binary32 rounding is monotone (all rationals), the beat map strictly increasing (C02), so the table is in "
              "timeline order except inside groups of rows whose stored onsets coincide (table_order_follows_the_timeline).  "
              "The inverse construction is one function over a part table too: onsets / durations / pitches and the time- "
              "and key-signature columns come back in the table as numpy stores it (Props/C05TsStored.lean, stream invxf).  "
              "Tie chains with gaps (Props/C05Tie.lean): the duration cell is the summed duration of the chain, span = sum + "
              "the silence inside the chain for every chain, and the sum is the span (end_tied - start) exactly when a "
              "forward chain is contiguous.")

FLOATCOLS = ("onset_beat", "duration_beat", "onset_quarter", "duration_quarter")
RTOL = 2.0 ** -20
BASE = {"C": 0, "D": 2, "E": 4, "F": 5, "G": 7, "A": 9, "B": 11}
STEPS = "CDEFGAB"
TS_POOL = [(4, 4), (3, 4), (2, 4), (6, 8), (5, 4), (2, 2), (3, 8), (9, 8), (12, 8), (7, 8)]
OPTN = ("include_pitch_spelling", "include_key_signature", "include_time_signature", "include_metrical_position",
        "include_grace_notes", "include_staff", "include_divs_per_quarter")


# ====================================================================== generation
def gen_part(rng, pid, divs=None, nbars=None, pickup=False, qd_change=False, p_none_voice=0.0, p_none_staff=0.0,
             p_tie=0.2, staves=1, voices=2, empty=False, p_unp=0.03, p_rest=0.12, p_grace=0.08, p_chord=0.25, falsy=False,
             recur=False, gap=0.0, tie_rests=0.0):
    """falsy: FALSY-BUT-VALID values - voices numbered from 0 (next to positive voices and voice=None), staff 0, octave 0 and
    -1 (pitch 0), alter 0 next to alter None, one empty id: a column must state what the score states, and a value that
    Python reads as false is a value, not a missing one.
    recur: the time signatures (and the key) RETURN to an earlier value (A B A, different beat types)
    gap (round 6, seed C05-k): probability that an open tie is NOT continued by the next note of its voice but held over
    1-3 unrelated notes / rests (a first ending that does not continue the tie) and picked up by a later note of the
    same pitch: a tie chain whose members are not adjacent on the timeline - its duration is the SUM of its members'
    durations, not the span from the first start to the last end.  With gap > 0 one more link may be set by hand between
    non-adjacent notes of different voices (tie_next / tie_prev are plain attributes).
    tie_rests: probability of one hand-set tie link between two non-adjacent rests (each rest keeps its row; the duration
    of the first is the chain sum, as for notes)"""
    divs = divs or rng.choice([1, 2, 3, 4, 5, 6, 8, 12, 16, 24])
    nbars = nbars or rng.randint(1, 5)
    d = {"id": pid, "divs": divs, "qd": [], "ts": [], "ks": [], "clefs": [], "notes": [], "measures": [], "extras": []}
    beats, bt = rng.choice(TS_POOL)
    t = 0
    bars = []
    if recur:
        # (after a pickup bar the first full bar keeps the signature: measure_map measures the pickup against a beat of it)
        first = 2 if pickup else 1
        nbars = max(nbars, first + 2)
        ok = [x for x in TS_POOL if (4 * x[0] * divs) % x[1] == 0]
        sa = rng.choice(ok)
        sb = rng.choice([x for x in ok if x[1] != sa[1]] or [x for x in ok if x != sa] or ok)
        cut1 = rng.randint(first, nbars - 2)
        cut2 = rng.randint(cut1 + 1, nbars - 1)
        plan = {0: sa, cut1: sb, cut2: sa}
    for m in range(nbars):
        if recur:
            if m in plan:
                beats, bt = plan[m]
                d["ts"].append([t, beats, bt])
        elif m == 0 or rng.random() < 0.3:
            beats, bt = rng.choice(TS_POOL)
            if (4 * beats * divs) % bt:
                beats, bt = rng.choice([(4, 4), (3, 4), (2, 4)])
            d["ts"].append([t, beats, bt])
        blen = 4 * beats * divs // bt
        if m == 0 and pickup and blen > 1:
            blen = rng.randint(1, blen - 1)
        bars.append((t, t + blen))
        d["measures"].append([t, t + blen, m + 1])
        t += blen
    d["ks"].append([0, rng.randint(-7, 7), rng.choice(["major", "minor", None])])
    if recur:
        # key A B A at bar lines
        k0 = d["ks"][0]
        i1 = rng.randint(1, nbars - 2)
        i2 = rng.randint(i1 + 1, nbars - 1)
        d["ks"].append([bars[i1][0], rng.choice([f for f in range(-7, 8) if f != k0[1]]), rng.choice(["major", "minor"])])
        d["ks"].append([bars[i2][0], k0[1], k0[2] or "major"])
    elif nbars > 1 and rng.random() < 0.4:
        d["ks"].append([bars[rng.randrange(1, nbars)][0], rng.randint(-7, 7), rng.choice(["major", "minor"])])
    for s in range(1, staves + 1):
        d["clefs"].append([0, s, rng.choice(["G", "F", "C"]), rng.choice([2, 3, 4]), 0])
    if qd_change and nbars > 1:
        d["qd"].append([bars[rng.randrange(1, nbars)][0], rng.choice([q for q in (1, 2, 3, 4, 6, 8, 10, 12) if q != divs])])
    if empty:
        return d
    nid = 0
    vbase = 0 if falsy else 1
    octs = (lambda: rng.choice([-1, 0, 0, 1, 2, 4, 7])) if falsy else (lambda: rng.randint(1, 7))
    for v in range(vbase, vbase + voices):
        staff = rng.randint(0 if falsy else 1, staves)
        open_tie = None
        held, hold_n = None, 0
        force_chain = 0
        for (bs, be) in bars:
            pos = bs
            while pos < be:
                unit = max(1, divs // rng.choice([1, 2, 4])) if divs >= 4 else 1
                dur = max(1, min(rng.choice([1, 1, 2, 2, 3, 4, 6, 8]) * unit, be - pos))
                vv = None if rng.random() < p_none_voice else v
                ss = None if rng.random() < p_none_staff else staff
                if rng.random() < p_rest and force_chain == 0:
                    d["notes"].append({"id": "%sr%d" % (pid, nid), "t": pos, "dur": dur, "kind": "rest", "voice": vv, "staff": ss})
                    nid += 1
                    open_tie = None
                    pos += dur
                    continue
                if rng.random() < p_grace:
                    d["notes"].append({"id": "%sg%d" % (pid, nid), "t": pos, "dur": 0, "kind": "grace", "step": rng.choice(STEPS),
                                       "alter": rng.choice([-1, 0, 0, 1, None]), "oct": octs() if falsy else rng.randint(2, 6),
                                       "voice": vv, "staff": ss,
                                       "grace_type": rng.choice(["grace", "acciaccatura", "appoggiatura"])})
                    nid += 1
                nchord = 1 + (rng.random() < p_chord) + (rng.random() < p_chord / 2)
                used = set()
                prev, open_tie = open_tie, None
                if prev is not None and held is None and gap and rng.random() < gap:
                    # the tie is held: this event does not continue it, a later note of the voice does
                    held, hold_n, prev = prev, rng.randint(1, 3), None
                    force_chain = 0
                elif prev is None and held is not None:
                    hold_n -= 1
                    if hold_n <= 0:
                        prev, held = held, None
                for c in range(nchord):
                    if prev is not None and c == 0:
                        step, alter, octv = prev["step"], prev["alter"], prev["oct"]
                    else:
                        for _ in range(10):
                            step, alter, octv = rng.choice(STEPS), rng.choice([-2, -1, 0, 0, 0, 1, 2, None]), octs()
                            if (step, octv) not in used:
                                break
                    used.add((step, octv))
                    kind = "unp" if (rng.random() < p_unp and not (prev is not None and c == 0)) else "note"
                    n = {"id": "%sn%d" % (pid, nid), "t": pos, "dur": dur, "kind": kind, "step": step, "alter": alter,
                         "oct": octv, "voice": vv, "staff": ss}
                    nid += 1
                    if prev is not None and c == 0:
                        prev["tie"] = n["id"]
                    d["notes"].append(n)
                    if c == 0 and kind == "note" and pos + dur < bars[-1][1]:
                        if force_chain > 0:
                            force_chain -= 1
                            open_tie = n
                        elif rng.random() < p_tie:
                            open_tie = n
                            if rng.random() < 0.3:
                                force_chain = rng.randint(1, 4)
                pos += dur
    if gap and rng.random() < 0.4:
        # one link set by hand between non-adjacent notes (another voice, a later bar): B takes A's pitch
        tied_to = set(n["tie"] for n in d["notes"] if n.get("tie"))
        As = [n for n in d["notes"] if n["kind"] == "note" and not n.get("tie")]
        rng.shuffle(As)
        for a in As[:6]:
            Bs = [b for b in d["notes"] if b["kind"] == "note" and b["id"] not in tied_to and b["t"] > a["t"] + a["dur"]
                  and b["dur"] > 0]
            if Bs:
                b = rng.choice(Bs)
                b["step"], b["alter"], b["oct"] = a["step"], a["alter"], a["oct"]
                # (the notes b is tied to keep one pitch along the chain)
                cur = b
                byid = {n["id"]: n for n in d["notes"]}
                while cur.get("tie"):
                    cur = byid[cur["tie"]]
                    cur["step"], cur["alter"], cur["oct"] = a["step"], a["alter"], a["oct"]
                a["tie"] = b["id"]
                break
    if tie_rests and rng.random() < tie_rests:
        rs = sorted([n for n in d["notes"] if n["kind"] == "rest"], key=lambda n: n["t"])
        pairs = [(a, b) for i, a in enumerate(rs) for b in rs[i + 1:] if b["t"] > a["t"] + a["dur"]]
        if pairs:
            a, b = rng.choice(pairs)
            a["tie"] = b["id"]
    rng.shuffle(d["notes"])
    if falsy and d["notes"]:
        tied = set(n["tie"] for n in d["notes"] if n.get("tie"))
        free = [n for n in d["notes"] if n["id"] not in tied and not n.get("tie")]
        if free and pid == "a" and rng.random() < 0.5:
            rng.choice(free)["id"] = ""  # an empty id is an id (one per score: the oracle looks rows up by id)
    if rng.random() < 0.35:
        # construction HISTORY (gen_score.build_part): read-only views (note arrays, notes_tied, maps, ...) are called
        # between the construction steps - e.g. before the ties are set - and the notes may be placed wrongly first
        # and re-added; the table must describe the part as it is when the array is asked for, whatever was read before
        d["warm"] = rng.choice([1, 2, 4, 8, 16, 31, 34, 63, 64, 66, 127, 128, 128, 160, 192, 255])
    return d


def rand_opts(rng):
    r = rng.random()
    if r < 0.1:
        return [False] * 7
    if r < 0.25:
        return [True] * 7
    return [rng.random() < 0.5 for _ in range(7)]


def pick_divs(rng, n):
    """divisions for n parts; usually with an lcm that exceeds all of them"""
    r = rng.random()
    if r < 0.55:
        pool = rng.choice([[2, 3], [4, 6], [3, 4, 5], [6, 10, 15], [8, 12], [4, 6, 10], [2, 3, 5, 7], [12, 16, 18]])
        ds = [rng.choice(pool) for _ in range(n)]
        if n >= 2:
            ds[0], ds[1] = pool[0], pool[1]
        rng.shuffle(ds)
        return ds
    if r < 0.7:
        q = rng.choice([1, 2, 4, 6, 12])
        return [q] * n
    return [rng.choice([1, 2, 3, 4, 5, 6, 8, 12, 16, 24]) for _ in range(n)]


def part_kw(rng):
    return dict(pickup=rng.random() < 0.3, p_none_voice=rng.choice([0, 0, 0.2, 0.5, 1.0]),
                p_none_staff=rng.choice([0, 0, 0.3, 1.0]), p_tie=rng.choice([0.1, 0.2, 0.5]),
                staves=rng.choice([1, 1, 2]), voices=rng.choice([1, 2, 2, 3]), falsy=rng.random() < 0.35,
                recur=rng.random() < 0.25, gap=rng.choice([0, 0, 0, 0.3, 0.7]))


INV_COLS = ("beat", "div", "both")
INV_FIRST = ("neg", "zero", "pos")
INV_TIME = ("none", "est", "tscol", "tslist")


def inv_grid():
    """every (time columns, sign of the first onset, source of the time signature) the inverse direction can meet;
    an array with division columns only cannot have a negative onset (refused: malformed family)"""
    return [(c, f, t) for c in INV_COLS for f in INV_FIRST for t in INV_TIME if not (c == "div" and f == "neg")]


def gen_inv(rng, malformed=False, want=None):
    """want = (cols, first, time) forces the three dimensions of inv_grid(); None = the round-1 distribution"""
    divs0 = rng.choice([1, 2, 3, 4, 5, 6, 7, 8, 9, 10, 11, 12, 16, 24, 48])
    n = rng.randint(1, 10)
    cols = rng.choice(["beat", "div", "both"])
    ts = None
    if cols == "both" and rng.random() < 0.5:
        ts = rng.choice([(4, 4), (3, 4), (6, 8), (2, 2), (3, 8)])
    rows = []
    pos = rng.choice([0, 0, 0, rng.randint(0, 3 * divs0)])
    if want is not None:
        if want[1] == "neg" and rng.random() < 0.6:
            divs0 = rng.choice([3, 5, 6, 7, 9, 10, 11, 12, 24, 48])  # pickups float32 does not hold exactly
        n = rng.randint(2, 10)
        cols = want[0]
        ts = rng.choice([(4, 4), (3, 4), (6, 8), (2, 2), (3, 8), (2, 4), (12, 8)]) if want[2] == "tscol" else None
        pos = 0
        if want[1] == "pos":
            # a late entry / a slice of a piece: whole bars of rest, a fraction of a beat, one division, ...
            pos = rng.choice([1, divs0, rng.randint(1, 6 * divs0), 4 * divs0 * rng.randint(1, 3), 7 * divs0 + 1])
        elif want[1] == "neg" and cols == "both" and rng.random() < 0.3:
            pos = rng.randint(1, divs0)  # the first note is not at the start of the pickup measure
    used = set()
    force_first = rng.random() < 0.6
    has_voice = rng.random() < 0.8
    for i in range(n):
        dur = rng.choice([0, 1, 1, 1, 2, 2, 3, 4, 6, 8, divs0, 2 * divs0, 3 * divs0])
        if i == 0 and force_first:
            dur = 1  # a first duration of one division: the shortest value, the one that decides the divisions
        p = rng.randint(21, 108)
        if (pos, p) in used:
            continue
        used.add((pos, p))
        if dur == 0:
            # a grace note needs a main note at its onset in its voice (sanitize_part removes orphans by design,
            # voice estimation drops zero durations): well-formed arrays have one
            if not has_voice or (pos, p + 1) in used:
                continue
            rows.append({"o": pos, "d": 0, "p": p})
            dur = rng.choice([1, 2, divs0])
            p = p + 1
            used.add((pos, p))
        rows.append({"o": pos, "d": dur, "p": p})
        if rng.random() < 0.7:
            pos += rng.choice([dur, dur, rng.randint(0, 2 * divs0)])
    if not rows:
        rows.append({"o": 0, "d": 1, "p": 60})
    # make the true divisions the least common denominator for beat-only arrays only when it happens; record it
    d = {"k": "inv", "divs0": divs0, "cols": cols, "rows": rows, "ts": ts, "divs_arg": None, "neg": 0, "kw": {},
         "voice": has_voice, "wf": True}
    if cols == "div":
        d["divs_arg"] = divs0
    elif cols == "both" and rng.random() < 0.3:
        d["divs_arg"] = divs0
    if cols in ("beat", "both") and rng.random() < 0.25:
        d["neg"] = rng.randint(1, 2 * divs0)  # beats are shifted down by neg divisions (pickup)
    r = rng.random()
    if r < 0.45:
        d["kw"]["estimate_time"] = True
    if r < 0.08:
        d["kw"]["sanitize"] = False
    if rng.random() < 0.1:
        d["kw"]["estimate_key"] = True
    if want is not None:
        d["grid"] = list(want)
        lo = min(x["o"] for x in rows)
        d["neg"] = 0
        if want[1] == "neg":
            # beat 0 lies `neg` divisions after time 0: some note has a negative beat.  Pickups of a fraction of a
            # beat, of a whole bar and more, and of a value float32 does not hold exactly (5/6, 7/12, ...)
            d["neg"] = lo + rng.choice([1, 1, rng.randint(1, 2 * divs0), rng.randint(1, 5 * divs0)])
            down = [k for k in range(1, 3 * divs0) if Fraction(float(np.float32(k / divs0))) < Fraction(k, divs0)]
            if down and rng.random() < 0.5:
                d["neg"] = lo + rng.choice(down)  # the stored beat is nearer to 0 than the pickup it stands for
        d["kw"].pop("estimate_time", None)
        if want[2] == "est":
            d["kw"]["estimate_time"] = True
        elif want[2] == "tslist":
            d["tsl"] = list(rng.choice([(4, 4), (3, 4), (2, 4), (5, 4)]))
        if rng.random() < 0.25:
            d["kw"]["sanitize"] = False
        else:
            d["kw"].pop("sanitize", None)
        d["qcols"] = rng.random() < 0.3  # the quarter columns an array taken from a part carries as well
    if malformed:
        d["wf"] = False
        m = rng.choice(["negdur", "empty", "divs", "nodivs", "nofields"])
        d["mal"] = m
        if m == "divs":
            d["cols"], d["divs_arg"], d["ts"] = "beat", 1000003, None
        if m == "nodivs":
            d["cols"], d["divs_arg"], d["ts"] = "div", None, None
    return d



# ---------------------------------------------------------------------- inverse direction, CHANGING signatures (round 5)
def gen_invx(rng, from_part=False):
    """Arrays whose time-signature / key-signature columns CHANGE and RETURN to an earlier value (A B A, A B A B, A B C A,
    ..., the two beat types different whenever the divisions allow it), with division, beat or both kinds of time
    columns, an optional pickup, the signatures given as columns or as a `time_sigs` list, voices numbered from 0.
    A segment is a whole number of bars of its signature; a note stands at every segment start unless `hole` (then the
    first note that carries the new signature comes later and the rebuilt change can only stand there).
    from_part: the array is the note array of a generated part whose signatures recur (gen_part(recur=True))."""
    if from_part:
        kw = part_kw(rng)
        kw.update(recur=rng.random() < 0.8, p_unp=0.0, gap=0)  # (an array cannot say that a chain has a gap)
        pd = gen_part(rng, "a", divs=rng.choice([1, 2, 3, 4, 6, 8, 12]), nbars=rng.randint(2, 5), **kw)
        return {"k": "invx", "src": "part", "part": pd, "cols": rng.choice(["both", "both", "div"]),
                "kscols": rng.random() < 0.5, "spell": rng.random() < 0.5, "sanitize": rng.random() < 0.8}
    divs0 = rng.choice([1, 2, 2, 3, 4, 4, 6, 8, 12])
    cols = rng.choice(["both", "both", "both", "div", "div", "beat"])
    ok = [x for x in TS_POOL if (4 * x[0] * divs0) % x[1] == 0]
    if cols == "beat":
        ok = [x for x in ok if x[1] == 4]  # beat columns alone are read as quarters
    sa = rng.choice(ok)
    sb = rng.choice([x for x in ok if x[1] != sa[1]] or [x for x in ok if x != sa] or ok)
    sc = rng.choice([x for x in ok if x not in (sa, sb)] or ok)
    sig = {"A": sa, "B": sb, "C": sc}
    pat = rng.choice(["ABA", "ABA", "ABA", "ABAB", "ABCA", "AABA", "ABBA", "ABC", "AB", "ACABA"])
    keys = {}
    while len(keys) < 3:
        keys["ABC"[len(keys)]] = (rng.randint(-7, 7), rng.choice([1, -1]))
        if len(set(keys.values())) < len(keys):
            keys.popitem()
    kpat = rng.choice(["ABA", "ABAB", "AAB", "ABCA", "ABBA", "AAAA"])
    tsmode = "cols" if (cols == "beat" or rng.random() < 0.8) else "list"
    neg = 0
    bar0 = 4 * sa[0] * divs0 // sa[1]
    if cols != "div" and tsmode == "cols" and bar0 > 1 and rng.random() < 0.3:
        neg = rng.randint(1, bar0 - 1)
    segs, t = [], neg
    for i, L in enumerate(pat):
        b = sig[L]
        ln = rng.randint(1, 2) * (4 * b[0] * divs0 // b[1])
        segs.append({"ts": list(b), "ks": list(keys[kpat[i % len(kpat)]]), "start": t, "end": t + ln})
        t += ln
    end = t
    rows, used = [], set()

    def put(o, dmax, seg, first=False):
        if dmax <= 0:
            return
        for _ in range(1 + (rng.random() < 0.3)):
            pch = rng.randint(30, 100)
            if (o, pch) in used:
                continue
            used.add((o, pch))
            d = min(dmax, rng.choice([1, 1, 2, 3, 4, divs0, 2 * divs0, 3 * divs0]))
            rows.append({"o": o, "d": d, "p": pch, "v": rng.choice([0, 0, 1, 2]), "ts": seg["ts"], "ks": seg["ks"]})

    if neg:
        put(0, neg, segs[0])
        if rng.random() < 0.5 and neg > 1:
            put(rng.randint(1, neg - 1), 1, segs[0])
    holes = []
    for i, sg in enumerate(segs):
        hole = i > 0 and rng.random() < 0.15
        holes.append(hole)
        ln = sg["end"] - sg["start"]
        # the very first sounding note stays inside its segment (it decides the divisions)
        lim = (sg["end"] if (i == 0 and not neg) else end)
        if not hole:
            put(sg["start"], lim - sg["start"], sg)
        for _ in range(rng.randint(0, 4)):
            o = sg["start"] + rng.randint(1 if ln > 1 else 0, ln - 1)
            if o == sg["start"] and hole:
                continue
            put(o, end - o, sg)
    if not rows:
        put(segs[0]["start"], 1, segs[0])
    d = {"k": "invx", "src": "gen", "divs0": divs0, "cols": cols, "segs": segs, "rows": rows, "neg": neg, "tsmode": tsmode,
         "kscols": rng.random() < 0.45, "sanitize": rng.random() < 0.75, "voice": rng.random() < 0.85,
         # the names the note array gives its key columns, or the names the docstring of note_array_to_score used to
         # give (repaired, fixes/C05-10: such columns are extra columns and are left alone)
         "ksnames": rng.choice(["ks", "ks", "ks", "key"]),
         "divs_arg": divs0 if (cols == "div" or tsmode == "list" or rng.random() < 0.3) else None}
    if cols == "beat":
        d["divs_arg"] = None
    if tsmode == "list":
        tl = []
        for sg in segs:
            if not tl or tl[-1][1:] != sg["ts"] or rng.random() < 0.2:
                tl.append([sg["start"]] + sg["ts"])
        d["tsl"] = tl
    return d


def cases(rng, tier):
    n = {"quick": 80, "thorough": 4000, "search": 6000}.get(tier, 80)
    yield {"k": "kinds"}
    # a few parts with every one of the 2^7 option combinations
    for i in range(2 if tier == "quick" else 12):
        kw = part_kw(rng)
        if i % 2 == 0:
            # voices numbered from 0 next to positive (and missing) voices, staff 0, octave 0, empty id
            kw.update(falsy=True, voices=max(2, kw["voices"]), p_none_voice=rng.choice([0, 0.2]))
        else:
            kw.update(recur=True)
        # tie chains with gaps (held over unrelated notes, hand-set links): in every run, under every option vector
        kw.update(gap=0.7, p_tie=0.5, nbars=rng.randint(3, 5))
        pd = gen_part(rng, "a", **kw)
        yield {"k": "part", "part": pd, "combos": [[bool(m >> b & 1) for b in range(7)] for m in range(128)],
               "entry": "method"}
    # the inverse direction over the whole grid (columns x sign of the first onset x source of the time signature),
    # each cell at least twice per run: a cell that is only drawn now and then is a cell a change can hide in
    for rep in range({"quick": 2, "thorough": 30, "search": 40}.get(tier, 2)):
        for cell in inv_grid():
            yield gen_inv(rng, want=cell)
    # the inverse direction over arrays whose signature columns change and come back (A B A ...)
    late = []
    for rep in range({"quick": 24, "thorough": 600, "search": 900}.get(tier, 24)):
        dx = gen_invx(rng, from_part=rep % 3 == 2)
        if dx.get("kscols") and dx.get("ksnames") == "key":
            late.append(dx)  # columns the code does not know: at the end of the run
        else:
            yield dx
    for i in range(n):
        r = rng.random()
        if r < 0.3:
            kw = part_kw(rng)
            pd = gen_part(rng, "a", qd_change=rng.random() < 0.2, empty=rng.random() < 0.04, **kw)
            pd["musical"] = rng.random() < 0.15
            yield {"k": "part", "part": pd, "combos": [rand_opts(rng) for _ in range(3)],
                   "entry": rng.choice(["method", "func", "ensure"])}
        elif r < 0.62:
            npart = rng.choice([1, 2, 2, 3, 3, 4])
            ds = pick_divs(rng, npart)
            parts = []
            for j in range(npart):
                kw = part_kw(rng)
                parts.append(gen_part(rng, "abcd"[j], divs=ds[j], nbars=rng.randint(1, 3), qd_change=rng.random() < 0.05,
                                      empty=rng.random() < 0.12, **kw))
                parts[-1]["musical"] = rng.random() < 0.08
            entry = rng.choice(["score", "list", "ensure_list", "ensure_score", "group", "ensure_group"])
            tree = rand_tree(rng, npart) if rng.random() < 0.4 else list(range(npart))
            yield {"k": "score", "parts": parts, "tree": tree, "unique": rng.random() < 0.6,
                   "combos": [rand_opts(rng) for _ in range(2)], "entry": entry}
        elif r < 0.75:
            kw = part_kw(rng)
            pd = gen_part(rng, "a", divs=rng.choice([1, 2, 4, 8, 16, 3, 6, 12, 5, 10, 24]), p_rest=rng.choice([0.2, 0.5, 0.8]),
                          qd_change=rng.random() < 0.1, tie_rests=rng.choice([0, 0, 0.6]), **kw)
            pd["musical"] = rng.random() < 0.1
            combos = [rand_opts(rng)[:6] + [rng.random() < 0.45] for _ in range(3)]
            yield {"k": "rests", "part": pd, "combos": combos, "entry": rng.choice(["method", "func", "ensure"])}
        elif r < 0.8:
            npart = rng.choice([1, 2, 3])
            ds = pick_divs(rng, npart)
            parts = [gen_part(rng, "abcd"[j], divs=ds[j], nbars=rng.randint(1, 3), p_rest=0.4, **part_kw(rng)) for j in range(npart)]
            o = rand_opts(rng)
            o[3] = False
            o[6] = False
            tree = rand_tree(rng, npart) if rng.random() < 0.35 else list(range(npart))
            yield {"k": "restlist", "parts": parts, "unique": rng.random() < 0.6, "opts": o, "collapse": rng.random() < 0.3,
                   "tree": tree, "entry": rng.choice(["func", "ensure_list", "group", "ensure_group", "func", "group", "ensure_score"])}
        elif r < 0.97:
            yield gen_inv(rng, malformed=rng.random() < 0.12)
        else:
            k = rng.randint(1, 8)
            yield {"k": "dfb", "rows": [[str(Fraction(rng.randint(-8, 64), rng.choice([1, 2, 3, 4, 6, 8, 12, 16, 5, 7]))),
                                          str(Fraction(rng.randint(0, 32), rng.choice([1, 2, 3, 4, 6, 8, 12, 16, 5, 7])))]
                                         for _ in range(k)],
                   "raw": [rng.uniform(-2, 40) for _ in range(3)],
                   "f32": [str(Fraction(rng.randint(-4000, 40000), rng.choice([1, 2, 3, 5, 6, 7, 12, 48, 1024, 99991])))
                           for _ in range(4)] + [str(Fraction(2 ** 24 + rng.randint(0, 9), rng.choice([1, 2, 8, 2 ** 30])))]}
    for dx in late:
        yield dx


def rand_tree(rng, npart):
    """a nesting of the part indices 0..npart-1 (order kept): lists are PartGroups"""
    def split(ixs, depth):
        if len(ixs) <= 1 or depth > 2:
            return list(ixs)
        out, i = [], 0
        while i < len(ixs):
            ln = rng.randint(1, len(ixs) - i)
            chunk = ixs[i:i + ln]
            if rng.random() < 0.5 and (len(chunk) < len(ixs) or depth == 0):
                out.append(split(chunk, depth + 1) if len(chunk) > 1 and rng.random() < 0.5 else list(chunk))
            else:
                out.extend(chunk)
            i += ln
        return out
    return split(list(range(npart)), 0)


# ====================================================================== wire
def kwargs_of(o):
    return {OPTN[i]: bool(o[i]) for i in range(7)}


def chain_times(pd):
    """(onset, offset) of everything that can become a row (chains from the description)"""
    notes = pd["notes"]
    idx = {n["id"]: i for i, n in enumerate(notes)}
    prev = set(n["tie"] for n in notes if n.get("tie"))
    out = []
    for n in notes:
        if n["id"] in prev:
            continue
        tot, cur, guard = 0, n, 0
        while cur is not None and guard <= len(notes):
            tot += cur["dur"]
            cur = notes[idx[cur["tie"]]] if cur.get("tie") else None
            guard += 1
        out.append((n["t"], n["t"] + tot))
    return out


def part_wire(pd, part):
    """the part as the model reads it: the notes and what the maps are built from (time points, quarter durations,
    signatures, measures) - NOT the values of the maps"""
    import partitura.score as S

    notes = pd["notes"]
    idx = {n["id"]: i for i, n in enumerate(notes)}
    prev = {}
    for i, n in enumerate(notes):
        if n.get("tie"):
            prev[n["tie"]] = i
    nt = []
    for n in notes:
        nt.append(" ".join([
            W.s(n["id"]), n["kind"], W.i(n["t"]), W.i(n["dur"]), W.s(n.get("step", "C")), W.opt(W.i, n.get("alter")),
            W.i(n.get("oct", 0)), W.opt(W.i, n.get("voice")), W.opt(W.i, n.get("staff")),
            W.s(n.get("grace_type", "")), W.opt(W.i, idx[n["tie"]] if n.get("tie") else None),
            W.opt(W.i, prev.get(n["id"]))]))
    npts = len(part._points)
    first = part._points[0].t if npts else 0
    last = part._points[-1].t if npts else 0
    qd = ["%d %d" % (int(t), int(q)) for t, q in zip(part._quarter_times, part._quarter_durations)]
    ts = ["%d %d %d %d" % (x.start.t, x.beats, x.beat_type, x.musical_beats) for x in part.iter_all(S.TimeSignature)]
    ks = ["%d %d %s" % (x.start.t, x.fifths, W.s("none" if x.mode is None else x.mode)) for x in part.iter_all(S.KeySignature)]
    ms = [(x.start.t, x.end.t) for x in part.iter_all(S.Measure)]
    m1 = [m for m in ms if m[0] == first]
    toks = [str(len(nt))] + nt + ["%d %d %d" % (npts, first, last), str(len(qd))] + qd + [str(len(ts))] + ts
    toks += ["%d %d" % m1[0] if (m1 and npts) else "-", W.b(part._use_musical_beat), str(len(ks))] + ks
    toks += [str(len(ms))] + ["%d %d" % m for m in ms]
    return " ".join(toks)


class MapError(Exception):
    pass


def safe_part_wire(pd, part, o):
    """wire text, or None when one of the part's own maps (C02/C10 territory) raises or is not finite on this part"""
    try:
        times = sorted(set(t for ab in chain_times(pd) for t in ab))
        if times:
            bm = np.asarray(part.beat_map(list(times)), dtype=float)
            qm = np.asarray(part.quarter_map(list(times)), dtype=float)
            if not (np.isfinite(bm).all() and np.isfinite(qm).all()):
                raise MapError("time map not finite")
        t0 = times[0] if times else 0
        if o[1]:
            part.key_signature_map(t0)
        if o[2]:
            part.time_signature_map(t0)
        if o[3]:
            part.metrical_position_map(t0)
        return part_wire(pd, part)
    except Exception:  # the map itself is broken on this part: not this property's business
        return None


def cell_text(v):
    if isinstance(v, (str, np.str_)):
        return W.s(str(v))
    return "%d" % int(v)


def table_nested(na):
    names = na.dtype.names
    rows = []
    for r in na:
        fl = [float(r[c]) for c in FLOATCOLS]
        blob = "r:" + "/".join(cell_text(r[c]) for c in names if c not in FLOATCOLS)
        rows.append((float(np.float32(r["onset_beat"])), int(r["pitch"]), blob, fl))
    out, i = [], 0
    while i < len(rows):
        j = i
        while j < len(rows) and rows[j][0] == rows[i][0] and rows[j][1] == rows[i][1]:
            j += 1
        out += sorted(rows[i:j], key=lambda x: x[2])
        i = j
    return ["h:" + "/".join(names)] + [x[3] + [x[2]] for x in out]


def is_refusal(e):
    """the documented ValueError of ensure_notearray / ensure_rest_array for an argument of the wrong kind"""
    m = str(e)
    return isinstance(e, ValueError) and ("should be a" in m or "not a structured array" in m)


def obs(ev, request, fn):
    """run fn() (the implementation), record request + canonical table / err"""
    try:
        na = fn()
    except BaseException as e:
        if isinstance(e, (KeyboardInterrupt, SystemExit)):
            raise
        ev.requests.append(request)
        ev.impl.append("refused" if is_refusal(e) else "err")
        return None, e
    ev.requests.append(request)
    ev.impl.append(("@approx", table_nested(na), RTOL))
    return na, None


# ====================================================================== oracle helpers
def timeline(part):
    """every GenericNote registered on the timeline, read off the points directly"""
    import partitura.score as S

    seen, out = set(), []
    for tp in part._points:
        for cls, objs in tp.starting_objects.items():
            for o in objs:
                if isinstance(o, S.GenericNote) and id(o) not in seen:
                    seen.add(id(o))
                    out.append(o)
    return out


def expected_rows(part, rests=False):
    """rebuild the rows from the timeline with plain Python: {id: dict}"""
    import partitura.score as S

    exp = {}
    for o in timeline(part):
        if rests:
            if type(o) is not S.Rest:
                continue
        else:
            if not isinstance(o, S.Note) or o.tie_prev is not None:
                continue
        tot, cur, guard, contiguous, end = 0, o, 0, True, o.start.t
        same_pitch = True
        while cur is not None and guard < 10000:
            if cur.start.t != end:
                contiguous = False
            if not rests and (cur.step, cur.alter or 0, cur.octave) != (o.step, o.alter or 0, o.octave):
                same_pitch = False
            tot += cur.end.t - cur.start.t
            end = cur.end.t
            cur = cur.tie_next
            guard += 1
        e = {"onset_div": o.start.t, "duration_div": tot, "off": o.start.t + tot, "voice_raw": o.voice,
             "staff": o.staff if o.staff else 0, "contiguous": contiguous, "end_last": end, "same_pitch": same_pitch,
             "chain": guard}
        if rests:
            e.update(pitch=0, step="0", alter=0, octave=0, is_grace=0, grace_type="")
        else:
            e.update(pitch=12 * (o.octave + 1) + BASE[o.step.upper()] + (o.alter or 0), step=o.step,
                     alter=o.alter if o.alter is not None else 0, octave=o.octave,
                     is_grace=1 if isinstance(o, S.GraceNote) else 0,
                     grace_type=o.grace_type if isinstance(o, S.GraceNote) else "")
        exp[o.id] = e
    mv = max([(-1 if e["voice_raw"] is None else e["voice_raw"]) for e in exp.values()], default=0)
    for e in exp.values():
        e["voice"] = mv + 1 if e["voice_raw"] is None else e["voice_raw"]
    return exp


def close(x, y):
    return abs(float(x) - float(y)) <= RTOL * max(1.0, abs(float(y)))


def check_rows(na, parts_exp, what, fails, scale=None, prefix=None, check_div=True):
    """na: table; parts_exp: list of (part, expected dict) ; scale[i]: multiplier of part i; prefix[i]: id prefix"""
    names = na.dtype.names
    want = {}
    for i, (part, exp) in enumerate(parts_exp):
        for nid, e in exp.items():
            want[(prefix[i] if prefix else "") + nid] = (i, e)
    got_ids = [str(x) for x in na["id"]]
    if sorted(got_ids) != sorted(want):
        fails.append("%s rows: ids %s, sounding notes on the timeline %s" % (what, sorted(got_ids)[:12], sorted(want)[:12]))
        return
    cache = {}
    for r in na:
        i, e = want[str(r["id"])]
        part = parts_exp[i][0]
        m = scale[i] if scale else 1
        rid = str(r["id"])
        if check_div:
            if int(r["onset_div"]) != e["onset_div"] * m or int(r["duration_div"]) != e["duration_div"] * m:
                fails.append("%s div: row %s has onset/duration %d/%d, timeline says %d/%d (x%d)" % (
                    what, rid, r["onset_div"], r["duration_div"], e["onset_div"], e["duration_div"], m))
            if e["contiguous"] and e["duration_div"] != e["end_last"] - e["onset_div"]:
                fails.append("%s chain: %s" % (what, rid))
        for c in ("pitch", "voice"):
            if int(r[c]) != e[c]:
                fails.append("%s %s: row %s has %r, the score says %r" % (what, c, rid, int(r[c]), e[c]))
        for c in ("alter", "octave", "is_grace", "staff"):
            if c in names and int(r[c]) != e[c]:
                fails.append("%s %s: row %s has %r, the score says %r" % (what, c, rid, int(r[c]), e[c]))
        for c in ("step", "grace_type"):
            if c in names and str(r[c]) != e[c]:
                fails.append("%s %s: row %s has %r, the score says %r" % (what, c, rid, str(r[c]), e[c]))
        on, off = e["onset_div"], e["off"]
        key = (i, on, off)
        if key not in cache:
            b = np.asarray(part.beat_map([on, off]), dtype=float)
            q = np.asarray(part.quarter_map([on, off]), dtype=float)
            cache[key] = (b[0], b[1] - b[0], q[0], q[1] - q[0])
        for c, v in zip(FLOATCOLS, cache[key]):
            if not close(r[c], v):
                fails.append("%s %s: row %s has %r, the part's map gives %r" % (what, c, rid, float(r[c]), float(v)))
        if "ks_fifths" in names:
            a, b = part.key_signature_map(on)
            if (int(r["ks_fifths"]), int(r["ks_mode"])) != (int(a), int(b)):
                fails.append("%s key signature: row %s has %r, key_signature_map(%d) = %r" % (
                    what, rid, (int(r["ks_fifths"]), int(r["ks_mode"])), on, (int(a), int(b))))
        if "ts_beats" in names:
            v = tuple(int(x) for x in part.time_signature_map(on))
            g = (int(r["ts_beats"]), int(r["ts_beat_type"])) + ((int(r["ts_mus_beats"]),) if "ts_mus_beats" in names else ())
            if g != v[:len(g)] or len(g) != 3:
                fails.append("%s time signature: row %s has %r, time_signature_map(%d) = %r" % (what, rid, g, on, v))
        if "rel_onset_div" in names:
            a, b = part.metrical_position_map(on)
            g = (int(r["is_downbeat"]), int(r["rel_onset_div"]) // 1, int(r["tot_measure_div"]))
            w = (1 if int(a) == 0 else 0, int(a) * 1, int(b) * 1)
            if scale is None and g != w:
                fails.append("%s metrical position: row %s has %r, metrical_position_map(%d) = %r" % (what, rid, g, on, w))
            if scale is not None and g != w:
                fails.append("%s metrical position: row %s has %r, metrical_position_map(%d) = %r" % (what, rid, g, on, w))
    # order
    ks = [(float(np.float32(r["onset_beat"])), int(r["pitch"])) for r in na]
    if any(ks[i] > ks[i + 1] for i in range(len(ks) - 1)):
        fails.append("%s order: rows are not ordered by (onset_beat, pitch): %s" % (what, ks[:12]))


def check_collapsed(na, part, exp, fails):
    """collapse=True ("collapses consecutive rests on the same voice to a single rest of their combined duration"),
    judged on parts whose rests do not overlap within a voice:
    * every kept row is a rest of the part at its own onset, in the order of the uncollapsed table;
    * the rows of a voice are exactly the maximal runs of adjacent rests (onset_div + duration_div = next onset_div):
      total duration_div per voice preserved, no two rows of a voice adjacent any more, each row spans a run;
    * a row's beat and quarter durations are those of its div span through the part's maps."""
    byvoice = {}
    for rid, e in exp.items():
        byvoice.setdefault(e["voice"], []).append((e["onset_div"], e["off"], rid))
    for spans in byvoice.values():
        spans.sort()
        if any(spans[i + 1][0] < spans[i][1] or spans[i + 1][0] == spans[i][0] for i in range(len(spans) - 1)):
            return  # overlapping rests in one voice: the same rest can be absorbed twice; nothing to state
        if any(a >= b for a, b, _ in spans):
            return
    # expected runs
    want = {}
    for v, spans in byvoice.items():
        cur = None
        for a, b, rid in spans:
            if cur is not None and cur[1] == a:
                cur[1] = b
            else:
                cur = [a, b, rid]
                want[rid] = cur
    got = {}
    for r in na:
        rid = str(r["id"])
        if rid not in exp:
            fails.append("rests collapse: row %s is not a rest of the part" % rid)
            return
        got[rid] = (int(r["onset_div"]), int(r["onset_div"]) + int(r["duration_div"]), int(r["voice"]))
    for rid, (a, b, _) in want.items():
        if rid not in got:
            fails.append("rests collapse adjacent: the rest %s at %d starts a run of adjacent rests (to %d) and is not in the table" % (rid, a, b))
        elif got[rid][:2] != (a, b):
            fails.append("rests collapse adjacent: row %s spans %d-%d, the run of adjacent rests of its voice that starts with it spans %d-%d" % (
                rid, got[rid][0], got[rid][1], a, b))
    for rid in got:
        if rid not in want:
            fails.append("rests collapse adjacent: row %s at %d follows a rest of its voice that ends there and was not merged into it" % (
                rid, got[rid][0]))
    for v in byvoice:
        tot = sum(b - a for a, b, _ in byvoice[v])
        g = sum(b - a for (a, b, vv) in got.values() if vv == v)
        if tot != g:
            fails.append("rests collapse total: voice %d holds %d divisions of rests, the collapsed table %d" % (v, tot, g))
    for r in na:
        rid = str(r["id"])
        on, dd = int(r["onset_div"]), int(r["duration_div"])
        b = np.asarray(part.beat_map([on, on + dd]), dtype=float)
        q = np.asarray(part.quarter_map([on, on + dd]), dtype=float)
        tol = 8 * RTOL
        if abs(float(r["duration_beat"]) - (b[1] - b[0])) > tol * max(1.0, abs(b[1] - b[0])):
            fails.append("rests collapse duration_beat: row %s lasts %d divs = %r beats by the part's map, column says %r" % (
                rid, dd, float(b[1] - b[0]), float(r["duration_beat"])))
        if abs(float(r["duration_quarter"]) - (q[1] - q[0])) > tol * max(1.0, abs(q[1] - q[0])):
            fails.append("rests collapse duration_quarter: row %s lasts %d divs = %r quarters by the part's map, column says %r" % (
                rid, dd, float(q[1] - q[0]), float(r["duration_quarter"])))


def tied_obs(ev, pd, part, wire):
    """stream `tied`: GenericNote.duration_tied and end_tied.t of every timed object of the description, as the real
    objects give them, against Model/NoteArrayTie.lean (the SUM along the chain and the END of its last member: equal up
    to the onset only when the chain has no gap, C05.sum_eq_span_iff_contiguous)"""
    objs = {}
    for o in timeline(part):
        objs.setdefault(o.id, o)
    if any(n["id"] not in objs for n in pd["notes"]) or len(objs) != len(pd["notes"]):
        return
    out = []
    for n in pd["notes"]:
        o = objs[n["id"]]
        try:
            dt, et = int(o.duration_tied), int(o.end_tied.t)
        except Exception:
            dt = et = None
        out.append(W.f_tuple(W.s(n["id"]), W.f_opt(W.f_int, dt), W.f_opt(W.f_int, et)))
        if n.get("tie"):
            ev.info["tied_links"] = ev.info.get("tied_links", 0) + 1
            if dt is not None and et - int(o.start.t) != dt:
                ev.info["tied_span_exceeds_sum"] = ev.info.get("tied_span_exceeds_sum", 0) + 1
    ev.requests.append("tied " + wire)
    ev.impl.append(W.f_list(lambda x: x, out))


def lcm_list(xs):
    out = 1
    for x in xs:
        out = out * x // math.gcd(out, x)
    return out


# ====================================================================== evaluation
def build_tree(tree, parts):
    import partitura.score as S

    out = []
    for x in tree:
        if isinstance(x, list):
            g = S.PartGroup(group_name="g")
            g.children = build_tree(x, parts)
            out.append(g)
        else:
            out.append(parts[x])
    return out


def items_wire(tree, wires):
    """`n item*` with item = `P part` | `G n item*`"""
    toks = [str(len(tree))]
    for x in tree:
        if isinstance(x, list):
            toks.append("G " + items_wire(x, wires))
        else:
            toks.append("P " + wires[x])
    return " ".join(toks)


def rest_prefixes(tree, unique, pre=""):
    """rest_array_from_part_list prefixes on every level whenever unique_id_per_part is set: {part index: prefix}"""
    out = {}
    for i, x in enumerate(tree):
        p = pre + ("P%02d_" % i if unique else "")
        if isinstance(x, list):
            out.update(rest_prefixes(x, unique, p))
        else:
            out[x] = p
    return out


def build_part(pd):
    import gen_score as G

    part = G.build_part(pd)
    if pd.get("musical"):
        part.use_musical_beat()
    return part


def tree_expected(tree, exps, divs, unique):
    """independent recursion of the part-list rules: returns list of (part index, prefix, multiplier numerator info)
    as dict part index -> (prefix string, ) and the common divisions of this level"""
    # returns (entries: {part index: prefix}, L) where L is the lcm of the non-empty parts below
    entries = {}
    Ls = []
    for i, x in enumerate(tree):
        if isinstance(x, list):
            sub, L = tree_expected(x, exps, divs, unique)
            nonempty = any(len(exps[j]) for j in sub)
        else:
            sub, L = {x: ""}, divs[x]
            nonempty = len(exps[x]) > 0
        pre = "P%02d_" % i if (unique and len(tree) > 1) else ""
        for j, p in sub.items():
            entries[j] = pre + p
        if nonempty:
            Ls.append(L)
    return entries, lcm_list(Ls)


def flat(tree):
    for x in tree:
        if isinstance(x, list):
            for y in flat(x):
                yield y
        else:
            yield x


def evaluate(d):
    import gen_score as G
    import partitura.score as S
    import partitura.utils.music as M

    ev = Eval()
    k = d["k"]
    fails = ev.oracle
    if k == "part":
        pd = d["part"]
        part = build_part(pd)
        fp0 = G.fingerprint_part(part)
        exp = expected_rows(part)
        nrows = 0
        for o in d["combos"]:
            wire = safe_part_wire(pd, part, o)
            if wire is None:
                ev.info["maperr"] = ev.info.get("maperr", 0) + 1
                continue
            kw = kwargs_of(o)
            entry = d.get("entry", "method")
            if entry == "method":
                fn = lambda: part.note_array(**kw)
            elif entry == "func":
                fn = lambda: M.note_array_from_part(part, **kw)
            else:
                fn = lambda: M.ensure_notearray(part, **kw)
            na, e = obs(ev, "part %s %s %s" % (entry, " ".join(W.b(x) for x in o), wire), fn)
            if e is not None:
                if o[6] and len(part._quarter_durations) != 1:
                    continue  # explicit refusal of several divisions
                fails.append("part raised: options %s raised %s: %s" % (o, type(e).__name__, str(e)[:200]))
                continue
            nrows += len(na)
            # the float columns BIT FOR BIT: the model evaluates the maps in binary64 operation by operation and stores
            # binary32 (Model/NoteArrayF64.lean); compared with tolerance 0
            ev.requests.append("partf %s %s" % (" ".join(W.b(x) for x in o), wire))
            ev.impl.append(("@approx", table_nested(na), 0.0))
            want_names = expected_names(o, o[6])
            if list(na.dtype.names) != want_names:
                fails.append("part columns: options %s give %s, expected %s" % (o, list(na.dtype.names), want_names))
            check_rows(na, [(part, exp)], "part", fails)
            check_described(na, [pd], [""], "part", fails)
            if "divs_pq" in na.dtype.names and len(na) and set(int(x) for x in na["divs_pq"]) != {int(part._quarter_durations[0])}:
                fails.append("part divs_pq: %r" % (set(int(x) for x in na["divs_pq"]),))
            if M.ensure_notearray(na) is not na:
                fails.append("part dispatch: ensure_notearray does not return a structured array unchanged")
        # the DEFAULT arguments: no option given = every include_* off (Gen/C05Tables.lean `defaults`, C05.defaults_as_modelled)
        o0 = [False] * 7
        wire0 = safe_part_wire(pd, part, o0)
        if wire0 is not None:
            fn0 = {"method": lambda: part.note_array(), "func": lambda: M.note_array_from_part(part),
                   "ensure": lambda: M.ensure_notearray(part)}[d.get("entry", "method")]
            na0, e0 = obs(ev, "part %s %s %s" % (d.get("entry", "method"), " ".join(W.b(x) for x in o0), wire0), fn0)
            if e0 is not None:
                fails.append("part raised: without options raised %s: %s" % (type(e0).__name__, str(e0)[:200]))
            elif list(na0.dtype.names) != expected_names(o0, False):
                fails.append("part columns: without options the table has %s, expected %s" % (list(na0.dtype.names), expected_names(o0, False)))
            tied_obs(ev, pd, part, wire0)
        if G.fingerprint_part(part) != fp0:
            fails.append("part frame: note_array modified the part")
        ev.key = str(hash("|".join(ev.requests))) if nrows else None
    elif k == "score":
        pds = d["parts"]
        parts = [build_part(pd) for pd in pds]
        fps = [G.fingerprint_part(p) for p in parts]
        exps = [expected_rows(p) for p in parts]
        divs = [int(p._quarter_durations[0]) for p in parts]
        multi = any(len(p._quarter_durations) != 1 for p in parts)
        tree = d["tree"]
        nested = any(isinstance(x, list) for x in tree)
        objs = build_tree(tree, parts)
        u = d["unique"]
        entry = d["entry"]
        # Score.parts is the depth-first list of the parts: a score forgets the grouping
        eff = list(flat(tree)) if entry in ("score", "ensure_score") else tree
        nrows = 0
        for o in d["combos"]:
            wires = [safe_part_wire(pd, p, o) for pd, p in zip(pds, parts)]
            if any(w is None for w in wires):
                ev.info["maperr"] = ev.info.get("maperr", 0) + 1
                continue
            kw = kwargs_of(o)
            if entry == "score":
                fn = lambda: S.Score(objs).note_array(unique_id_per_part=u, **kw)
            elif entry == "list":
                fn = lambda: M.note_array_from_part_list(objs, unique_id_per_part=u, **kw)
            elif entry == "ensure_list":
                fn = lambda: M.ensure_notearray(objs, unique_id_per_part=u, **kw)
            elif entry == "ensure_score":
                fn = lambda: M.ensure_notearray(S.Score(objs), unique_id_per_part=u, **kw)
            else:
                g = S.PartGroup(group_name="top")
                g.children = objs
                if entry == "group":
                    fn = lambda: g.note_array(unique_id_per_part=u, **kw)
                else:
                    fn = lambda: M.ensure_notearray(g, unique_id_per_part=u, **kw)
            na, e = obs(ev, "score %s %s %s %s" % (entry, W.b(u), " ".join(W.b(x) for x in o), items_wire(tree, wires)), fn)
            if e is not None:
                if multi:
                    continue
                if entry == "ensure_list" and nested and is_refusal(e):
                    continue  # documented: a list must hold Part objects only
                fails.append("score raised: options %s unique=%s raised %s: %s" % (o, u, type(e).__name__, str(e)[:200]))
                continue
            if multi:
                continue
            nrows += len(na)
            # score-level tables BIT FOR BIT (round 6): the merge copies the stored float cells of the part tables and
            # sorts on the stored onset_beat column (Model/NoteArrayF64.lean `ensureNoteArrayF`); tolerance 0
            ev.requests.append("scoref %s %s %s %s" % (entry, W.b(u), " ".join(W.b(x) for x in o), items_wire(tree, wires)))
            ev.info["scoref"] = ev.info.get("scoref", 0) + 1
            ev.info["scoref_rows"] = ev.info.get("scoref_rows", 0) + len(na)
            ev.info["scoref_nested"] = ev.info.get("scoref_nested", 0) + int(nested)
            ev.info["scoref_lcm_exceeds_all"] = ev.info.get("scoref_lcm_exceeds_all", 0) + int(lcm_list(divs) > max(divs))
            ev.info["scoref_" + entry] = ev.info.get("scoref_" + entry, 0) + 1
            ev.impl.append(("@approx", table_nested(na), 0.0))
            want_names = expected_names(o, True)
            if list(na.dtype.names) != want_names:
                fails.append("score columns: options %s give %s, expected %s" % (o, list(na.dtype.names), want_names))
            entries, L = tree_expected(eff, exps, divs, u)
            order = list(flat(tree))
            pe = [(parts[j], exps[j]) for j in order]
            check_rows(na, pe, "score", fails, scale=None, prefix=[entries[j] for j in order], check_div=False)
            check_described(na, [pds[j] for j in order], [entries[j] for j in order], "score", fails)
            # lcm rescaling: one common divisions value, the least common multiple of the non-empty parts,
            # and every row keeps its musical time
            byid = {}
            for pos, j in enumerate(order):
                for nid, e2 in exps[j].items():
                    byid[entries[j] + nid] = (j, e2)
            if len(na):
                dv = set(int(x) for x in na["divs_pq"])
                if dv != {L}:
                    fails.append("score lcm: divs_pq column holds %s, least common multiple of the parts' divisions %s is %d" % (
                        sorted(dv), divs, L))
                for r in na:
                    if str(r["id"]) not in byid:
                        continue
                    j, e2 = byid[str(r["id"])]
                    dq = int(r["divs_pq"])
                    if dq <= 0 or Fraction(int(r["onset_div"]), dq) != Fraction(e2["onset_div"], divs[j]) or \
                            Fraction(int(r["duration_div"]), dq) != Fraction(e2["duration_div"], divs[j]):
                        fails.append("score rescale: row %s is at %d/%d lasting %d/%d, the part has it at %d/%d lasting %d/%d" % (
                            r["id"], r["onset_div"], dq, r["duration_div"], dq, e2["onset_div"], divs[j], e2["duration_div"], divs[j]))
                        break
        if entry in ("score", "list", "group") and not multi:
            # the DEFAULT arguments: ids are part-prefixed, every include_* is off
            o0 = [False] * 7
            wires0 = [safe_part_wire(pd, p, o0) for pd, p in zip(pds, parts)]
            if all(w is not None for w in wires0):
                if entry == "score":
                    fn0 = lambda: S.Score(objs).note_array()
                elif entry == "list":
                    fn0 = lambda: M.note_array_from_part_list(objs)
                else:
                    g0 = S.PartGroup(group_name="top")
                    g0.children = objs
                    fn0 = lambda: g0.note_array()
                na0, e0 = obs(ev, "score %s %s %s %s" % (entry, W.b(True), " ".join(W.b(x) for x in o0), items_wire(tree, wires0)), fn0)
                if e0 is not None:
                    fails.append("score raised: without options raised %s: %s" % (type(e0).__name__, str(e0)[:200]))
                elif len(na0) and len(eff) > 1:
                    ent0, _ = tree_expected(eff, exps, divs, True)
                    want0 = sorted(ent0[j] + nid for j in flat(tree) for nid in exps[j])
                    if sorted(str(x) for x in na0["id"]) != want0:
                        fails.append("score rows: without options the ids are %s, expected part-prefixed ids %s" % (
                            sorted(str(x) for x in na0["id"])[:8], want0[:8]))
        for p, f in zip(parts, fps):
            if G.fingerprint_part(p) != f:
                fails.append("score frame: note_array modified a part")
        ev.key = str(hash("|".join(ev.requests))) if nrows else None
    elif k == "rests":
        pd = d["part"]
        part = build_part(pd)
        fp0 = G.fingerprint_part(part)
        exp = expected_rows(part, rests=True)
        nrows = 0
        for c in d["combos"]:
            o = list(c[:6]) + [False]
            collapse = bool(c[6])
            wire = safe_part_wire(pd, part, o)
            if wire is None:
                ev.info["maperr"] = ev.info.get("maperr", 0) + 1
                continue
            kw = kwargs_of(o)
            del kw["include_divs_per_quarter"]
            kw["collapse"] = collapse
            entry = d.get("entry", "method")
            if entry == "method":
                fn = lambda: part.rest_array(**kw)
            elif entry == "func":
                fn = lambda: M.rest_array_from_part(part, **kw)
            else:
                fn = lambda: M.ensure_rest_array(part, **kw)
            na, e = obs(ev, "rests %s %s %s %s" % (entry, W.b(collapse), " ".join(W.b(x) for x in o), wire), fn)
            if e is not None:
                fails.append("rests raised: options %s raised %s: %s" % (c, type(e).__name__, str(e)[:200]))
                continue
            nrows += len(na)
            want_names = expected_names(o, False)
            if list(na.dtype.names) != want_names:
                fails.append("rests columns: options %s give %s, expected %s" % (c, list(na.dtype.names), want_names))
            if not collapse:
                ev.requests.append("restsf %s %s" % (" ".join(W.b(x) for x in o), wire))
                ev.impl.append(("@approx", table_nested(na), 0.0))
                check_rows(na, [(part, exp)], "rests", fails)
                check_described(na, [pd], [""], "rests", fails)
            else:
                # collapse=True on the stored array (round 6): float32 sums of the stored durations, tolerance 0
                ev.requests.append("restsfc %s %s %s" % (W.b(collapse), " ".join(W.b(x) for x in o), wire))
                ev.info["restsfc"] = ev.info.get("restsfc", 0) + 1
                ev.info["restsfc_merged"] = ev.info.get("restsfc_merged", 0) + int(len(na) < len(exp))
                ev.impl.append(("@approx", table_nested(na), 0.0))
                check_collapsed(na, part, exp, fails)
        o0 = [False] * 7
        wire0 = safe_part_wire(pd, part, o0)
        if wire0 is not None:
            fn0 = {"method": lambda: part.rest_array(), "func": lambda: M.rest_array_from_part(part),
                   "ensure": lambda: M.ensure_rest_array(part)}[d.get("entry", "method")]
            na0, e0 = obs(ev, "rests %s %s %s %s" % (d.get("entry", "method"), W.b(False), " ".join(W.b(x) for x in o0), wire0), fn0)
            if e0 is not None:
                fails.append("rests raised: without options raised %s: %s" % (type(e0).__name__, str(e0)[:200]))
            elif list(na0.dtype.names) != expected_names(o0, False):
                fails.append("rests columns: without options the table has %s" % (list(na0.dtype.names),))
            tied_obs(ev, pd, part, wire0)
        if G.fingerprint_part(part) != fp0:
            fails.append("rests frame: rest_array modified the part")
        ev.key = str(hash("|".join(ev.requests))) if nrows else None
    elif k == "restlist":
        pds = d["parts"]
        parts = [build_part(pd) for pd in pds]
        exps = [expected_rows(p, rests=True) for p in parts]
        o = list(d["opts"])
        u = d["unique"]
        collapse = bool(d.get("collapse"))
        tree = d.get("tree") or list(range(len(parts)))
        nested = any(isinstance(x, list) for x in tree)
        wires = [safe_part_wire(pd, p, o) for pd, p in zip(pds, parts)]
        if all(w is not None for w in wires):
            kw = dict(unique_id_per_part=u, include_pitch_spelling=o[0], include_key_signature=o[1],
                      include_time_signature=o[2], include_grace_notes=o[4], include_staff=o[5], collapse=collapse)
            entry = d["entry"]
            objs = build_tree(tree, parts)
            if entry == "func":
                fn = lambda: M.rest_array_from_part_list(objs, **kw)
            elif entry == "ensure_list":
                fn = lambda: M.ensure_rest_array(objs, **kw)
            elif entry == "ensure_score":
                fn = lambda: M.ensure_rest_array(S.Score(objs), **kw)
            else:
                g = S.PartGroup(group_name="top")
                g.children = objs
                fn = (lambda: g.rest_array(**kw)) if entry == "group" else (lambda: M.ensure_rest_array(g, **kw))
            na, e = obs(ev, "restlist %s %s %s %s %s" % (entry, W.b(u), W.b(collapse), " ".join(W.b(x) for x in o),
                                                         items_wire(tree, wires)), fn)
            if e is None:
                # rest arrays of lists / groups on the stored values (round 6), collapsed or not; tolerance 0
                ev.requests.append("restlistf %s %s %s %s %s" % (entry, W.b(u), W.b(collapse), " ".join(W.b(x) for x in o),
                                                                items_wire(tree, wires)))
                ev.impl.append(("@approx", table_nested(na), 0.0))
                ev.info["restlistf"] = ev.info.get("restlistf", 0) + 1
                ev.info["restlistf_collapse"] = ev.info.get("restlistf_collapse", 0) + int(collapse)
                ev.info["restlistf_nested"] = ev.info.get("restlistf_nested", 0) + int(nested)
            if e is not None:
                if not (is_refusal(e) and (entry == "ensure_score" or (entry == "ensure_list" and nested))):
                    fails.append("restlist raised: %s: %s" % (type(e).__name__, str(e)[:200]))
                ev.key = str(hash("|".join(ev.requests)))
            elif not collapse:
                pre = rest_prefixes(tree, u)
                order = list(flat(tree))
                check_rows(na, [(parts[j], exps[j]) for j in order], "restlist", fails, prefix=[pre[j] for j in order])
                ev.key = str(hash("|".join(ev.requests))) if len(na) else None
            else:
                ev.key = str(hash("|".join(ev.requests))) if len(na) else None
    elif k == "kinds":
        evaluate_kinds(d, ev)
    elif k == "inv":
        evaluate_inv(d, ev)
    elif k == "invx":
        evaluate_invx(d, ev)
    elif k == "dfb":
        evaluate_dfb(d, ev)
    return ev


def evaluate_kinds(d, ev):
    """arguments that are not scores: structured arrays come back as they are, everything else is refused"""
    import partitura.utils.music as M

    arr = np.zeros(2, dtype=[("onset_beat", "f4"), ("pitch", "i4")])
    for which, fn in (("note", M.ensure_notearray), ("rest", M.ensure_rest_array)):
        for what, x in (("structured", arr), ("plain", np.zeros(3)), ("other", 42)):
            ev.requests.append("kind %s %s" % (which, what))
            try:
                r = fn(x)
                ev.impl.append("same" if r is x else "different")
            except BaseException as e:
                if isinstance(e, (KeyboardInterrupt, SystemExit)):
                    raise
                ev.impl.append("refused" if is_refusal(e) else "err")
        if fn(arr) is not arr:
            ev.oracle.append("dispatch: ensure_%s does not return a structured array unchanged" % which)
    # the id prefix: the live format string (read off the source by harness/translate_c05.py) applied by Python against
    # the model's `prefixId`
    try:
        import translate_c05 as T5

        fmts = [T5.prefix_format(M.note_array_from_part_list), T5.prefix_format(M.rest_array_from_part_list)]
    except Exception:
        fmts = ["P{0:02d}_"]
    for fmt in fmts:
        for i in (0, 3, 9, 10, 12, 99, 100, 123):
            for nid in ("n1", "", "P01_x"):
                ev.requests.append("prefix %d %s" % (i, W.s(nid)))
                try:
                    ev.impl.append(W.s(fmt.format(i) + nid))
                except Exception:
                    ev.impl.append("err")
    ev.key = "kinds"


DEFAULT_MB = {6: 2, 9: 3, 12: 4}


class Described:
    """The maps of a generated part recomputed from its DESCRIPTION with plain Fractions (no partitura map, no Lean):
    beats/quarters by summing 1/divisions (x beat_type/4) over the unit steps, the signature in force by a scan, the
    bar by a scan over the measures.  Only for descriptions whose reading is not in question: everything starts at 0
    (a time and a key signature and a measure at 0), the measures tile the part."""

    def __init__(self, pd):
        self.ok = False
        ms = sorted((m[0], m[1]) for m in (pd.get("measures") or []))
        ts = sorted(pd["ts"])
        ks = sorted(pd["ks"], key=lambda x: x[0])
        if not ms or not ts or not ks or ms[0][0] != 0 or ts[0][0] != 0 or ks[0][0] != 0:
            return
        if any(ms[i][1] != ms[i + 1][0] for i in range(len(ms) - 1)) or any(a >= b for a, b in ms):
            return
        if len(set(t for t, _, _ in ts)) != len(ts) or len(set(k[0] for k in ks)) != len(ks):
            return
        self.ms, self.ts, self.ks = ms, ts, ks
        self.qd = sorted([(0, pd["divs"])] + [(t, q) for t, q in pd.get("qd", [])])
        self.musical = bool(pd.get("musical"))
        self.end = max([ms[-1][1]] + [n["t"] + n["dur"] for n in pd["notes"]])
        self.C = {"beat": self.cumulative("beat"), "quarter": self.cumulative("quarter")}
        self.shift = {u: self.pickup(u) for u in ("beat", "quarter")}
        # start of the first bar as measure_map corrects it
        c = self.C["beat"]
        one = c[0] + 1
        x = None
        for t in range(self.end):
            if c[t] <= one <= c[t + 1] and c[t + 1] > c[t]:
                x = t + (one - c[t]) / (c[t + 1] - c[t])
                break
        s0, e0 = ms[0]
        if x is not None:
            b0 = self.mb(ts[0][1]) if self.musical else ts[0][1]
            if e0 - s0 < b0 * x:
                v = e0 - b0 * x
                fl = v.numerator // v.denominator
                fr = v - fl
                s0 = fl if fr < Fraction(1, 2) else fl + 1 if fr > Fraction(1, 2) else (fl if fl % 2 == 0 else fl + 1)
        self.starts = [s0] + [m[0] for m in ms[1:]]
        self.ok = True

    @staticmethod
    def mb(beats):
        return DEFAULT_MB.get(beats, beats)

    def in_force(self, rows, t):
        cur = rows[0]
        for r in rows:
            if r[0] <= t:
                cur = r
        return cur

    def cumulative(self, unit):
        c, acc = {0: Fraction(0)}, Fraction(0)
        for u in range(self.end):
            r = Fraction(1, self.in_force(self.qd, u)[1])
            if unit == "beat":
                _, beats, bt = self.in_force(self.ts, u)
                r *= Fraction(bt, 4)
                if self.musical:
                    r *= Fraction(self.mb(beats), beats)
            acc += r
            c[u + 1] = acc
        return c

    def pickup(self, unit):
        s0, e0 = self.ms[0]
        _, beats, bt = self.ts[0]
        actual = self.C[unit][e0] - self.C[unit][s0]
        normal = Fraction(4 * beats, bt) if unit == "quarter" else Fraction(self.mb(beats) if self.musical else beats)
        return actual if actual < normal else Fraction(0)

    def time(self, unit, t):
        return self.C[unit][t] - self.shift[unit]

    def metrical(self, t):
        i = 0
        for j, st in enumerate(self.starts):
            if st <= t:
                i = j
        nxt = self.starts[i + 1] if i + 1 < len(self.starts) else self.ms[-1][1]
        return t - self.starts[i], nxt - self.starts[i]


def check_described(na, pds, prefixes, what, fails):
    """the time and signature columns against the description itself (see Described)"""
    names = na.dtype.names
    byid = {}
    for pd, pre in zip(pds, prefixes):
        D = Described(pd)
        if not D.ok:
            continue
        for n in pd["notes"]:
            byid[pre + n["id"]] = D
    for r in na:
        D = byid.get(str(r["id"]))
        if D is None:
            continue
        rid = str(r["id"])
        dq = int(r["divs_pq"]) if "divs_pq" in names else 0
        on = int(r["onset_div"])
        if what == "score":
            # rescaled to the common divisions: go back to the part's own
            q0 = D.qd[0][1]
            if dq <= 0 or (on * q0) % dq:
                continue
            on = on * q0 // dq
        if not (0 <= on <= D.end):
            continue
        for c, u in (("onset_beat", "beat"), ("onset_quarter", "quarter")):
            if not close(r[c], D.time(u, on)):
                fails.append("%s described %s: row %s at %d has %r, the description gives %s" % (what, c, rid, on, float(r[c]), D.time(u, on)))
        if "ks_fifths" in names:
            k = D.in_force(D.ks, on)
            w = (k[1], -1 if k[2] == "minor" else 1)
            if (int(r["ks_fifths"]), int(r["ks_mode"])) != w:
                fails.append("%s described key signature: row %s at %d has %r, the description gives %r" % (
                    what, rid, on, (int(r["ks_fifths"]), int(r["ks_mode"])), w))
        if "ts_beats" in names:
            t = D.in_force(D.ts, on)
            w = (t[1], t[2], D.mb(t[1]))
            g = (int(r["ts_beats"]), int(r["ts_beat_type"]), int(r["ts_mus_beats"]))
            if g != w:
                fails.append("%s described time signature: row %s at %d has %r, the description gives %r" % (what, rid, on, g, w))
        if "rel_onset_div" in names:
            w = D.metrical(on)
            g = (int(r["rel_onset_div"]), int(r["tot_measure_div"]))
            if g != w or int(r["is_downbeat"]) != (1 if w[0] == 0 else 0):
                fails.append("%s described metrical position: row %s at %d has %r, the description gives %r" % (what, rid, on, g, w))


def expected_names(o, withdivs):
    names = ["onset_beat", "duration_beat", "onset_quarter", "duration_quarter", "onset_div", "duration_div", "pitch", "voice", "id"]
    if o[0]:
        names += ["step", "alter", "octave"]
    if o[4]:
        names += ["is_grace", "grace_type"]
    if o[1]:
        names += ["ks_fifths", "ks_mode"]
    if o[2]:
        names += ["ts_beats", "ts_beat_type", "ts_mus_beats"]
    if o[3]:
        names += ["is_downbeat", "rel_onset_div", "tot_measure_div"]
    if o[5]:
        names += ["staff"]
    if withdivs:
        names += ["divs_pq"]
    return names


def inv_array(d):
    divs0 = d["divs0"]
    cols = d["cols"]
    ts = d.get("ts")
    # beat columns next to division columns are beats of the time signature; beat columns alone are documented to be
    # read as quarters whatever the signature
    bt = ts[1] if (ts and cols == "both") else 4
    qcols = bool(d.get("qcols"))
    fields, recs = [], []
    if cols in ("beat", "both"):
        fields += [("onset_beat", "f4"), ("duration_beat", "f4")]
    if qcols:
        fields += [("onset_quarter", "f4"), ("duration_quarter", "f4")]
    if cols in ("div", "both"):
        fields += [("onset_div", "i4"), ("duration_div", "i4")]
    fields += [("pitch", "i4")]
    if d.get("voice", True):
        fields += [("voice", "i4")]
    if ts:
        fields += [("ts_beats", "i4"), ("ts_beat_type", "i4")]
    mal = d.get("mal")
    rows = [] if mal == "empty" else d["rows"]
    for i, r in enumerate(rows):
        rec = ()
        dur = r["d"]
        if mal == "negdur" and i == len(rows) - 1:
            dur = -1 - dur
        if cols in ("beat", "both"):
            ob = Fraction(r["o"] - d.get("neg", 0), divs0) * Fraction(bt, 4)
            db = Fraction(dur, divs0) * Fraction(bt, 4)
            rec += (float(ob), float(db))
        if qcols:
            rec += (float(Fraction(r["o"] - d.get("neg", 0), divs0)), float(Fraction(dur, divs0)))
        if cols in ("div", "both"):
            rec += (r["o"], dur)
        rec += (r["p"],)
        if d.get("voice", True):
            rec += (1,)
        if ts:
            rec += (ts[0], ts[1])
        recs.append(rec)
    arr = np.array(recs, dtype=fields)
    if mal == "nofields":
        arr = arr[[n for n in arr.dtype.names if n not in ("onset_beat", "onset_div")]]
    return arr


def inv_kwargs(d):
    kw = dict(d.get("kw", {}))
    if d.get("tsl"):
        kw["time_sigs"] = [[0, int(d["tsl"][0]), int(d["tsl"][1])]]
    return kw


def inv_signature(d):
    """(beats, beat_type) of the one time signature the new part gets, None for a barebones part: the array's columns
    override the time_sigs list, which overrides estimate_time (4/4)"""
    if d.get("ts"):
        return int(d["ts"][0]), int(d["ts"][1])
    if d.get("tsl"):
        return int(d["tsl"][0]), int(d["tsl"][1])
    if d.get("kw", {}).get("estimate_time"):
        return 4, 4
    return None


def inv_expected_back(d, dv):
    """The onsets that went in, as the note array of the new part has to give them back, in quarters, with plain
    Fractions: {(o, dur, p) of the description: quarter onset}; None when nothing can be said.

    Reading.  A note array places its notes against beat 0; the new part must place them the same way:
    * no negative onset: the onset that comes back is the onset that went in - a late entry, a leading rest, a slice
      of a piece stays where it is (barebones or not);
    * a negative first onset with a time signature: the pickup measure ends at beat 0, every onset comes back as it
      went in, provided the pickup is shorter than a bar (a 'pickup' of a bar or more has no notation: not judged);
    * a negative first onset without a time signature (barebones part, no measures): the documented shift - the
      first note is at 0 and everything else keeps its distance to it.
    Not judged: a piece that ends before its first bar line (the only measure of the new part is short and the time
    maps of the part read a short first measure as a pickup: C02 / C11), bars that are not a whole number of the new
    part's divisions, division and beat columns that contradict each other without any negative beat (beat 0 is
    not time 0 and there is no pickup to explain it), beat-only arrays with a pickup under a signature that is not
    in quarters (documented: 'possible error against div/beat')."""
    divs0 = d["divs0"]
    cols = d["cols"]
    neg = d.get("neg", 0) if cols in ("beat", "both") else 0
    rows = d["rows"]
    sig = inv_signature(d)
    sanitize = d.get("kw", {}).get("sanitize", True)
    gq = {(r["o"], r["d"], r["p"]): Fraction(r["o"] - neg, divs0) for r in rows}
    lo = min(gq.values())
    if cols == "both" and neg > 0 and lo >= 0:
        return None
    if cols == "beat":
        pick = -lo if lo < 0 else Fraction(0)      # the first note is moved to time 0
        end = max(gq[k] + Fraction(k[1], divs0) for k in gq) + pick
    else:
        pick = Fraction(neg, divs0) if lo < 0 else Fraction(0)   # time 0 is `neg` divisions before beat 0
        end = max(Fraction(k[0] + k[1], divs0) for k in gq)
    if sig is None:
        return {k: v + pick for k, v in gq.items()}
    barq = Fraction(4 * sig[0], sig[1])
    if pick > 0:
        if cols == "beat" and sig[1] != 4:
            return None
        return gq if pick < barq else None
    if sanitize:
        if (barq * dv).denominator != 1:
            return None
        if 0 < end < barq:
            return None
    return gq


def evaluate_inv(d, ev):
    from partitura.musicanalysis.note_array_to_score import note_array_to_score
    import partitura.score as S

    arr = inv_array(d)
    names = arr.dtype.names
    hb = "onset_beat" in names and "duration_beat" in names
    hd = "onset_div" in names and "duration_div" in names
    ht = "ts_beats" in names and "ts_beat_type" in names
    toks = [W.b(hb), W.b(hd), W.b(ht), W.opt(W.i, d.get("divs_arg")), str(len(arr))]
    for r in arr:
        toks += [W.q(float(r["onset_beat"])) if hb else "0",
                 W.q(float(r["duration_beat"])) if hb else "0",
                 W.i(r["onset_div"]) if hd else "0",
                 W.i(r["duration_div"]) if hd else "0",
                 W.i(r["pitch"]),
                 W.i(r["ts_beat_type"]) if ht else "0"]
    req = "inv " + " ".join(toks)
    arr_before = arr.copy()
    back = None
    try:
        sc = note_array_to_score(arr, divs=d.get("divs_arg"), **inv_kwargs(d))
        part = sc.parts[0]
        qd = [int(q) for q in part._quarter_durations]
        na = part.note_array()
        trip = sorted((int(r["onset_div"]), int(r["duration_div"]), int(r["pitch"])) for r in na)
        back = sorted((int(r["onset_div"]), int(r["duration_div"]), int(r["pitch"]), float(r["onset_quarter"]),
                       float(r["onset_beat"]), float(r["duration_quarter"]), float(r["duration_beat"])) for r in na)
        ms = sorted((int(m.start.t), int(m.end.t), str(m.name)) for m in part.iter_all(S.Measure))
        first_t = int(part.first_point.t)
        out = "%d;%s" % (qd[0], W.f_list(lambda t: W.f_tuple(*("%d" % x for x in t)), trip))
        err = None
        # the sounding notes read off the timeline of the new part (not through note_array): chain heads, summed
        # durations; what add_measures / tie_notes (sanitize=True) did to them is C11's business, but a chain must be
        # one sounding note: no gaps, one pitch
        tl = expected_rows(part)
        trip_tl = sorted((e["onset_div"], e["duration_div"], e["pitch"]) for e in tl.values())
        if trip_tl != trip:
            ev.oracle.append("inverse timeline: the new part's timeline holds %s, its note array %s" % (trip_tl[:8], trip[:8]))
        for nid, e in tl.items():
            if not e["contiguous"] or not e["same_pitch"]:
                ev.oracle.append("inverse ties: the tie chain of %s is not one sounding note (gap or pitch change)" % nid)
        ev.info["split"] = sum(1 for e in tl.values() if e["chain"] > 1)
        ev.info["measures"] = len(part.measures)
    except BaseException as e:
        if isinstance(e, (KeyboardInterrupt, SystemExit)):
            raise
        out, err = "err", e
    ev.requests.append(req)
    ev.impl.append(out)
    if err is None and d.get("wf", True):
        # what the note array of the new part gives back in quarters and beats, the pickup measure and the first
        # measure, against the model (fromArrayBack): the model is told the time signature and the sanitize flag
        sig = inv_signature(d)
        sanitize = d.get("kw", {}).get("sanitize", True)
        ana = [e for s_, e, nm in ms if s_ == 0 and nm == "0"]
        m1 = [e for s_, e, nm in ms if s_ == first_t]
        ev.requests.append("invback %s %d %d %s" % (" ".join(toks[:4]), sig[0] if sig else 0, sig[1] if sig else 0,
                                                    W.b(sanitize)) + " " + " ".join(toks[4:]))
        ev.impl.append(("@approx", ["a:%d" % (ana[0] if ana else 0), "m:%s" % (m1[0] if m1 else "-"),
                                    [[b[3], b[4]] for b in back]], RTOL))
    if not (arr == arr_before).all():
        ev.oracle.append("inverse frame: note_array_to_score modified its argument")
    if not d.get("wf", True):
        ev.key = None
        if err is None and d.get("mal") in ("negdur", "empty", "nodivs", "nofields"):
            ev.oracle.append("inverse malformed: a %s array was accepted" % d.get("mal"))
        return
    ev.key = req
    if err is not None:
        ev.oracle.append("inverse raised: well-formed %s array (divs=%r, %r) raised %s: %s" % (
            d["cols"], d.get("divs_arg"), d.get("kw"), type(err).__name__, str(err)[:200]))
        return
    divs0 = d["divs0"]
    if len(qd) != 1:
        ev.oracle.append("inverse divisions: new part has quarter durations %r" % (qd,))
        return
    dv = qd[0]
    got = sorted((Fraction(a, dv), Fraction(b, dv), p) for a, b, p in trip)
    if d["cols"] == "beat":
        mn = min(r["o"] - d.get("neg", 0) for r in d["rows"])
        sh = -mn if mn < 0 else 0
        want = sorted((Fraction(r["o"] - d.get("neg", 0) + sh, divs0), Fraction(r["d"], divs0), r["p"]) for r in d["rows"])
        if got != want:
            ev.oracle.append("inverse beats: quarters of the new part %s, of the array %s" % (
                [(str(a), str(b), p) for a, b, p in got][:8], [(str(a), str(b), p) for a, b, p in want][:8]))
    else:
        want = sorted((r["o"], r["d"], r["p"]) for r in d["rows"])
        if trip != want:
            ev.oracle.append("inverse divs: new part has %s, the array %s" % (trip[:8], want[:8]))
        if d["cols"] == "both" and any(r["d"] > 0 for r in d["rows"]) and dv != divs0:
            ev.oracle.append("inverse divisions: new part has %d divisions per quarter; the array's own columns "
                             "(duration_div / duration_beat) say %d" % (dv, divs0))
        if d["cols"] == "div" and dv != d["divs_arg"]:
            ev.oracle.append("inverse divisions: new part has %d divisions, %d were given" % (dv, d["divs_arg"]))
    # the onsets that come back are the onsets that went in (see inv_expected_back), in every unit the note array has
    exp = inv_expected_back(d, dv)
    if exp is not None and len(back) == len(d["rows"]):
        sig = inv_signature(d)
        f = Fraction(sig[1], 4) if sig else Fraction(1)
        given = sorted(d["rows"], key=lambda r: (r["o"], r["d"], r["p"]))
        for r, b in zip(given, back):
            q = exp[(r["o"], r["d"], r["p"])]
            dq = Fraction(r["d"], divs0)
            if b[2] != r["p"]:
                break
            if not (close(b[3], q) and close(b[4], q * f)):
                ev.oracle.append("inverse onsets back: the note of pitch %d went in at quarter %s (first onset of the array %s, "
                                 "%s columns, time signature %s), it comes back at quarter %r / beat %r instead of %s / %s" % (
                                     r["p"], Fraction(r["o"] - (d.get("neg", 0) if d["cols"] != "div" else 0), divs0),
                                     min(Fraction(x["o"] - (d.get("neg", 0) if d["cols"] != "div" else 0), divs0) for x in d["rows"]),
                                     d["cols"], sig, b[3], b[4], q, q * f))
                break
            if not (close(b[5], dq) and close(b[6], dq * f)):
                ev.oracle.append("inverse durations back: the note of pitch %d lasts %s quarters, %r quarters / %r beats come back" % (
                    r["p"], dq, b[5], b[6]))
                break
        ev.info["back"] = 1
    # sanitize=True (measures, ties across barlines, tuplets) must not change what sounds: same triples as the
    # part made from the same array without it
    if d.get("kw", {}).get("sanitize", True):
        try:
            kw2 = inv_kwargs(d)
            kw2["sanitize"] = False
            p2 = note_array_to_score(inv_array(d), divs=d.get("divs_arg"), **kw2).parts[0]
            t2 = sorted((e["onset_div"], e["duration_div"], e["pitch"]) for e in expected_rows(p2).values())
            q2 = [int(q) for q in p2._quarter_durations]
            if t2 != trip or q2 != qd:
                ev.oracle.append("inverse sanitize: with sanitize=True the part sounds %s (divisions %s), without %s (%s)" % (
                    trip[:8], qd, t2[:8], q2))
        except Exception as e:
            ev.oracle.append("inverse sanitize: sanitize=False raised %s on an array that sanitize=True accepts" % type(e).__name__)



def invx_beat(d, t):
    """beat of division time t of a generated invx description (plain Fractions): the pickup counts back from beat 0,
    every segment counts in its own beat type"""
    divs0, neg, segs = d["divs0"], d["neg"], d["segs"]
    if t < neg:
        return Fraction(t - neg, divs0) * Fraction(segs[0]["ts"][1], 4)
    b = Fraction(0)
    for sg in segs:
        hi = min(t, sg["end"])
        if hi > sg["start"]:
            b += Fraction(hi - sg["start"], divs0) * Fraction(sg["ts"][1], 4)
    last = segs[-1]
    if t > last["end"]:
        b += Fraction(t - last["end"], divs0) * Fraction(last["ts"][1], 4)
    return b


def invx_consistent(rows, divs0):
    """an array with both kinds of time columns is self-consistent when its beat columns are what its division columns
    give under its OWN signature columns (the beat type changes at the first row that carries the new one; before the
    first row the first row's), up to one constant (the pickup).  Only then 'the same beats come back' can be asked."""
    rs = sorted(rows)
    ch = []
    for r in rs:
        if not ch or ch[-1][1] != r[3][1]:
            ch.append((r[0], r[3][1]))
    ch[0] = (0, ch[0][1])

    def B(t):
        b = Fraction(0)
        for i, (st, bt) in enumerate(ch):
            hi = t if i + 1 == len(ch) else min(t, ch[i + 1][0])
            if hi > st:
                b += Fraction(hi - st, divs0) * Fraction(bt, 4)
        return b

    c = B(rs[0][0]) - rs[0][5]
    # the constant is a pickup: beat 0 lies c beats after time 0 and some note sounds before it; any other offset
    # (the first bars are silent under a signature no row carries) is not explained by the array
    if abs(float(c)) > 1e-6 and not (c > 0 and any(r[5] < 0 for r in rs)):
        return False
    return all(abs(float(B(r[0]) - c - r[5])) <= 1e-4 * max(1.0, abs(float(r[5]))) and
               abs(float(B(r[0] + r[1]) - B(r[0]) - r[6])) <= 1e-4 * max(1.0, abs(float(r[6]))) for r in rs)


def invx_input(d):
    """the array, the `divs` argument, the keyword arguments and what is known about the array independently of
    partitura's inverse direction:
      truth = {"divs0", "rows": [(onset_div, duration_div, pitch, (beats, beat_type) | None, quarter onset | None,
                                  beat onset | None, beat duration | None)], "judge_time": bool}"""
    import numpy.lib.recfunctions as rfn

    cols = d["cols"]
    if d["src"] == "part":
        pd = d["part"]
        part = build_part(pd)
        na = part.note_array(include_pitch_spelling=bool(d.get("spell")), include_key_signature=bool(d["kscols"]),
                             include_time_signature=True)
        # a grace note needs a main note of its voice at its onset IN THE ARRAY (a grace note before the continuation of
        # a tie has none there: sanitize_part removes such orphans by design)
        mains = set((int(r["onset_div"]), int(r["voice"])) for r in na if r["duration_div"] > 0)
        na = na[[i for i, r in enumerate(na) if r["duration_div"] > 0 or (int(r["onset_div"]), int(r["voice"])) in mains]]
        if len(na) == 0 or not (na["duration_div"] > 0).any():
            return None
        fields = (["onset_beat", "duration_beat"] if cols == "both" else []) + ["onset_div", "duration_div", "pitch", "voice"]
        fields += (["step", "alter", "octave"] if d.get("spell") else []) + (["ks_fifths", "ks_mode"] if d["kscols"] else [])
        fields += ["ts_beats", "ts_beat_type"]
        arr = rfn.repack_fields(na[fields]).copy()
        divs0 = pd["divs"]
        onsets = set(int(x) for x in na["onset_div"])
        # every change of beat type stands on a sounding onset (else the array cannot say where it is)
        judge = not pd.get("qd")
        prev = None
        for t, b, bt in sorted(pd["ts"]):
            if prev is not None and bt != prev and t not in onsets:
                judge = False
            prev = bt
        m0 = pd["measures"][0]
        ts0 = sorted(pd["ts"])[0]
        bar0 = Fraction(4 * ts0[1] * divs0, ts0[2])
        if m0[1] - m0[0] < bar0 and not any(o < m0[1] for o in onsets):
            judge = False  # a pickup bar without a note: the array's beat 0 is not its time 0 and nothing says why
        end = max(int(r["onset_div"]) + int(r["duration_div"]) for r in na)
        if m0[1] - m0[0] >= bar0 and end < bar0:
            judge = False  # the piece ends before its first bar line (C02 reads the short only measure as a pickup)
        if len(pd["measures"]) == 1 and m0[1] - m0[0] < bar0:
            judge = False
        rows = [(int(r["onset_div"]), int(r["duration_div"]), int(r["pitch"]), (int(r["ts_beats"]), int(r["ts_beat_type"])),
                 Fraction(float(r["onset_quarter"])), Fraction(float(r["onset_beat"])), Fraction(float(r["duration_beat"])))
                for r in na]
        if cols == "div":
            # division columns alone say nothing about a pickup: time 0 is quarter 0
            rows = [r[:4] + (Fraction(r[0], divs0),) + r[5:] for r in rows]
            # ... and the first bar counts from time 0: a signature change before its end cuts the first measure short
            # (C02 reads a short first measure as a pickup)
            change = [r[0] for r in sorted(rows) if r[3] != sorted(rows)[0][3]]
            judge = not pd.get("qd") and end >= bar0 and not (change and change[0] < bar0)
        if cols == "both" and judge:
            judge = invx_consistent(rows, divs0)  # e.g. a first bar of rests under a signature no note carries
        truth = {"divs0": divs0, "rows": rows, "judge_time": judge, "tol": 4}
        return arr, divs0, {"sanitize": bool(d["sanitize"])}, truth
    divs0, neg = d["divs0"], d["neg"]
    tscols = d["tsmode"] == "cols"
    fields = []
    if cols in ("beat", "both"):
        fields += [("onset_beat", "f4"), ("duration_beat", "f4")]
    if cols in ("div", "both"):
        fields += [("onset_div", "i4"), ("duration_div", "i4")]
    fields += [("pitch", "i4")]
    if d.get("voice", True):
        fields += [("voice", "i4")]
    if d["kscols"]:
        fields += [("%s_fifths" % d.get("ksnames", "ks"), "i4"), ("%s_mode" % d.get("ksnames", "ks"), "i4")]
    if tscols:
        fields += [("ts_beats", "i4"), ("ts_beat_type", "i4")]
    recs, rows = [], []
    for r in d["rows"]:
        ob, off = invx_beat(d, r["o"]), invx_beat(d, r["o"] + r["d"])
        rec = ()
        if cols in ("beat", "both"):
            rec += (float(ob), float(off - ob))
        if cols in ("div", "both"):
            rec += (r["o"], r["d"])
        rec += (r["p"],)
        if d.get("voice", True):
            rec += (r["v"],)
        if d["kscols"]:
            rec += tuple(r["ks"])
        if tscols:
            rec += tuple(r["ts"])
        recs.append(rec)
        rows.append((r["o"], r["d"], r["p"], tuple(r["ts"]), Fraction(r["o"] - neg, divs0),
                     Fraction(float(np.float32(float(ob)))), Fraction(float(np.float32(float(off - ob))))))
    arr = np.array(recs, dtype=fields)
    kw = {"sanitize": bool(d["sanitize"])}
    if d.get("tsl"):
        kw["time_sigs"] = [list(x) for x in d["tsl"]]
    onsets = set(r["o"] for r in d["rows"])
    judge = True
    if tscols:
        prev = None
        for sg in d["segs"]:
            if prev is not None and sg["ts"][1] != prev and sg["start"] not in onsets:
                judge = False  # the first note with the new beat type comes after the bar line
            prev = sg["ts"][1]
    sa = d["segs"][0]["ts"]
    end = max(r["o"] + r["d"] for r in d["rows"])
    if end < neg + Fraction(4 * sa[0] * divs0, sa[1]):
        judge = False
    if neg and not any(r["o"] < neg for r in d["rows"]):
        judge = False
    if cols == "both" and judge and tscols:
        judge = invx_consistent(rows, divs0)
    truth = {"divs0": divs0, "rows": rows, "judge_time": judge, "tol": 1}
    return arr, d.get("divs_arg"), kw, truth


def evaluate_invx(d, ev):
    """note_array_to_score on an array whose signature columns change and return (see gen_invx), and the note array of
    the part it makes.  Model: request `invx` (fromArrayX: the array -> divisions, signatures with their start times,
    pickup measure, measures of add_measures (C11 model), then the table of the created part through the C02 / C10
    models: every column of every row).  Oracle, independent of the model:
      * 'inverse divs' / 'inverse beats': onsets, durations, pitches come back;
      * 'inverse signature at onset': the rebuilt part states at every note the time signature the array states there
        (a change wherever the column changes - also back to an earlier value);
      * 'inverse onsets back' / 'inverse durations back': the quarter and beat columns that come back are the ones that
        went in, when the array says where the beat type changes (a note on every such bar line)."""
    from partitura.musicanalysis.note_array_to_score import note_array_to_score
    import partitura.score as S
    import partitura.utils.music as M

    inp = invx_input(d)
    if inp is None:
        ev.key = None
        return
    arr, divs_arg, kw, truth = inp
    names = arr.dtype.names
    hb, hd = "onset_beat" in names, "onset_div" in names
    ht, hk = "ts_beats" in names, "ks_fifths" in names
    tsl = kw.get("time_sigs") or []
    toks = [W.b(hb), W.b(hd), W.b(ht), W.b(hk), W.opt(W.i, divs_arg), str(len(tsl))]
    for x in tsl:
        toks += [W.i(x[0]), W.i(x[1]), W.i(x[2])]
    toks += [W.b(False), W.b(kw.get("sanitize", True)), str(len(arr))]
    for r in arr:
        toks += [W.q(float(r["onset_beat"])) if hb else "0", W.q(float(r["duration_beat"])) if hb else "0",
                 W.i(r["onset_div"]) if hd else "0", W.i(r["duration_div"]) if hd else "0", W.i(r["pitch"]),
                 W.i(r["ts_beats"]) if ht else "0", W.i(r["ts_beat_type"]) if ht else "0",
                 W.i(r["ks_fifths"]) if hk else "0", W.i(r["ks_mode"]) if hk else "0"]
    req = "invx " + " ".join(toks)
    before = arr.copy()
    try:
        part = note_array_to_score(arr, divs=divs_arg, return_part=True, **kw)
        qd = [int(q) for q in part._quarter_durations]
        na = part.note_array(include_time_signature=True, include_key_signature=True)
        ms = sorted((int(m.start.t), int(m.end.t)) for m in part.iter_all(S.Measure))
        tss = [(int(t.start.t), int(t.beats), int(t.beat_type)) for t in part.iter_all(S.TimeSignature)]
        kss = [(int(k.start.t), int(k.fifths), int(M.key_mode_to_int(k.mode))) for k in part.iter_all(S.KeySignature)]
        pieces = sorted((int(n.start.t), int(n.end.t)) for n in part.iter_all(S.Note))
        back = sorted((int(r["onset_div"]), int(r["duration_div"]), int(r["pitch"]), float(r["onset_quarter"]),
                       float(r["onset_beat"]), float(r["duration_quarter"]), float(r["duration_beat"]),
                       int(r["ts_beats"]), int(r["ts_beat_type"]), int(r["ks_fifths"]), int(r["ks_mode"])) for r in na)
        tl = expected_rows(part)
        err = None
    except BaseException as e:
        if isinstance(e, (KeyboardInterrupt, SystemExit)):
            raise
        err = e
    ev.requests.append(req)
    ev.key = req
    if err is not None:
        ev.impl.append("err")
        ev.oracle.append("inverse raised: well-formed %s array with changing signature columns %s (divs=%r, %r) raised %s: %s" % (
            d["cols"], [n for n in names if n[:3] in ("ts_", "ks_") or n[:4] == "key_"], divs_arg, sorted(kw), type(err).__name__, str(err)[:200]))
        return
    ev.impl.append(("@approx", ["d:%d" % qd[0], "m:" + ";".join("%d-%d" % m for m in ms),
                                "t:" + ";".join("%d.%d.%d" % t for t in tss), "k:" + ";".join("%d.%d.%d" % k for k in kss), "n:" + ";".join("%d-%d" % x for x in pieces),
                                [[b[3], b[4], b[5], b[6], "r:" + "/".join("%d" % x for x in b[:3] + b[7:])] for b in back]],
                    RTOL))
    # the table that comes back BIT FOR BIT (round 6): binary64 maps of the created part, binary32 store; tolerance 0
    ev.requests.append("invxf " + " ".join(toks))
    ev.impl.append(("@approx", ev.impl[-1][1], 0.0))
    ev.info["invxf"] = 1
    if not (arr == before).all():
        ev.oracle.append("inverse frame: note_array_to_score modified its argument")
    ev.info["measures"] = len(ms)
    ev.info["tschanges"] = len(tss)
    ev.info["kschanges"] = len(kss)
    trip = [b[:3] for b in back]
    trip_tl = sorted((e["onset_div"], e["duration_div"], e["pitch"]) for e in tl.values())
    if trip_tl != trip:
        ev.oracle.append("inverse timeline: the new part's timeline holds %s, its note array %s" % (trip_tl[:8], trip[:8]))
    for nid, e in tl.items():
        if not e["contiguous"] or not e["same_pitch"]:
            ev.oracle.append("inverse ties: the tie chain of %s is not one sounding note (gap or pitch change)" % nid)
    if len(qd) != 1:
        ev.oracle.append("inverse divisions: new part has quarter durations %r" % (qd,))
        return
    dv, divs0 = qd[0], truth["divs0"]
    given = sorted(truth["rows"], key=lambda r: r[:3])
    if d["cols"] == "beat":
        lo = min(r[4] for r in given)
        sh = -lo if lo < 0 else 0
        want = sorted((r[4] + sh, Fraction(r[1], divs0), r[2]) for r in given)
        got = sorted((Fraction(a, dv), Fraction(b, dv), p) for a, b, p in trip)
        if got != want:
            ev.oracle.append("inverse beats: quarters of the new part %s, of the array %s" % (
                [(str(a), str(b), p) for a, b, p in got][:8], [(str(a), str(b), p) for a, b, p in want][:8]))
            return
    else:
        if trip != [r[:3] for r in given]:
            ev.oracle.append("inverse divs: new part has %s, the array %s" % (trip[:8], [r[:3] for r in given][:8]))
            return
        if dv != divs0:
            ev.oracle.append("inverse divisions: new part has %d divisions per quarter; the array's own columns say %d" % (dv, divs0))
            return
    if len(back) != len(given):
        return
    # the signature the rebuilt part states at every note: a change wherever the column (or the list) changes
    if ht or tsl:
        for r, b in zip(given, back):
            if tuple(b[7:9]) != tuple(r[3]):
                ev.oracle.append("inverse signature at onset: the note of pitch %d at division %d carries %d/%d in the array "
                                 "(signatures in order of onset: %s); the rebuilt part states %d/%d there (its time signatures: %s)" % (
                                     r[2], r[0], r[3][0], r[3][1], destutter([x[3] for x in given]), b[7], b[8], tss))
                break
    # quarter and beat columns come back as they went in
    if truth["judge_time"] and d["cols"] != "beat":
        tol = truth["tol"]
        for r, b in zip(given, back):
            okq = abs(b[3] - float(r[4])) <= tol * RTOL * max(1.0, abs(float(r[4])))
            okb = d["cols"] != "both" or abs(b[4] - float(r[5])) <= tol * RTOL * max(1.0, abs(float(r[5])))
            if not (okq and okb):
                ev.oracle.append("inverse onsets back: the note of pitch %d at division %d went in at quarter %s / beat %s; it comes back "
                                 "at quarter %r / beat %r (signatures of the array in order of onset: %s; time signatures of the "
                                 "rebuilt part: %s)" % (r[2], r[0], r[4], r[5], b[3], b[4], destutter([x[3] for x in given]), tss))
                break
            if d["cols"] == "both" and abs(b[6] - float(r[6])) > tol * RTOL * max(1.0, abs(float(r[6]))):
                ev.oracle.append("inverse durations back: the note of pitch %d at division %d lasts %s beats in the array, %r beats "
                                 "come back" % (r[2], r[0], r[6], b[6]))
                break
        ev.info["back"] = 1


def destutter(xs):
    out = []
    for x in xs:
        if not out or out[-1] != x:
            out.append(x)
    return out


def evaluate_dfb(d, ev):
    from partitura.musicanalysis.note_array_to_score import create_divs_from_beats, create_beats_from_divs

    rows = [(Fraction(a), Fraction(b)) for a, b in d["rows"]]
    arr = np.array([(float(a), float(b), 60) for a, b in rows], dtype=[("onset_beat", "f4"), ("duration_beat", "f4"), ("pitch", "i4")])
    req = "dfb %d %s" % (len(arr), " ".join("%s %s" % (W.q(float(r["onset_beat"])), W.q(float(r["duration_beat"]))) for r in arr))
    try:
        a2, dv = create_divs_from_beats(arr)
        out = "%d;%s" % (int(dv), W.f_list(lambda r: W.f_tuple("%d" % int(r["onset_div"]), "%d" % int(r["duration_div"])), a2))
    except Exception:
        out = "err"
        a2 = None
    ev.requests.append(req)
    ev.impl.append(out)
    if a2 is not None:
        # oracle: every time is reproduced exactly on the new grid (up to the shift of a negative first onset)
        mn = min(a for a, _ in rows)
        sh = -mn if mn < 0 else 0
        for (a, b), r in zip(rows, a2):
            if a.denominator <= 256 and b.denominator <= 256:
                if Fraction(int(r["onset_div"]), int(dv)) != a + sh or Fraction(int(r["duration_div"]), int(dv)) != b:
                    ev.oracle.append("divs from beats: beat %s lasting %s became %d/%d lasting %d/%d" % (
                        a, b, r["onset_div"], dv, r["duration_div"], dv))
                    break
        dvs = int(dv)
        b2 = create_beats_from_divs(np.array([(int(r["onset_div"]), int(r["duration_div"])) for r in a2],
                                             dtype=[("onset_div", "i4"), ("duration_div", "i4")]), dvs)
        ev.requests.append("bfd %d %d %s" % (dvs, len(a2), " ".join("%d %d" % (int(r["onset_div"]), int(r["duration_div"])) for r in a2)))
        ev.impl.append(("@approx", [[float(r["onset_beat"]), float(r["duration_beat"])] for r in b2], 1e-12))
    for x in d.get("raw", []):
        f32 = float(np.float32(x))
        ev.requests.append("limden %s" % W.q(f32))
        ev.impl.append(W.f_rat(Fraction(f32).limit_denominator(256)))
        # the model's float32 rounding against numpy's, on the binary64 value
        ev.requests.append("f32 %s" % W.q(float(x)))
        ev.impl.append(W.f_rat(Fraction(f32)))
    for x in d.get("f32", []):
        # the model's binary64 rounding against Python's: Fraction -> float is correctly rounded
        ev.requests.append("f64 %s" % W.q(Fraction(x) / 3))
        ev.impl.append(W.f_rat(Fraction(float(Fraction(x) / 3))))
    for x in d.get("f32", []):
        fx = Fraction(x)
        # numpy rounds the binary64 value; use rationals that binary64 holds exactly or whose double rounding is harmless
        dbl = float(fx)
        ev.requests.append("f32 %s" % W.q(dbl))
        ev.impl.append(W.f_rat(Fraction(float(np.float32(dbl)))))
    ev.key = req


# ====================================================================== reporting / shrinking
def finding_key(d, f):
    return d["k"] + ":" + f.split(":")[0]


def shrink(d):
    import copy

    k = d["k"]
    if k in ("part", "rests") and len(d["combos"]) > 1:
        for c in d["combos"]:
            e = copy.deepcopy(d)
            e["combos"] = [c]
            yield e
    if k == "score" and len(d["combos"]) > 1:
        for c in d["combos"]:
            e = copy.deepcopy(d)
            e["combos"] = [c]
            yield e
    if k == "score" and len(d["parts"]) > 1 and all(not isinstance(x, list) for x in d["tree"]):
        for i in range(len(d["parts"])):
            e = copy.deepcopy(d)
            del e["parts"][i]
            e["tree"] = list(range(len(e["parts"])))
            yield e

    def drop_notes(pd):
        notes = pd["notes"]
        tied = set(n["tie"] for n in notes if n.get("tie"))
        free = [i for i, n in enumerate(notes) if not n.get("tie") and n["id"] not in tied]
        for size in (len(free) // 2, 4, 1):
            if size < 1:
                continue
            for s in range(0, len(free), size):
                rm = set(free[s:s + size])
                q = copy.deepcopy(pd)
                q["notes"] = [n for i, n in enumerate(notes) if i not in rm]
                yield q

    if k in ("part", "rests"):
        for q in drop_notes(d["part"]):
            e = copy.deepcopy(d)
            e["part"] = q
            yield e
    if k in ("score", "restlist"):
        for i, pd in enumerate(d["parts"]):
            for q in drop_notes(pd):
                e = copy.deepcopy(d)
                e["parts"][i] = q
                yield e
    if k == "inv" and len(d["rows"]) > 1:
        for i in range(len(d["rows"])):
            e = copy.deepcopy(d)
            del e["rows"][i]
            yield e


def distribution(descs, results):
    from collections import Counter

    c = Counter(d["k"] for d in descs)
    feats = Counter()
    for d in descs:
        ps = [d["part"]] if "part" in d else d.get("parts", [])
        for pd in ps:
            ns = pd["notes"]
            feats["parts"] += 1
            feats["division_change"] += bool(pd.get("qd"))
            feats["ts_change"] += len(pd["ts"]) > 1
            feats["pickup"] += bool(pd["measures"]) and len(pd["ts"]) > 0 and \
                (pd["measures"][0][1] - pd["measures"][0][0]) < 4 * pd["ts"][0][1] * pd["divs"] // pd["ts"][0][2]
            feats["ties"] += any(n.get("tie") for n in ns)
            byid = {n["id"]: n for n in ns}
            gaps = [n for n in ns if n.get("tie") and byid[n["tie"]]["t"] != n["t"] + n["dur"]]
            feats["tie_chain_with_gap"] += any(n["kind"] != "rest" for n in gaps)
            feats["tie_chain_gap_other_voice"] += any(n["kind"] != "rest" and byid[n["tie"]].get("voice") != n.get("voice") for n in gaps)
            feats["tied_rests_with_gap"] += any(n["kind"] == "rest" for n in gaps)
            feats["grace"] += any(n["kind"] == "grace" for n in ns)
            feats["voice_none"] += any(n.get("voice") is None for n in ns)
            feats["staff_none"] += any(n.get("staff") is None for n in ns)
            feats["empty"] += not ns
        if d["k"] == "score":
            ds = [pd["divs"] for pd in d["parts"]]
            feats["lcm_exceeds_all"] += lcm_list(ds) > max(ds)
            feats["nested"] += any(isinstance(x, list) for x in d["tree"])
        if d["k"] == "inv":
            feats["inv_" + d["cols"]] += 1
            if d.get("grid"):
                feats["inv_grid_" + "_".join(d["grid"][:2])] += 1
            elif d.get("wf", True) and d["cols"] == "beat" and min(x["o"] for x in d["rows"]) - d.get("neg", 0) > 0:
                feats["inv_beat_pos"] += 1
    for d in descs:
        if d["k"] == "invx":
            feats["invx_" + d["src"] + "_" + d["cols"]] += 1
            feats["invx_sanitize"] += bool(d.get("sanitize"))
            feats["invx_key_columns"] += bool(d.get("kscols"))
            if d["src"] == "gen":
                sigs = destutter([tuple(sg["ts"]) for sg in d["segs"]])
                feats["invx_signature_returns"] += len(set(sigs)) < len(sigs)
                feats["invx_beat_type_changes"] += len(set(x[1] for x in sigs)) > 1
                feats["invx_pickup"] += d["neg"] > 0
                feats["invx_time_sigs_list"] += d["tsmode"] == "list"
                feats["invx_voice_zero"] += any(r["v"] == 0 for r in d["rows"])
            else:
                sigs = destutter([tuple(x[1:]) for x in sorted(d["part"]["ts"])])
                feats["invx_signature_returns"] += len(set(sigs)) < len(sigs)
    for d in descs:
        for pd in ([d["part"]] if "part" in d else d.get("parts", [])):
            feats["voice_zero"] += any(n.get("voice") == 0 for n in pd["notes"])
            feats["staff_zero"] += any(n.get("staff") == 0 for n in pd["notes"])
            feats["octave_le_zero"] += any(n.get("oct", 1) <= 0 for n in pd["notes"] if n["kind"] != "rest")
            feats["empty_id"] += any(n["id"] == "" for n in pd["notes"])
            sg = destutter([tuple(x[1:]) for x in sorted(pd["ts"])])
            feats["part_signature_returns"] += len(set(sg)) < len(sg)
    feats["invx_time_signatures_of_new_part_gt1"] = sum(1 for r in results if (r.get("info") or {}).get("tschanges", 0) > 1)
    feats["invx_key_signatures_of_new_part_gt1"] = sum(1 for r in results if (r.get("info") or {}).get("kschanges", 0) > 1)
    feats["inv_onsets_back_judged"] = sum(1 for r in results if r.get("info", {}).get("back", 0) > 0)
    feats["inv_with_measures"] = sum(1 for r in results if r.get("info", {}).get("measures", 0) > 0)
    feats["inv_notes_split_by_tie_notes"] = sum(1 for r in results if r.get("info", {}).get("split", 0) > 0)
    feats["musical_beats"] = sum(1 for d in descs for pd in ([d["part"]] if "part" in d else d.get("parts", [])) if pd.get("musical"))
    feats["collapse"] = sum(1 for d in descs if (d["k"] == "rests" and any(c[6] for c in d["combos"])) or (d["k"] == "restlist" and d.get("collapse")))
    # round 6: the streams that compare score-level / list / collapsed tables with tolerance 0, by shape
    for r in results:
        for k, v in (r.get("info") or {}).items():
            if k.startswith(("scoref", "restsfc", "restlistf", "invxf", "tied_")):
                feats["stored_" + k] += v
    try:
        import translate_c05 as T5

        feats["translator_unreadable_items"] = len(T5.extract()[1])
    except Exception:
        feats["translator_unreadable_items"] = -1
    errs = sum(1 for r in results for x in r.get("impl", []) if x == "err")
    maperr = sum(r.get("info", {}).get("maperr", 0) for r in results)
    return {"by_kind": dict(c), "features": dict(feats), "error_observations": errs, "options_skipped_map_raises": maperr}
