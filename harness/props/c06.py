"""C06 - performance MIDI export and import preserve notes, controls and timing.

Readings (where the property text leaves a choice, the one under which the minimally repaired code is right):

* "nearest tick" = round-half-even of 10^6*ppq*t/mpq evaluated exactly; a binary64 time whose exact image lies
  within 1e-6 of x.5 may come out on either neighbour (the code rounds a binary64 product) - the ORACLE accepts
  "one of the two nearest ticks" there.  Round 5: the MODEL evaluates the expression in binary64 operation by
  operation (`quantF`, Model/PerfFloat.lean) and is compared exactly, also there; `tick_float_near` bounds its
  distance from the exact image by 1/2 + 5*2^-53*image.
* "same track": a MIDI file has track positions, not track numbers.  The k-th smallest track number that
  carries an event becomes file track k, and the loader numbers the notes/controls/programs of the k-th track
  that holds any of them k (`Performance.sanitize_track_numbers`, order preserving after fixes/C06-3).  For a
  `Performance` (whose constructor has already made the numbers 0..n-1) this is the identity.
* a `program_change 0` written for a channel/track of a part without programs is "no program"; the
  `end_of_track` mido appends to every track is not an event of the performance.
* note clause: only when, in every track as the loader sees it (after merging on either side), for any two notes
  a, b of one (channel, pitch) with a's messages written before b's (track number, then part, then (note_on,
  note_off)): a is released no later in ticks than b begins, or b is released on a tick strictly before a begins
  (`MergeOk` of Props/C06Merge.lean: no overlap; two notes that meet on one tick are written in their order in time).
* `load_performance(first_note_at_zero=True)` moves the FIRST performed part only: every note / program / control
  time becomes max(t - s, 0), s = smallest note_on of that part; see `oracle_silence`.
* ids: within a performed part, `n<k>` is the rank in the lexicographic order of (note_on, midi_pitch,
  note_off, channel, track).  Round 6: `note_on` / `note_off` are the times the loaded notes HAVE (the seconds of the
  file's whole tempo map), also where they tie: a `set_tempo` of 0 is a set_tempo ("any sequence of set_tempo
  events") - after it the seconds stand still, notes of different ticks share their onset and the key goes on to the
  pitch (fixes/C06-8: the unrepaired loader ordered by the seconds it had accumulated while reading the track).
* round 6: "a list of performed parts" is the performance whatever iterable hands it over (round 5 reading of the
  forms): the saver's `isinstance(performance_data, Iterable)` branch accepts generators, iterators and `map`
  objects, and what it writes for one must be what it writes for the list of the same parts (fixes/C06-9: the
  unrepaired saver wrote a file without tracks); what a SECOND save of the exhausted iterator writes is the empty
  performance - compared with the model, not judged.
* the loader makes a performed part only of a track that holds a note, a control or a program (documented
  behaviour: a conductor track is not a part); generated meta events sit on tracks that carry one (round 3: a few
  sit elsewhere - then the round trip of the notes-free track is not judged, only compared with the model).
* round 3 - the times of a performance are its SECONDS.  `note_on_tick` / `note_off_tick` / `time_tick` and
  `PerformedPart.ppq` / `.mpq` are what an importer left behind (the ticks and resolution of the file that was read,
  the DEFAULT tempo): the property speaks about "the original times rounded to the nearest tick" of the file being
  written, so the written file has to reproduce the seconds whatever these fields hold.  A performance returned by
  `load_performance_midi` / `load_performance` is a performance like any other: saved again (any ppq/mpq, also
  after an edit of its seconds) and loaded, it comes back with its notes, controls, programs, key/time signatures
  and other meta events (second generation; fixes/C06-7 for the signatures and meta events of a part read from a
  file track after a notes-free track).
* round 5 - forms and histories.  The loaders take a path (str, pathlib.Path) or a `mido.MidiFile` object, the saver
  writes to a path, a file-like object, or returns the `MidiFile` (out=None).  "Loading any MIDI file ..." and
  "Saving a performance ... and loading it back ..." are statements about the file / the performance, not about the
  form it is handed over in or about what was done with the same object before: every load of a history of uses of
  one `MidiFile` object (merged or not, any default tempo, through load_performance_midi / load_performance /
  midi_to_notearray, object or path) returns what the same call returns on a fresh copy of the file, and every save
  of a history of saves of one performance (any ppq / mpq / merging / out) writes what saving a fresh copy writes.
  That the argument is left as it was is checked on what a reader can see of it (the messages with their delta
  times, ticks_per_beat, type; the entries of the performance as a multiset) - a cache kept in a private attribute
  or a harmless reordering of a list is not a change.
"""
import io
import math
from fractions import Fraction

import numpy as np

import wire as W
from core import Eval

PROPERTY = "C06"
DRIVER = "drv_c06"
PROPS = ["PartituraModel.Props.C06", "PartituraModel.Props.C06Merge", "PartituraModel.Props.C06Tracks",
         "PartituraModel.Props.C06Silence", "PartituraModel.Props.C06Regen", "PartituraModel.Props.C06History",
         "PartituraModel.Props.C06Defaults", "PartituraModel.Props.C06Float", "PartituraModel.Props.C06Tables",
         "PartituraModel.Props.C06Pairing", "PartituraModel.Props.C06Order", "PartituraModel.Props.C06Iter"]
TRUSTED = [
    "mido: (de)serialisation of messages, delta times, merge_tracks (stable sort of absolute ticks), fix_end_of_track "
    "(modelled in absolute ticks as mergeAbs/fixEot and compared on every case)",
    "binary64: IEEE round-to-nearest-even of each operation of `10**6*ppq*t/mpq` (int->float, *, /), np.round = "
    "round-half-even, and of each operation of adjust_time / midi_ticks_to_seconds - modelled operation by operation "
    "over exact rationals (`b64` = MatchCodec.toBinary64, exponent range not modelled; `quantF`, `secondsAtF`) and compared "
    "EXACTLY on every export, every load and every second generation (streams exp, saves, loadf, regenf); the times of "
    "a performance are binary64 numbers (float / np.float64), not Python ints or Fractions",
    "the exact-rational loader model `secondsAt` (what the theorems about tempo integration speak about) is compared "
    "with rtol 1e-9 (loadt, histt); first_note_at_zero subtracts in binary64, the model exactly (sil/silt: rtol 1e-9)",
    "round 5: a `mido.MidiFile` is what its readers see of it - ticks_per_beat, type, per track the messages with their "
    "delta times (`MidiObj`); copy.deepcopy of it is a fresh copy; `obj.save` writes every track through fix_end_of_track "
    "without touching the object (`MidiObj.saved`, compared on every S use); str / pathlib.Path / open file object / "
    "BytesIO are the same file to mido",
    "Python sorted/list.sort are stable (modelled as stable insertion sort); dict/set of small ints "
    "(after fixes/C06-3 no set iteration order is observable)",
    "fifths_mode_to_key_name / key_name_to_fifths_mode (C12) map the 30 keys one to one",
    "scipy interp1d(kind='previous', fill_value=(first, last)) and numpy comparisons in remove_silence_from_performed_part "
    "(modelled as prevVal: last sample with time <= t after a stable sort, the first/last listed value outside the "
    "range; compared on every raw case)",
    "round 3: the composed model file -> loader -> exporter (`regen`) integrates the tempo map exactly, the loader in "
    "binary64: it is compared only on second-generation cases none of whose tick images lies within 1e-4 of an x.5 "
    "boundary (the others are compared through `exp` on the loader's binary64 seconds, as every export)",
    "round 6: `list(iterable)` yields the elements a `for` loop over the iterable would have yielded and leaves a "
    "one-shot iterable empty (`OneShot`, compared on every save of the `iter` stream); Python compares the tuples of "
    "the sort key lexicographically, floats by value (`secLe`)",
    "load_match raises on a MIDI file that contains any message (its bytes are not UTF-8): after fixes/C06-6 it is not "
    "even tried once the MIDI loader has succeeded",
]
PARTIAL = [
    "notes under merging (notes_kept_merged, notes_kept_merged_all, notes_kept_part_merged) are proved under the exact "
    "condition MergeOk on the written order of the notes of one channel and pitch (no overlap across the merged tracks; "
    "two that meet on one tick are written in their order in time).  Round 5: for a FILE the proviso is proved necessary "
    "and sufficient (pairing_complete_iff: all starts and releases of a channel and pitch become notes iff the messages "
    "strictly alternate; pairing_loses_when_overlapping); for the EXPORTER the step from `the written messages alternate' "
    "back to MergeOk is still shown by a counter-example only, not as a general converse; outside MergeOk the model is "
    "only compared",
    "first_note_at_zero: the value of the control inserted at time 0 and the values of two controls of one "
    "(track, channel, number) at the same time are modelled and compared (silence_control_values covers groups with "
    "strictly increasing times); only the FIRST performed part is shifted (code as it is), sound_off (C14) is not checked; "
    "the *_tick fields a loaded or shifted performance keeps are not judged themselves - only that the exporter writes "
    "the seconds whatever they hold",
    "second generation (round 3): regen_eq / loadedParts_eq / second_generation_time / second_generation_notes cover "
    "file -> loader -> exporter for every file; edits of the seconds between load and save other than "
    "first_note_at_zero (shift, change of tempo) are exercised by the generator and judged by the oracle, in the model "
    "they are just other seconds",
    "load_performance on match files is C08's subject; here only MIDI files go through the dispatcher",
    "binary64: the exporter's tick is proved within 1/2 + 5*2^-53*image of the exact image, monotone, and equal to the "
    "exact nearest tick away from the boundaries (tick_float_near, quantF_mono, tick_float_exact); for the loader's "
    "seconds (`secondsAtF`, a sum of rounded terms) no error bound against the exact integral is proved - the binary64 "
    "model is compared exactly, the exact model with tolerance; overflow / subnormal ranges are not modelled",
    "round 5, histories: history_roundtrip composes every load of every history with controls_kept, programs_kept and "
    "load_merged_notes; the unmerged per-track notes theorem (notes_kept_tracks) and the key/time signature / meta "
    "theorems are not restated per history step (they apply to the same `loadFile` the step is proved equal to); "
    "for an object that was never written the path form and the object form agree up to end_of_track entries of "
    "meta_other (unsaved_object_load), which is what the code does; the outputs of midi_to_notearray other than "
    "(onset_tick, pitch, velocity, channel) are only compared with a fresh copy's (duration_tick is C14/C13 matter)",
    "the saver's argument dispatch is modelled for Performance / PerformedPart / list / an iterable with a foreign "
    "element / a non-iterable and (round 6, fixes/C06-9) a one-shot iterable - generator, iterator, map - with or "
    "without a foreign element, over histories of saves of the one object (oneshot_first_save, oneshot_later_saves); "
    "an iterable whose __iter__ has side effects of its own, or that raises while it is run through, is not modelled",
    "round 6, ids: ids_by_seconds / ids_by_seconds_file hold for every tempo map (also a tempo of 0) and every "
    "conversion to seconds; that the order by seconds is the order by ticks (loadFileExact_eq_loadFile for every file "
    "with positive tempi, written_file_loader for every file the exporter writes - so that `loadFile` of the older "
    "theorems IS the repaired loader, ids included) is proved for the EXACT integral of positive tempi; "
    "for the binary64 seconds the code sorts by (`secondsAtF`) strict monotonicity is not proved (two ticks could "
    "share a binary64 second once increments are absorbed, beyond 2^52 ulps - outside the generated range) - the "
    "load / loadt / loadf streams sort the model's notes by `secondsAtF` and are compared exactly.  The streams of "
    "load_performance (sil / silt), of the histories (hist) and of the second generation (regen / regenf) still "
    "model the loader by `loadFile`: files with a tempo of 0 are generated for load_performance_midi only "
    "(loadFileS_same_events: for them the other streams would differ in the order of tied notes only)",
    "sound_off of loaded notes (C14) is not part of this check; PerformedPart.mpq of a loaded part is the default tempo "
    "(documented: the loader does not retain tempo) and is not checked",
]
RULE = ("structured random performances (1-4 parts/tracks, channels 0-15, velocities 1-127, binary64 times incl. "
        "tick-grid values and x.5 boundaries, touching and zero-length notes, unsorted note lists, controls of any "
        "number/value, programs or none, key/time signatures, other meta incl. end_of_track) x ppq {96,480,960,1} x "
        "mpq {500000,857142,250001} x merge on save x merge on load x input kind; raw MIDI files with set_tempo "
        "sequences in any track (also several on one tick, in one track and across tracks), zero-velocity note-ons, "
        "note-offs with any release velocity, repeated note-ons, unmatched note-offs, open notes, overlapping notes of "
        "different pitches and of one pitch on different channels, pitch-bend / channel and polyphonic aftertouch (also on "
        "sounding pitches) / sysex messages; every raw file and 30% of the written files also through "
        "load_performance (dispatch; first_note_at_zero); adjust_time on tempo lists in order of tick; "
        "mido.merge_tracks alone.  Round 3: 35% of the hand-made performances carry stored tick fields (in step with the "
        "seconds, of another tempo / resolution, shifted, arbitrary) and own ppq/mpq attributes (65% equal to the "
        "file's); raw files in the conductor-track layout; second/third-generation cases: a raw file (any tempo map) or "
        "a written file (any ppq/mpq) is loaded (load_performance_midi / load_performance / first_note_at_zero, merged or "
        "not), optionally shifted or rescaled in its seconds, saved as Performance / list / first part - 60% with the "
        "source's ppq and 60% with the loader's default tempo, the values the loaded parts carry - and loaded again, "
        "once or twice.  Round 5: `lhist` - one file (raw, any tempo map, mostly several tracks; or a performance "
        "exported with out=None) as ONE mido.MidiFile object (built from messages / parsed / the one the exporter returned, "
        "i.e. without end_of_track), used 2-7 times in one history: load_performance_midi / load_performance (with and "
        "without first_note_at_zero) / midi_to_notearray, each given the object, the path as str or as pathlib.Path, with "
        "merge_tracks on/off, default_bpm in {120,60,90,100} or every option left to its default, interleaved with obj.save "
        "and reading the messages; half of the histories end with an unmerged load of the object.  `shist` - one "
        "Performance / PerformedPart / list saved 2-4 times with other ppq / mpq / merge_tracks_save (or the defaults) to a "
        "BytesIO, a path (str / pathlib.Path), an open file, or out=None; 6% hand over a non-performance.  Round 6: raw files some of whose set_tempo events carry the tempo 0 (any track, also "
        "clustered on one tick), through load_performance_midi merged or not; `iter` - the list of parts handed to the "
        "saver as a generator / iter() / map object / dict view, saved 1-3 times with the one object (ppq / mpq / merge / "
        "out=None or BytesIO, or the defaults), 8% with an element that is no PerformedPart.  distinct = "
        "distinct request text; non-trivial = at least one note or tempo event")
LEVEL_TEXT = ("Lean 4 theorems over all tempo lists / message lists / note lists about an executable model of the exporter "
              "and the loader (tick rounding, bucket order and delta encoding, tempo integration, pairing, ids, controls, "
              "track merging incl. the composed notes / programs theorems for merged files, track renumbering by "
              "sanitize_track_numbers (all lists) and its composition with the loader, silence removal of load_performance, "
              "the second generation file -> loader -> exporter incl. when stored ticks coincide with the new ticks; round 5: "
              "histories of uses of one MidiFile object / of saves of one performance in every argument form - the argument is "
              "unchanged and every use equals the use of a fresh copy, composed with the round-trip theorems; the default "
              "programs exactly (count, (track, channel), tick) and the programs of the whole file as an exact multiset; the "
              "exporter's tick in binary64: within 1/2 + 5*2^-53*image of the exact image, monotone (so the notes theorems hold "
              "for the conversion the code uses); keyword defaults / forced keywords / note_hash regenerated from the live "
              "source by harness/translate_c06.py); round 6: the ids follow (note_on, midi_pitch, note_off, channel) of the "
              "loaded seconds for EVERY tempo map incl. a tempo of 0 with no hypothesis on the conversion, the loader "
              "coincides with the tick-ordered model exactly when the seconds are strictly increasing - proved from the "
              "file for positive tempi -, a one-shot iterable of parts is saved as the list of its parts (first save) and "
              "as the empty performance afterwards, the loader's and the saver's sort keys and the position of the "
              "loader's sort after adjust_time are regenerated from the live source; the model "
              "is tied to the code by a differential run: message list of every written file (ticks compared exactly with the "
              "binary64 model), every loaded field (seconds exactly with the binary64 model of adjust_time), the "
              "dispatcher's result, the part after first_note_at_zero and every step of every history are compared with the "
              "model, and an independent "
              "Fraction/float-based oracle states the property on the implementation's outputs.")

PPQS = [96, 480, 960, 1]
MPQS = [500000, 857142, 250001]
MAJ = ["Cb", "Gb", "Db", "Ab", "Eb", "Bb", "F", "C", "G", "D", "A", "E", "B", "F#", "C#"]
MIN = ["Ab", "Eb", "Bb", "F", "C", "G", "D", "A", "E", "B", "F#", "C#", "G#", "D#", "A#"]
KEYNAME = {}
for _i, _n in enumerate(MAJ):
    KEYNAME[_n] = (_i - 7, 0)
for _i, _n in enumerate(MIN):
    KEYNAME[_n + "m"] = (_i - 7, 1)

# other meta messages (index = opaque id in the model); index 0 is end_of_track
META = [
    ("end_of_track", {}),
    ("track_name", {"name": "Piano"}),
    ("text", {"text": "hello"}),
    ("marker", {"text": "A"}),
    ("lyrics", {"text": "la"}),
    ("copyright", {"text": "c"}),
    ("instrument_name", {"name": "x"}),
    ("cue_marker", {"text": "q"}),
    ("midi_port", {"port": 1}),
    ("channel_prefix", {"channel": 3}),
    ("sequencer_specific", {"data": (1, 2, 3)}),
    ("sequence_number", {"number": 7}),
]
OTHER = [
    ("pitchwheel", {"channel": 0, "pitch": 100}),
    ("aftertouch", {"channel": 1, "value": 5}),
    ("polytouch", {"channel": 2, "note": 60, "value": 9}),
    ("sysex", {"data": (1, 2, 3)}),
]
# round 2: more channel messages the loader has to ignore (appended: old case descriptions index the first four)
for _ch in (0, 5, 9, 15):
    for _pw in (-8192, 0, 8191):
        OTHER.append(("pitchwheel", {"channel": _ch, "pitch": _pw}))
    OTHER.append(("aftertouch", {"channel": _ch, "value": 127}))
    for _nt in (0, 60, 64, 127):
        OTHER.append(("polytouch", {"channel": _ch, "note": _nt, "value": 100}))
OTHER.append(("sysex", {"data": ()}))
OTHER.append(("sysex", {"data": tuple(range(0, 120, 7))}))


# ------------------------------------------------------------------ message <-> code
def msg_code(msg):
    """(kind, a, b, c) of a mido message (the model's `Ev`)"""
    t = msg.type
    if t == "note_on":
        return (0, msg.channel, msg.note, msg.velocity)
    if t == "note_off":
        return (1, msg.channel, msg.note, msg.velocity)
    if t == "control_change":
        return (2, msg.channel, msg.control, msg.value)
    if t == "program_change":
        return (3, msg.channel, msg.program, 0)
    if t == "set_tempo":
        return (4, msg.tempo, 0, 0)
    if t == "time_signature":
        return (5, msg.numerator, msg.denominator, 0)
    if t == "key_signature":
        f, m = KEYNAME.get(str(msg.key), (99, 0))
        return (6, f, m, 0)
    if t == "end_of_track":
        return (7, 0, 0, 0)
    if msg.is_meta:
        return (8, meta_id(t, {k: v for k, v in msg.__dict__.items() if k not in ("type", "time")}), 0, 0)
    d = {k: v for k, v in msg.dict().items() if k not in ("type", "time")}
    for i, (ty, at) in enumerate(OTHER):
        if ty == t and all(_same(d.get(k), v) for k, v in at.items()):
            return (9, i, 0, 0)
    return (9, 999, 0, 0)


def _same(a, b):
    if isinstance(a, (tuple, list)) or isinstance(b, (tuple, list)):
        return tuple(a) == tuple(b)
    return a == b


def meta_id(ty, attrs):
    for i, (t2, at) in enumerate(META):
        if t2 == ty and set(at) <= set(attrs) and all(_same(attrs[k], v) for k, v in at.items()):
            return i
    return 999


def code_msg(code, time):
    import mido

    k, a, b, c = code
    if k == 0:
        return mido.Message("note_on", channel=a, note=b, velocity=c, time=time)
    if k == 1:
        return mido.Message("note_off", channel=a, note=b, velocity=c, time=time)
    if k == 2:
        return mido.Message("control_change", channel=a, control=b, value=c, time=time)
    if k == 3:
        return mido.Message("program_change", channel=a, program=b, time=time)
    if k == 4:
        return mido.MetaMessage("set_tempo", tempo=a, time=time)
    if k == 5:
        return mido.MetaMessage("time_signature", numerator=a, denominator=b, time=time)
    if k == 6:
        return mido.MetaMessage("key_signature", key=(MIN[a + 7] + "m") if b else MAJ[a + 7], time=time)
    if k == 7:
        return mido.MetaMessage("end_of_track", time=time)
    if k == 8:
        ty, at = META[a]
        return mido.MetaMessage(ty, time=time, **at)
    ty, at = OTHER[a]
    return mido.Message(ty, time=time, **at)


def file_tracks(mf):
    """[[(delta, kind, a, b, c)]] of a mido file"""
    return [[(int(m.time),) + msg_code(m) for m in tr] for tr in mf.tracks]


def fmt_track(tr):
    return W.f_list(lambda m: W.f_tuple(*[W.f_int(x) for x in m]), tr)


def req_tracks(tracks):
    return W.lst(lambda tr: W.lst(lambda m: " ".join(W.i(x) for x in m), tr), tracks)


# ------------------------------------------------------------------ generators
def gen_time(rng, ppq, mpq, lo, span=20.0):
    """a binary64 time >= lo"""
    tps = 1e6 * ppq / mpq  # ticks per second
    m = rng.random()
    if m < 0.35:
        t = lo + rng.uniform(0, span)
    elif m < 0.6:
        k = math.ceil(lo * tps) + rng.randint(0, max(1, int(span * tps)))
        t = (k + 0.5) * mpq / (1e6 * ppq) + rng.choice([0, 0, 1e-9, -1e-9, 1e-12])
    elif m < 0.8:
        k = math.ceil(lo * tps) + rng.randint(0, max(1, int(span * tps)))
        t = k * mpq / (1e6 * ppq)
    elif m < 0.9:
        t = float(math.ceil(lo) + rng.randint(0, int(span)))
    else:
        t = lo + rng.choice([0.0, 1e-7, 1e-4, 0.25 / tps, 0.5 / tps, 1.0 / tps])
    return max(float(t), float(lo))


def gen_perf(rng, tier, ppq=None, mpq=None, kind=None):
    ppq = ppq or rng.choice(PPQS)
    mpq = mpq or rng.choice(MPQS)
    kind = kind or rng.choice(["Performance", "PerformedPart", "list", "list"])
    nparts = 1 if kind == "PerformedPart" else rng.choice([1, 2, 2, 3, 4])
    flavour = rng.choice(["plain", "plain", "overlap", "shared", "sparse", "cross", "cross"])
    # track numbers: dense blocks, or arbitrary (not for Performance, whose constructor renumbers anyway);
    # every (part, track) pair is a "slot" with its own pitches
    parts = []
    next_track = 0
    all_tracks = []
    nslots = 0
    for pi in range(nparts):
        ntr = 1 if nparts >= 3 else rng.choice([1, 1, 2])
        trs = []
        for _ in range(ntr):
            if kind != "Performance" and flavour == "sparse":
                next_track += rng.choice([0, 1, 3])
            trs.append(next_track)
            next_track += 1
        if flavour == "shared" and kind == "list" and pi > 0 and rng.random() < 0.7:
            trs = [rng.choice(all_tracks)]
        all_tracks += trs
        parts.append({"tracks": trs, "slots": list(range(nslots, nslots + len(trs)))})
        nslots += len(trs)
    if kind == "Performance" and rng.random() < 0.5:
        # numbers the constructor has to change: every part counts from 0
        for p in parts:
            p["tracks"] = list(range(len(p["tracks"])))
    span = rng.choice([2.0, 20.0, 200.0])
    any_pedal = flavour != "overlap"
    # round 2: the SAME channel and pitch on different parts / track numbers (they meet only in a merged track):
    # one timeline, every note on a random (part, track); consecutive notes often touch - in a merged file the
    # pairing is then right only if the earlier note is written first (lower track number / earlier part)
    cross = {}
    if flavour == "cross":
        for _ in range(rng.choice([1, 1, 2])):
            pitch, ch = rng.randint(0, 127), rng.randint(0, 15)
            cur = gen_time(rng, ppq, mpq, 0.0, span)
            for _k in range(rng.choice([2, 3, 4, 6])):
                pi = rng.randrange(nparts)
                tr = rng.choice(parts[pi]["tracks"])
                on = cur
                off = on if rng.random() < 0.1 else gen_time(rng, ppq, mpq, on, span / 4)
                cross.setdefault(pi, []).append([pitch, rng.randint(1, 127), ch, tr, on, off])
                cur = off if rng.random() < 0.5 else gen_time(rng, ppq, mpq, off, span / 4)
                if off == on and cur <= off:
                    cur = off + rng.choice([1e-7, 1e-3, 0.5])
    for pi, p in enumerate(parts):
        trs = p["tracks"]
        if flavour == "shared":
            chans = [c for c in range(16) if c % nparts == pi]
        else:
            chans = list(range(16))
        notes = []
        npitch = rng.choice([0, 1, 2, 3, 5])
        used = set()
        for _ in range(npitch):
            li = rng.randrange(len(trs))
            tr, slot = trs[li], p["slots"][li]
            # pitches of different slots are disjoint and a pitch has one timeline, so that notes of one pitch
            # never overlap in a part, merged or not (building a part with such notes and a pedal fails: C14)
            base = rng.randint(0, (127 - slot) // nslots)
            pitch = base * nslots + slot
            if pitch in used:
                continue
            used.add(pitch)
            ch = rng.choice(chans)
            cur = gen_time(rng, ppq, mpq, 0.0, span)
            for _k in range(rng.choice([1, 1, 2, 3, 4])):
                on = cur
                off = on if rng.random() < 0.12 else gen_time(rng, ppq, mpq, on, span / 4)
                if rng.random() < 0.2:
                    ch = rng.choice(chans)
                notes.append([pitch, rng.randint(1, 127), ch, tr, on, off])
                if flavour == "overlap" and rng.random() < 0.5:
                    ch2 = rng.choice([c for c in chans if c != ch])
                    on2 = gen_time(rng, ppq, mpq, on, span / 8)
                    notes.append([pitch, rng.randint(1, 127), ch2, tr, on2, gen_time(rng, ppq, mpq, on2, span / 4)])
                cur = off if rng.random() < 0.4 else gen_time(rng, ppq, mpq, off, span / 4)
                if off == on and cur <= off and any_pedal:
                    # a zero-length note and another note of its pitch starting at the same moment make
                    # PerformedPart(...) fail when there is a pedal (C14): keep them apart unless pedal-free
                    cur = off + rng.choice([1e-7, 1e-3, 0.5])
        for n in cross.get(pi, []):
            if n[0] not in used:
                notes.append(n)
        order = rng.random()
        if order < 0.4:
            rng.shuffle(notes)
        elif order < 0.5:
            notes.reverse()
        controls = []
        for _ in range(rng.choice([0, 0, 1, 3, 6])):
            num = rng.choice([64, 64, 67, 66, 1, 7, 0, 127, rng.randint(0, 127)])
            if not any_pedal and num == 64:
                num = 65
            controls.append([gen_time(rng, ppq, mpq, 0.0, span), num, rng.choice([0, 127, 63, 64, 65, rng.randint(0, 127)]),
                             rng.choice(chans), rng.choice(trs)])
        programs = []
        for _ in range(rng.choice([0, 0, 0, 1, 2])):
            programs.append([gen_time(rng, ppq, mpq, 0.0, span), rng.choice([0, 0, 1, 40, 127]), rng.choice(chans), rng.choice(trs)])
        carrying = sorted(set([n[3] for n in notes] + [c[4] for c in controls] + [g[3] for g in programs]))
        keysigs, timesigs, metas = [], [], []
        if carrying:
            for _ in range(rng.choice([0, 0, 1, 2])):
                keysigs.append([gen_time(rng, ppq, mpq, 0.0, span), rng.randint(-7, 7), rng.randint(0, 1), rng.choice(carrying)])
            for _ in range(rng.choice([0, 0, 1, 2])):
                timesigs.append([gen_time(rng, ppq, mpq, 0.0, span), rng.randint(1, 24), rng.choice([1, 2, 4, 8, 16, 32]), rng.choice(carrying)])
            for _ in range(rng.choice([0, 0, 1, 3])):
                metas.append([gen_time(rng, ppq, mpq, 0.0, span * 1.5), rng.randint(0, len(META) - 1), rng.choice(carrying)])
        if carrying and rng.random() < 0.08:
            # round 3: an entry on a track number that no note, control or program of ITS part carries (a conductor
            # track of the user's making, or the track of another part): `Performance(...)` leaves its number alone
            # (fixes/C06-7 renumbers only what shares a track with the part's notes, controls or programs)
            tr = rng.choice([0, max(carrying) + 1, max(carrying) + 3, rng.choice(all_tracks)])
            which = rng.random()
            if which < 0.4:
                keysigs.append([gen_time(rng, ppq, mpq, 0.0, span), rng.randint(-7, 7), rng.randint(0, 1), tr])
            elif which < 0.7:
                timesigs.append([gen_time(rng, ppq, mpq, 0.0, span), rng.randint(1, 24), rng.choice([2, 4, 8]), tr])
            else:
                metas.append([gen_time(rng, ppq, mpq, 0.0, span), rng.randint(1, len(META) - 1), tr])
        p.update(notes=notes, controls=controls, programs=programs, keysigs=keysigs, timesigs=timesigs, metas=metas)
        del p["tracks"], p["slots"]
    pm = 0.6 if flavour == "cross" else 0.3
    d = {"k": "perf", "kind": kind, "ppq": ppq, "mpq": mpq, "msave": rng.random() < pm, "mload": rng.random() < pm,
         "bpm": rng.choice([120, 120, 120, 60, 90, 100]), "parts": parts, "lp": rng.random() < 0.3}
    if rng.random() < 0.35:
        decorate_ticks(rng, d)
    return d


def decorate_ticks(rng, d):
    """round 3: the dictionaries of a hand-made performance carry the tick fields an importer leaves behind
    (`note_on_tick`, `note_off_tick`, `time_tick`) and the parts their own `ppq` / `mpq` attributes - mostly equal to
    the ppq/mpq of the file to be written - while the ticks are those of ANOTHER tempo, another resolution, the
    moment before an edit of the seconds, or arbitrary.  The property speaks about the times in seconds."""
    ppq, mpq = d["ppq"], d["mpq"]
    mode = rng.choice(["grid", "tempo", "tempo", "ppq", "shifted", "shifted", "random"])
    m1 = rng.choice([m for m in (400000, 600000, 1000000, 250000, 500000) if m != mpq])
    q1 = rng.choice([q for q in (96, 480, 960, 1, 24) if q != ppq])
    off = rng.choice([1, 7, 480, rng.randint(1, 2000)])

    def tick(t):
        if mode == "grid":
            return int(round(1e6 * ppq * t / mpq))  # in step with the seconds
        if mode == "tempo":
            return int(round(1e6 * ppq * t / m1))  # the ticks of a file in another tempo
        if mode == "ppq":
            return int(round(1e6 * q1 * t / mpq))
        if mode == "shifted":
            return int(round(1e6 * ppq * t / mpq)) + off  # the seconds were moved after loading
        return rng.randint(0, 5000)

    for p in d["parts"]:
        if rng.random() < 0.15:
            continue  # a part without tick fields next to parts with them
        p["attr"] = [ppq, mpq] if rng.random() < 0.65 else [rng.choice([96, 480, 960]), rng.choice([500000, 857142, 400000])]
        for n in p["notes"]:
            a = tick(n[4])
            b = tick(n[5])
            n += [a, max(a, b)]
        for key in ("controls", "programs", "keysigs", "timesigs", "metas"):
            for c in p[key]:
                if rng.random() < 0.9:
                    c.append(tick(c[0]))


def gen_raw(rng, tier, zero=False):
    """`zero` (round 6): some of the set_tempo events carry the tempo 0 (the seconds stand still until the next
    tempo change, wherever it is); such files go through load_performance_midi only"""
    ppq = rng.choice([96, 480, 960, 1, 24, rng.randint(1, 2000)])
    ntr = rng.choice([1, 2, 2, 3, 4])
    flavour = rng.choice(["clean", "clean", "messy", "overlap"])
    horizon = rng.choice([50, 2000, 20000])
    tracks = []
    tempi = [500000, 250000, 1000000, 857142, 250001, 1, 16777215, 600000, 600000]
    if zero:
        tempi = [0, 0, 0, 500000, 250000, 857142, 1, 600000]
    pedal_ok = flavour != "overlap"
    cluster_tick = rng.choice([None, None, 0, rng.randint(0, horizon)])
    # round 3: the usual layout of a type 1 file - a first track with the tempo map, signatures and texts only,
    # the notes (and their own track names, signatures, ...) in the later tracks
    conductor = ntr > 1 and rng.random() < 0.3
    for ti in range(ntr):
        ev = []  # (tick, seq, code)
        seq = 0

        def put(tick, code):
            nonlocal seq
            ev.append((tick, seq, code))
            seq += 1

        for _ in range(rng.choice([0, 0, 1, 2, 4]) if ti else rng.choice([0, 1, 1, 3])):
            put(rng.choice([0, 0, rng.randint(0, horizon), rng.choice([100, 500, 1000])]), (4, rng.choice(tempi), 0, 0))
        if cluster_tick is not None and rng.random() < 0.7:
            # several set_tempo on ONE tick, in this track and (same tick) in the others
            for _ in range(rng.choice([1, 2, 3, 4])):
                put(cluster_tick, (4, rng.choice(tempi), 0, 0))
        used = set()
        for _ in range(0 if (conductor and ti == 0) else rng.choice([0, 1, 2, 3, 5])):
            # pitches of different tracks are disjoint and a pitch has one timeline (see gen_perf)
            pitch = rng.randint(0, (127 - ti) // ntr) * ntr + ti
            if pitch in used:
                continue
            used.add(pitch)
            ch = rng.randint(0, 15)
            cur = rng.randint(0, horizon)
            for _k in range(rng.choice([1, 2, 3, 4])):
                on = cur
                off = on + rng.choice([0, 0, 1, rng.randint(0, horizon // 4 + 1)])
                style = rng.random() if flavour == "messy" else 1.0
                vel = rng.randint(1, 127)
                offcode = (1, ch, pitch, rng.choice([0, 64, rng.randint(0, 127)])) if rng.random() < 0.6 else (0, ch, pitch, 0)
                if style < 0.15:
                    put(on, (0, ch, pitch, vel))
                    put(on + (off - on) // 2, (0, ch, pitch, rng.randint(1, 127)))  # repeated note-on
                    put(off, offcode)
                elif style < 0.3:
                    put(off, offcode)  # unmatched release
                elif style < 0.4:
                    put(on, (0, ch, pitch, vel))  # never released (or released by the next release)
                else:
                    put(on, (0, ch, pitch, vel))
                    put(off, offcode)
                    if flavour == "overlap" and rng.random() < 0.5:
                        ch2 = (ch + rng.randint(1, 15)) % 16
                        on2 = on + rng.randint(0, max(1, off - on))
                        put(on2, (0, ch2, pitch, rng.randint(1, 127)))
                        put(on2 + rng.randint(0, horizon // 4 + 1), (1, ch2, pitch, 0))
                if flavour != "messy" and rng.random() < 0.2:
                    ch = rng.randint(0, 15)
                cur = off + rng.choice([0, 0, 1, rng.randint(0, horizon // 4 + 1)])
                if off == on and cur == off and pedal_ok:
                    cur = off + 1  # see gen_perf
        for _ in range(0 if (conductor and ti == 0) else rng.choice([0, 0, 2, 5])):
            num = rng.choice([64, 67, 1, rng.randint(0, 127)])
            if not pedal_ok and num == 64:
                num = 65
            put(rng.randint(0, horizon), (2, rng.randint(0, 15), num, rng.randint(0, 127)))
        for _ in range(0 if (conductor and ti == 0) else rng.choice([0, 0, 1, 2])):
            put(rng.choice([0, rng.randint(0, horizon)]), (3, rng.randint(0, 15), rng.randint(0, 127), 0))
        for _ in range(rng.choice([0, 0, 1, 2])):
            put(rng.randint(0, horizon), (5, rng.randint(1, 24), rng.choice([1, 2, 4, 8, 16]), 0))
        for _ in range(rng.choice([0, 0, 1])):
            put(rng.randint(0, horizon), (6, rng.randint(-7, 7), rng.randint(0, 1), 0))
        for _ in range(rng.choice([0, 0, 1, 2])):
            put(rng.randint(0, horizon), (8, rng.randint(1, len(META) - 1), 0, 0))
        for _ in range(rng.choice([0, 0, 0, 1, 2])):
            put(rng.randint(0, horizon), (9, rng.randint(0, len(OTHER) - 1), 0, 0))
        ev.sort(key=lambda x: (x[0], x[1]))
        tr, last = [], 0
        for tick, _, code in ev:
            tr.append([tick - last] + list(code))
            last = tick
        if rng.random() < 0.3:
            tr.append([rng.choice([0, 10, 1000]), 7, 0, 0, 0])
        tracks.append(tr)
    return {"k": "raw", "ppq": ppq, "merge": rng.random() < 0.35, "bpm": rng.choice([120, 120, 120, 60, 90, 100]), "tracks": tracks,
            "lp": not zero}


def gen_adj(rng, tier):
    """adjust_time alone, on tempo lists in order of tick (what the loader passes; the behaviour of the function
    on an unsorted list is not part of the property)"""
    n = rng.choice([1, 1, 2, 3, 5, 8])
    t = rng.choice([0, 0, 0, 7])
    tc = [[t, rng.choice([500000, 600000, 1])]]
    for _ in range(n - 1):
        t += rng.choice([0, 0, 1, 100, rng.randint(0, 5000)])
        tc.append([t, rng.choice([500000, 250000, 1000000, 857142, 1, 16777215])])
    return {"k": "adj", "ppq": rng.choice([1, 96, 480, 960, rng.randint(1, 2000)]), "tc": tc,
            "ticks": [rng.choice([0, 1, 100, 5000, rng.randint(0, 6000), rng.randint(0, 10**6)]) for _ in range(4)] + [x[0] for x in tc]}


def _raw_seconds_bound(src):
    """an upper bound of the seconds of any event of a raw file under any default tempo the generator uses"""
    ticks = max([sum(m[0] for m in tr) for tr in src["tracks"]] + [0])
    mx = max([m[2] for tr in src["tracks"] for m in tr if m[1] == 4] + [1000000])
    return ticks * mx / (1e6 * src["ppq"])


def gen_regen(rng, tier):
    """round 3: second (and third) generation round trips.  A performance that was LOADED from a MIDI file - a raw
    file with any tempo map, or a file the exporter wrote with any ppq/mpq - is saved again (often with the ppq of its
    source and the default tempo, i.e. the very values its parts carry as attributes) with or without an edit of the
    seconds in between (first_note_at_zero, a shift, a change of tempo), and loaded.  Such a performance carries the
    tick positions of the OLD file next to its seconds."""
    if rng.random() < 0.55:
        src = gen_raw(rng, tier)
        for _ in range(30):
            if _raw_seconds_bound(src) <= 8000:
                break
            src = gen_raw(rng, tier)
        else:
            src = gen_perf(rng, tier)
    else:
        src = gen_perf(rng, tier)
    src["lp"] = False
    prev_ppq = src["ppq"]
    cycles = []
    for _ in range(rng.choice([1, 1, 1, 2])):
        bpm = rng.choice([120, 120, 120, 60, 90, 100])
        c = {"bpm": bpm, "merge": rng.random() < 0.25,
             "via": rng.choice(["midi", "midi", "midi", "lp", "fnz", "fnz"]),
             "edit": rng.choice([["none"], ["none"], ["none"], ["shift", rng.choice([0.5, 1.0, 0.1234, 1.0 / 3])],
                                 ["scale", rng.choice([0.5, 2.0, 1.1])]]),
             "kind": rng.choice(["Performance", "Performance", "list", "PerformedPart"]),
             "ppq": prev_ppq if rng.random() < 0.6 else rng.choice(PPQS),
             "mpq": default_mpq_of(bpm) if rng.random() < 0.6 else rng.choice(MPQS),
             "msave": rng.random() < 0.25}
        prev_ppq = c["ppq"]
        cycles.append(c)
    return {"k": "regen", "src": src, "cycles": cycles,
            "final": {"bpm": rng.choice([120, 120, 120, 60, 90, 100]), "merge": rng.random() < 0.25}}



# ------------------------------------------------------------------ round 5: argument forms, used several times
LFORMS = ["obj", "obj", "obj", "obj", "str", "Path"]
SFORMS = ["buf", "buf", "str", "Path", "none", "none", "fileobj"]


def gen_lhist(rng, tier):
    """ONE file, given to the loaders several times in one history in every form they accept - the `mido.MidiFile`
    OBJECT itself (one and the same object for the whole history), the path as str, the path as pathlib.Path - with
    different options (merge_tracks, default_bpm, first_note_at_zero), through load_performance_midi,
    load_performance and midi_to_notearray, interleaved with saving the object and reading its messages directly.
    Every use must return what the same call returns on a FRESH copy of the file, and must leave the object as it
    was.  The object is one mido built from messages, one parsed from a file, or the one
    `save_performance_midi(..., out=None)` returned (no end_of_track in its tracks yet)."""
    if rng.random() < 0.6:
        src = gen_raw(rng, tier)
        if len(src["tracks"]) == 1 and rng.random() < 0.7:
            src = gen_raw(rng, tier)
        how = rng.choice(["built", "parsed", "parsed"])
    else:
        src = gen_perf(rng, tier)
        how = rng.choice(["returned", "returned", "parsed"])
    src["lp"] = False
    ops = []
    for _ in range(rng.choice([2, 3, 3, 4, 5, 6])):
        r = rng.random()
        form = rng.choice(LFORMS)
        bpm = rng.choice([120, 120, 120, 60, 90, 100])
        merge = rng.random() < 0.5
        if r < 0.08:
            ops.append([rng.choice(["Ld", "Ld", "Pd"]), form])  # every option left to its default
        elif r < 0.5:
            ops.append(["L", form, bpm, merge])
        elif r < 0.72:
            ops.append(["P", form, bpm, merge, rng.random() < 0.5])
        elif r < 0.82:
            ops.append(["N", form])
        elif r < 0.92:
            ops.append(["S"])
        else:
            ops.append(["I"])
    if rng.random() < 0.5:
        # the order that matters most: something merged first, the tracks wanted afterwards
        ops.append(["L", "obj", rng.choice([120, 60]), False])
    return {"k": "lhist", "src": src, "how": how, "ops": ops}


def gen_shist(rng, tier):
    """ONE performance (Performance / PerformedPart / list), saved several times in one history with different
    options (ppq, mpq, merge_tracks_save) and in every form of `out` (file-like object, path as str / pathlib.Path,
    an open file, None = the MidiFile is returned).  Every save must write what saving a fresh copy of the
    performance with these options writes, each written file must hold the ORIGINAL performance on its own tick
    grid, and the performance must be left as it was.  A few histories hand over something that is no
    performance (ValueError is the documented answer)."""
    src = gen_perf(rng, tier)
    src["lp"] = False
    ops = []
    for _ in range(rng.choice([2, 2, 3, 4])):
        if rng.random() < 0.12:
            ops.append([rng.choice(SFORMS), None, None, None])  # every option left to its default
        else:
            ops.append([rng.choice(SFORMS), rng.choice(PPQS + [480]), rng.choice(MPQS + [500000]), rng.random() < 0.4])
    bad = None
    if rng.random() < 0.06:
        bad = rng.choice(["mixed", "other"])
    return {"k": "shist", "src": src, "ops": ops, "bad": bad}


ITERFORMS = ["gen", "gen", "iter", "map", "values"]


def gen_iter(rng, tier):
    """round 6: the list of performed parts handed to the saver as a ONE-SHOT iterable (generator expression,
    `iter(list)`, `map`) or as a re-iterable view that is no list (dict values), saved 1-3 times with the same
    object.  The first save must write what saving the list writes; what a later save of an exhausted iterator
    writes (the empty performance) is compared with the model only.  A few hold an element that is no part."""
    src = gen_perf(rng, tier, kind="list")
    src["lp"] = False
    ops = []
    for _ in range(rng.choice([1, 2, 2, 3])):
        if rng.random() < 0.15:
            ops.append([rng.choice(["buf", "none"]), None, None, None])
        else:
            ops.append([rng.choice(["buf", "none"]), rng.choice(PPQS + [480]), rng.choice(MPQS + [500000]), rng.random() < 0.4])
    return {"k": "iter", "src": src, "form": rng.choice(ITERFORMS), "ops": ops, "bad": rng.random() < 0.08}


def cases(rng, tier):
    n = {"quick": 1200, "thorough": 15000, "search": 4000}.get(tier, 1200)
    # every configuration of the finite part of the quantifier on a few performances
    for ppq in PPQS:
        for mpq in MPQS:
            for ms in (False, True):
                for ml in (False, True):
                    for kind in ("Performance", "PerformedPart", "list"):
                        d = gen_perf(rng, tier, ppq, mpq, kind)
                        d.update(msave=ms, mload=ml)
                        yield d
    for i in range(n):
        r = i % 10
        if r < 5:
            yield gen_perf(rng, tier)
        elif r < 9:
            yield gen_raw(rng, tier)
        else:
            yield gen_adj(rng, tier)
        if i % 3 == 0:
            yield gen_regen(rng, tier)
        if i % 4 == 1:
            yield gen_lhist(rng, tier)
        if i % 8 == 2:
            yield gen_shist(rng, tier)
        if i % 8 == 4:
            yield gen_raw(rng, tier, zero=True)
        if i % 12 == 7:
            yield gen_iter(rng, tier)


# ------------------------------------------------------------------ reference arithmetic (oracle)
def exact_tick_image(t, ppq, mpq):
    return Fraction(10**6 * ppq) * Fraction(*float(t).as_integer_ratio()) / mpq


def round_half_even(x):
    f = math.floor(x)
    d = x - f
    if d < Fraction(1, 2):
        return f
    if d > Fraction(1, 2):
        return f + 1
    return f if f % 2 == 0 else f + 1


def is_boundary(x):
    return abs((x - math.floor(x)) - Fraction(1, 2)) < Fraction(1, 10**6)


def admissible(t, ppq, mpq):
    """set of ticks a correct exporter may write for the time t"""
    x = exact_tick_image(t, ppq, mpq)
    if is_boundary(x):
        return {math.floor(x), math.floor(x) + 1}
    return {round_half_even(x)}


def ref_seconds(tick, tempo_events, default_mpq, ppq):
    """reference integrator: tempo events (tick, mpq) of the whole file sorted by tick (stable)"""
    evs = sorted(tempo_events, key=lambda e: e[0])
    total = Fraction(0)
    last_tick, last_mpq = 0, default_mpq
    for ct, m in evs:
        if ct > tick:
            break
        total += Fraction((ct - last_tick) * last_mpq, 10**6 * ppq)
        last_tick, last_mpq = ct, m
    return total + Fraction((tick - last_tick) * last_mpq, 10**6 * ppq)


def close(a, b, tol=1e-9):
    return abs(float(a) - float(b)) <= tol * max(1.0, abs(float(b)))


def default_mpq_of(bpm):
    return int(60 * (10**6 / bpm))


# ------------------------------------------------------------------ evaluation
def call(f, *a, **kw):
    try:
        return f(*a, **kw), None
    except BaseException as e:
        if isinstance(e, (KeyboardInterrupt, SystemExit)):
            raise
        return None, e


def loaded_int_text(perf):
    out = []
    for pp in perf.performedparts:
        notes = []
        for n in pp.notes:
            nid = str(n["id"])
            notes.append(W.f_tuple(nid[1:] if nid.startswith("n") and nid[1:].isdigit() else "x" + nid,
                                   W.f_int(n["midi_pitch"]), W.f_int(n["note_on_tick"]), W.f_int(n["note_off_tick"]),
                                   W.f_int(n["velocity"]), W.f_int(n["channel"]), W.f_int(n["track"])))
        ctl = [W.f_tuple(W.f_int(c["time_tick"]), W.f_int(c["number"]), W.f_int(c["value"]), W.f_int(c["channel"]), W.f_int(c["track"]))
               for c in pp.controls]
        prg = [W.f_tuple(W.f_int(c["time_tick"]), W.f_int(c["program"]), W.f_int(c["channel"]), W.f_int(c["track"])) for c in pp.programs]
        tsg = [W.f_tuple(W.f_int(c["time_tick"]), W.f_int(c["beats"]), W.f_int(c["beat_type"]), W.f_int(c["track"])) for c in pp.time_signatures]
        ksg = [W.f_tuple(W.f_int(c["time_tick"]), W.f_int(c["fifths"]), "1" if c["mode"] == "minor" else "0", W.f_int(c["track"]))
               for c in pp.key_signatures]
        mts = []
        for c in pp.meta_other:
            if c.get("type") == "end_of_track":
                mid = "-"
            else:
                mid = W.f_int(meta_id(c.get("type"), {k: v for k, v in c.items() if k not in ("time", "time_tick", "track", "type")}))
            mts.append(W.f_tuple(W.f_int(c["time_tick"]), mid, W.f_int(c["track"])))
        out.append(W.f_tuple(W.f_int(pp.track), "[" + ",".join(notes) + "]", "[" + ",".join(ctl) + "]", "[" + ",".join(prg) + "]",
                             "[" + ",".join(tsg) + "]", "[" + ",".join(ksg) + "]", "[" + ",".join(mts) + "]"))
    return "[" + ",".join(out) + "]"


def loaded_sec(perf):
    out = []
    for pp in perf.performedparts:
        out.append([[[float(n["note_on"]), float(n["note_off"])] for n in pp.notes],
                    [float(c["time"]) for c in pp.controls], [float(c["time"]) for c in pp.programs],
                    [float(c["time"]) for c in pp.time_signatures], [float(c["time"]) for c in pp.key_signatures],
                    [float(c["time"]) for c in pp.meta_other]])
    return out


def check_loaded_against_file(ev, perf, tracks, ppq, dmpq, merge, tag):
    """oracle for the loading half, from the FILE's messages only: tempo integration, pairing, ids, other lists.
    `tracks` = [[(delta, kind, a, b, c)]] as mido reads them"""
    # absolute ticks
    abst = []
    for tr in tracks:
        t, l = 0, []
        for m in tr:
            t += m[0]
            l.append((t,) + tuple(m[1:]))
        abst.append(l)
    tempo_events = [(m[0], m[2]) for l in abst for m in l if m[1] == 4]  # track order; the sort in ref_seconds is stable
    sec = lambda k: ref_seconds(k, tempo_events, dmpq, ppq)
    if merge:
        flat = [(m, ti, j) for ti, l in enumerate(abst) for j, m in enumerate(l)]
        flat.sort(key=lambda x: x[0][0])
        seen = [[x[0] for x in flat]]
    else:
        seen = abst
    kept = [l for l in seen if any(m[1] in (2, 3) for m in l) or _ref_has_note(l)]
    kept_idx = [i for i, l in enumerate(seen) if any(m[1] in (2, 3) for m in l) or _ref_has_note(l)]
    pps = perf.performedparts
    if len(pps) != len(kept):
        ev.oracle.append("%s parts: %d performed parts loaded, the file has %d tracks with notes, controls or programs" % (tag, len(pps), len(kept)))
        return
    for j, (pp, l, fi) in enumerate(zip(pps, kept, kept_idx)):
        # every time is the integral of the file's tempo map up to the event's tick
        items = [(n["note_on"], n["note_on_tick"], "note_on") for n in pp.notes] + [(n["note_off"], n["note_off_tick"], "note_off") for n in pp.notes]
        items += [(c["time"], c["time_tick"], "control") for c in pp.controls] + [(c["time"], c["time_tick"], "program") for c in pp.programs]
        items += [(c["time"], c["time_tick"], "time_signature") for c in pp.time_signatures]
        items += [(c["time"], c["time_tick"], "key_signature") for c in pp.key_signatures] + [(c["time"], c["time_tick"], "meta") for c in pp.meta_other]
        for t, k, what in items:
            if not close(t, sec(k)):
                ev.oracle.append("%s tempo: %s at tick %d loaded at %r s, integrating the file's tempo changes %s (default %d, ppq %d) gives %r s"
                                 % (tag, what, k, float(t), sorted(tempo_events)[:6], dmpq, ppq, float(sec(k))))
                break
        # controls / programs / signatures / meta: what the track holds, in order
        exp_ctl = [(m[0], m[3], m[4], m[2], j) for m in l if m[1] == 2]
        got_ctl = [(c["time_tick"], c["number"], c["value"], c["channel"], c["track"]) for c in pp.controls]
        if sorted(exp_ctl) != sorted(got_ctl):
            ev.oracle.append("%s controls: track %d holds %r, loaded %r" % (tag, fi, sorted(exp_ctl)[:8], sorted(got_ctl)[:8]))
        exp_prg = [(m[0], m[3], m[2], j) for m in l if m[1] == 3]
        got_prg = [(c["time_tick"], c["program"], c["channel"], c["track"]) for c in pp.programs]
        if sorted(exp_prg) != sorted(got_prg):
            ev.oracle.append("%s programs: track %d holds %r, loaded %r" % (tag, fi, sorted(exp_prg)[:8], sorted(got_prg)[:8]))
        exp_ts = sorted((m[0], m[2], m[3]) for m in l if m[1] == 5)
        got_ts = sorted((c["time_tick"], c["beats"], c["beat_type"]) for c in pp.time_signatures)
        if exp_ts != got_ts:
            ev.oracle.append("%s time signatures: track %d holds %r, loaded %r" % (tag, fi, exp_ts[:8], got_ts[:8]))
        exp_ks = sorted((m[0], m[2], "minor" if m[3] else "major") for m in l if m[1] == 6)
        got_ks = sorted((c["time_tick"], c["fifths"], c["mode"]) for c in pp.key_signatures)
        if exp_ks != got_ks:
            ev.oracle.append("%s key signatures: track %d holds %r, loaded %r" % (tag, fi, exp_ks[:8], got_ks[:8]))
        exp_mt = sorted((m[0], m[2]) for m in l if m[1] == 8)
        got_mt = sorted((c["time_tick"], meta_id(c.get("type"), c)) for c in pp.meta_other if c.get("type") != "end_of_track")
        if exp_mt != got_mt:
            ev.oracle.append("%s meta: track %d holds %r, loaded %r" % (tag, fi, exp_mt[:8], got_mt[:8]))
        # pairing, when the notes of one channel and pitch strictly alternate on/off in this track
        ref = _ref_pairs(l)
        got = sorted((n["midi_pitch"], n["channel"], n["note_on_tick"], n["note_off_tick"], n["velocity"], n["track"]) for n in pp.notes)
        if ref is not None:
            exp = sorted(r + (j,) for r in ref)
            if exp != got:
                ev.oracle.append("%s pairing: track %d encodes the notes (pitch,channel,on,off,velocity,track) %r, loaded %r" % (tag, fi, exp[:8], got[:8]))
        # ids: n<rank> in the order of (note_on, pitch, note_off, channel, track)
        # (seconds are a strictly increasing function of ticks for positive tempi: the order by ticks is the
        # order by seconds, and is free of binary64 ties)
        # round 6: that holds for POSITIVE tempi only; after a set_tempo of 0 the seconds stand still and notes of
        # different ticks tie - the clause on the ticks is judged when the default and every tempo of the file are
        # positive, and for every file the ids have to follow the key as the property states it, on the loaded values
        keys = [(n["note_on_tick"], n["midi_pitch"], n["note_off_tick"], n["channel"], n["track"]) for n in pp.notes]
        skeys = [(float(n["note_on"]), n["midi_pitch"], float(n["note_off"]), n["channel"], n["track"]) for n in pp.notes]
        positive = dmpq > 0 and all(m > 0 for _, m in tempo_events)
        ids = [n["id"] for n in pp.notes]
        byid = sorted(range(len(ids)), key=lambda i: int(ids[i][1:]) if str(ids[i]).startswith("n") and str(ids[i])[1:].isdigit() else -1)
        if sorted(ids) != sorted("n%d" % i for i in range(len(ids))):
            ev.oracle.append("%s ids: part %d has ids %r" % (tag, j, ids[:10]))
        elif positive and any(keys[byid[i]] > keys[byid[i + 1]] for i in range(len(ids) - 1)):
            ev.oracle.append("%s ids: part %d, ids do not follow (onset, pitch, offset, channel, track): %r" % (tag, j, [(ids[i], keys[i]) for i in byid][:6]))
        elif any(skeys[byid[i]] > skeys[byid[i + 1]] for i in range(len(ids) - 1)):
            ev.oracle.append("%s ids: part %d, ids do not follow the loaded (note_on, midi_pitch, note_off, channel, track): %r"
                             % (tag, j, [(ids[i], skeys[i]) for i in byid][:6]))


def _ref_has_note(l):
    """does the reference pairing (any reading) produce at least one note: an on with velocity>0 followed by a
    release of the same channel and pitch"""
    open_ = set()
    for m in l:
        if m[1] == 0 and m[4] > 0:
            open_.add((m[2], m[3]))
        elif (m[1] == 1 or (m[1] == 0 and m[4] == 0)) and (m[2], m[3]) in open_:
            return True
    return False


def _ref_pairs(l):
    """notes (pitch, channel, on, off, velocity) encoded by a track whose note messages strictly alternate
    on/off per (channel, pitch) (a trailing unreleased note-on is allowed); None if they do not"""
    per = {}
    for m in l:
        if m[1] in (0, 1):
            per.setdefault((m[2], m[3]), []).append(m)
    res = []
    for (ch, p), ms in per.items():
        i = 0
        while i < len(ms):
            a = ms[i]
            if not (a[1] == 0 and a[4] > 0):
                return None
            if i + 1 == len(ms):
                break
            b = ms[i + 1]
            if b[1] == 0 and b[4] > 0:
                return None
            res.append((p, ch, a[0], b[0], a[4]))
            i += 2
    return res


# ------------------------------------------------------------------ load_performance (dispatch, silence removal)
def spart_int_text(perf):
    out = []
    for pp in perf.performedparts:
        ns = [W.f_tuple(W.f_int(n["midi_pitch"]), W.f_int(n["velocity"]), W.f_int(n["channel"]), W.f_int(n["track"])) for n in pp.notes]
        cs = [W.f_tuple(W.f_int(c["number"]), W.f_int(c["value"]), W.f_int(c["channel"]), W.f_int(c["track"])) for c in pp.controls]
        gs = [W.f_tuple(W.f_int(c["program"]), W.f_int(c["channel"]), W.f_int(c["track"])) for c in pp.programs]
        out.append(W.f_tuple("[" + ",".join(ns) + "]", "[" + ",".join(cs) + "]", "[" + ",".join(gs) + "]"))
    return "[" + ",".join(out) + "]"


def spart_sec(perf):
    return [[[[float(n["note_on"]), float(n["note_off"])] for n in pp.notes], [float(c["time"]) for c in pp.controls],
             [float(c["time"]) for c in pp.programs]] for pp in perf.performedparts]


def _snapshot(perf):
    """(notes, controls, programs) of every part as plain tuples"""
    out = []
    for pp in perf.performedparts:
        out.append(([(n["midi_pitch"], n["velocity"], n["channel"], n["track"], float(n["note_on"]), float(n["note_off"]), str(n["id"])) for n in pp.notes],
                    [(float(c["time"]), c["number"], int(c["value"]), c["channel"], c["track"]) for c in pp.controls],
                    [(float(c["time"]), c["program"], c["channel"], c["track"]) for c in pp.programs]))
    return out


def oracle_silence(ev, base, got):
    """`got` = load_performance(first_note_at_zero=True), `base` = load_performance_midi of the same file (snapshots).
    Reading: the FIRST performed part is moved so that its first note starts at 0 - every note time, program time
    and control time becomes max(t - s, 0), s = smallest note_on of that part; order, durations and all other fields
    are kept; controls before s are replaced by one control per (track, channel, number) at time 0 holding the
    value in force at s (the latest earlier value; the group's first value if there is none) unless the group has a
    control exactly at s; a part without notes and all other parts are returned as loaded."""
    if len(base) != len(got):
        ev.oracle.append("silence parts: %d parts, %d without first_note_at_zero" % (len(got), len(base)))
        return
    for j in range(1, len(base)):
        if base[j] != got[j]:
            ev.oracle.append("silence other parts: part %d changed by first_note_at_zero" % j)
            return
    if not base:
        return
    (n0, c0, g0), (n1, c1, g1) = base[0], got[0]
    if not n0:
        if base[0] != got[0]:
            ev.oracle.append("silence no notes: a part without notes changed by first_note_at_zero")
        return
    s = min(n[4] for n in n0)
    sh = lambda t: max(t - s, 0.0)
    if len(n0) != len(n1) or any(a[:4] + a[6:] != b[:4] + b[6:] for a, b in zip(n0, n1)):
        ev.oracle.append("silence notes: notes (pitch, velocity, channel, track, id) changed or reordered: %r -> %r" % (n0[:4], n1[:4]))
        return
    for a, b in zip(n0, n1):
        if not (close(b[4], sh(a[4])) and close(b[5], sh(a[5]))):
            ev.oracle.append("silence notes: note at (%r, %r) moved to (%r, %r), first onset %r" % (a[4], a[5], b[4], b[5], s))
            return
        if not close(b[5] - b[4], a[5] - a[4]):
            ev.oracle.append("silence durations: note of duration %r has duration %r" % (a[5] - a[4], b[5] - b[4]))
            return
    if min(b[4] for b in n1) != 0:
        ev.oracle.append("silence start: first onset after removal is %r" % min(b[4] for b in n1))
    if len(g0) != len(g1) or any(a[1:] != b[1:] or not close(b[0], sh(a[0])) for a, b in zip(g0, g1)):
        ev.oracle.append("silence programs: %r -> %r (first onset %r)" % (g0[:4], g1[:4], s))
    # controls
    if any(c[0] < 0 for c in c1) or any(a[0] > b[0] for a, b in zip(c1, c1[1:])):
        ev.oracle.append("silence controls: times negative or not in order: %r" % ([c[0] for c in c1][:8],))
        return
    groups = {}
    for c in c0:
        groups.setdefault((c[4], c[3], c[1]), []).append(c)
    ogroups = {}
    for c in c1:
        ogroups.setdefault((c[4], c[3], c[1]), []).append(c)
    if set(groups) != set(ogroups):
        ev.oracle.append("silence controls: (track, channel, number) groups %r -> %r" % (sorted(groups)[:6], sorted(ogroups)[:6]))
        return
    for key, g in groups.items():
        og = ogroups[key]
        later = [c for c in g if c[0] >= s]
        exp_times = sorted(c[0] - s for c in later)
        synth = not any(c[0] == s for c in later)
        if synth:
            exp_times = [0.0] + exp_times
        got_times = sorted(c[0] for c in og)
        if len(exp_times) != len(got_times) or not all(close(a, b) for a, b in zip(got_times, exp_times)):
            ev.oracle.append("silence controls: group %r has times %r, loaded %r, first onset %r" % (key, got_times[:6], [c[0] for c in g][:6], s))
            return
        # values: a control whose time is unique in its group keeps its value
        for c in later:
            if sum(1 for x in g if x[0] == c[0]) == 1:
                if not any(close(o[0], c[0] - s) and o[2] == c[2] for o in og):
                    ev.oracle.append("silence controls: group %r, control (%r, value %d) has no shifted counterpart in %r" % (key, c[0], c[2], og[:6]))
                    return
        if synth:
            before = [c for c in g if c[0] < s]
            if before:
                tmax = max(c[0] for c in before)
                val = [c for c in before if c[0] == tmax][-1][2]
            else:
                val = g[0][2]
            first = [o for o in og if o[0] == 0]
            if not first or first[0][2] != val:
                ev.oracle.append("silence controls: group %r, value in force at the first onset is %d, control at 0 is %r" % (key, val, first[:2]))
                return


def check_load_performance(ev, data, perf, lreq, bpm, merge):
    """`load_performance` on the file: dispatch (= load_performance_midi) and first_note_at_zero"""
    import os
    import tempfile
    from partitura.io import load_performance

    base = _snapshot(perf)
    base_text = loaded_int_text(perf)
    fd, path = tempfile.mkstemp(suffix=".mid", prefix="c06_", dir="/dev/shm" if os.path.isdir("/dev/shm") else None)
    try:
        with os.fdopen(fd, "wb") as f:
            f.write(data)
        lp, e = call(load_performance, path, default_bpm=bpm, merge_tracks=merge, first_note_at_zero=False)
        ev.requests.append("load " + lreq)
        if e:
            ev.impl.append("err:" + type(e).__name__)
            ev.oracle.append("dispatch: load_performance of a MIDI file raised %r" % (e,))
            return
        ev.impl.append(loaded_int_text(lp))
        if loaded_int_text(lp) != base_text or loaded_sec(lp) != loaded_sec(perf):
            ev.oracle.append("dispatch: load_performance and load_performance_midi differ on a MIDI file")
        lz, e = call(load_performance, path, default_bpm=bpm, merge_tracks=merge, first_note_at_zero=True)
        ev.requests.append("sil " + lreq)
        if e:
            ev.impl.append("err:" + type(e).__name__)
            ev.oracle.append("silence: load_performance(first_note_at_zero=True) raised %r" % (e,))
            return
        ev.impl.append(spart_int_text(lz))
        ev.requests.append("silt " + lreq)
        ev.impl.append(("@approx", spart_sec(lz), 1e-9))
        oracle_silence(ev, base, _snapshot(lz))
        ev.info["silence_checked"] = 1
        if base and base[0][0] and min(n[4] for n in base[0][0]) > 0:
            ev.info["silence_nonzero_start"] = 1
    finally:
        try:
            os.unlink(path)
        except OSError:
            pass


def build_parts(d):
    """the performed parts of a `perf` description.  Round 3: an item may carry stored tick fields after its base
    fields (note: on_tick, off_tick; the others: time_tick) and a part its own `attr` = [ppq, mpq]; a tick field is
    any non-negative number - nothing keeps it in step with the seconds, the exporter has to write the seconds"""
    from partitura.performance import PerformedPart

    pps = []
    for p in d["parts"]:
        notes = []
        for i, n in enumerate(p["notes"]):
            nd = dict(id="g%d" % i, midi_pitch=n[0], velocity=n[1], channel=n[2], track=n[3], note_on=n[4], note_off=n[5])
            if len(n) > 6:
                nd.update(note_on_tick=n[6], note_off_tick=n[7])
            notes.append(nd)

        def tk(dct, c, k):
            if len(c) > k:
                dct["time_tick"] = c[k]
            return dct

        controls = [tk(dict(time=c[0], number=c[1], value=c[2], channel=c[3], track=c[4]), c, 5) for c in p["controls"]]
        programs = [tk(dict(time=c[0], program=c[1], channel=c[2], track=c[3]), c, 4) for c in p["programs"]]
        keysigs = [tk(dict(time=c[0], fifths=c[1], mode="minor" if c[2] else "major", track=c[3]), c, 4) for c in p["keysigs"]]
        timesigs = [tk(dict(time=c[0], beats=c[1], beat_type=c[2], track=c[3]), c, 4) for c in p["timesigs"]]
        metas = []
        for c in p["metas"]:
            ty, at = META[c[1]]
            md = dict(time=c[0], type=ty, track=c[2])
            md.update(at)
            metas.append(tk(md, c, 3))
        kw = {}
        if p.get("attr"):
            kw = dict(ppq=p["attr"][0], mpq=p["attr"][1])
        pps.append(PerformedPart(notes, controls=controls, programs=programs, key_signatures=keysigs,
                                 time_signatures=timesigs, meta_other=metas, **kw))
    return pps


def eval_perf(d):
    from partitura.performance import Performance

    ev = Eval()
    pps, e = call(build_parts, d)
    if e:
        ev.oracle.append("construct: PerformedPart(...) raised %r" % (e,))
        return ev
    if d["kind"] == "Performance":
        arg, e = call(Performance, pps)
        if e:
            ev.oracle.append("construct: Performance(...) raised %r" % (e,))
            return ev
        # the constructor renumbers the tracks of notes, controls and programs
        before = [[n[3] for n in p["notes"]] + [c[4] for c in p["controls"]] + [g[3] for g in p["programs"]] for p in d["parts"]]
        after = [[n["track"] for n in pp.notes] + [c["track"] for c in pp.controls] + [g["track"] for g in pp.programs] for pp in pps]
        ev.requests.append("san " + W.lst(lambda l: W.lst(W.i, l), before))
        ev.impl.append(W.f_list(lambda l: W.f_list(W.f_int, l), after))
        # oracle: order-preserving renumbering onto 0..n-1
        ks = sorted(set((i, t) for i, l in enumerate(before) for t in l))
        exp = [[ks.index((i, t)) for t in l] for i, l in enumerate(before)]
        if exp != after:
            ev.oracle.append("sanitize: tracks %r of the parts renumbered %r, order-preserving numbering is %r" % (before, after, exp))
        # ... and the key/time signatures and other meta events (fixes/C06-7; model only - the property speaks about the
        # performance that exists after construction, the oracle judges what save/load does to it)
        before_m = [[c[3] for c in p["keysigs"]] + [c[3] for c in p["timesigs"]] + [c[2] for c in p["metas"]] for p in d["parts"]]
        after_m = [[c["track"] for c in pp.key_signatures] + [c["track"] for c in pp.time_signatures] + [c["track"] for c in pp.meta_other] for pp in pps]
        ev.requests.append("sanm " + W.lst(lambda pr: W.lst(W.i, pr[0]) + " " + W.lst(W.i, pr[1]), list(zip(before, before_m))))
        ev.impl.append(W.f_list(lambda l: W.f_list(W.f_int, l), after_m))
    elif d["kind"] == "PerformedPart":
        arg = pps[0]
    else:
        arg = list(pps)
    r = export_and_reload(ev, d, pps, arg)
    if r is not None:
        ev.key = "perf|" + r[1] if any(p["notes"] for p in r[2]) else None
    return ev


def view_of(pps):
    """the performance as the exporter sees it: the SECONDS (and payload) of every event - never a stored tick"""
    view = []
    for pp in pps:
        view.append({
            "notes": [[n["midi_pitch"], n["velocity"], n["channel"], n["track"], n["note_on"], n["note_off"]] for n in pp.notes],
            "controls": [[c["time"], c["number"], c["value"], c["channel"], c["track"]] for c in pp.controls],
            "programs": [[c["time"], c["program"], c["channel"], c["track"]] for c in pp.programs],
            "keysigs": [[c["time"], c["fifths"], 1 if c["mode"] == "minor" else 0, c["track"]] for c in pp.key_signatures],
            "timesigs": [[c["time"], c["beats"], c["beat_type"], c["track"]] for c in pp.time_signatures],
            "metas": [[c["time"], meta_id(c["type"], c), c["track"]] for c in pp.meta_other],
        })
    return view


def part_req(p):
    """a performed part (as `view_of` gives it) on the wire"""
    mo = W.lst(lambda c: "%s %s %d" % (W.q(c[0]), "7 0 0 0" if c[1] == 0 else "8 %d 0 0" % c[1], c[2]), p["metas"])
    ks = W.lst(lambda c: "%s 6 %d %d 0 %d" % (W.q(c[0]), c[1], c[2], c[3]), p["keysigs"])
    ts = W.lst(lambda c: "%s 5 %d %d 0 %d" % (W.q(c[0]), c[1], c[2], c[3]), p["timesigs"])
    cs = W.lst(lambda c: "%s %d %d %d %d" % (W.q(c[0]), c[1], c[2], c[3], c[4]), p["controls"])
    ns = W.lst(lambda n: "%d %d %d %d %s %s" % (n[0], n[1], n[2], n[3], W.q(n[4]), W.q(n[5])), p["notes"])
    ps = W.lst(lambda c: "%s %d %d %d" % (W.q(c[0]), c[1], c[2], c[3]), p["programs"])
    return " ".join([mo, ks, ts, cs, ns, ps])


def near_boundary(view, ppq, mpq, eps=Fraction(1, 10**4)):
    """is the tick image of any time of the view within eps of a half-tick boundary, or any time beyond 20000 s"""
    for p in view:
        ts = [t for n in p["notes"] for t in (n[4], n[5])]
        for key in ("controls", "programs", "keysigs", "timesigs", "metas"):
            ts += [c[0] for c in p[key]]
        for t in ts:
            x = exact_tick_image(t, ppq, mpq)
            if abs((x - math.floor(x)) - Fraction(1, 2)) < eps or t > 20000:
                return True
    return False


def stale_ticks(pps, ppq, mpq):
    """number of stored tick fields that are NOT a nearest tick of their event's seconds in the file to be written,
    counted over the parts whose own ppq/mpq attributes equal the file's (where they look most trustworthy)"""
    n = 0
    for pp in pps:
        if getattr(pp, "ppq", None) != ppq or getattr(pp, "mpq", None) != mpq:
            continue
        for x in pp.notes:
            for tk, tm in (("note_on_tick", "note_on"), ("note_off_tick", "note_off")):
                if x.get(tk, None) is not None and x[tk] not in admissible(x[tm], ppq, mpq):
                    n += 1
        for l in (pp.controls, pp.programs, pp.key_signatures, pp.time_signatures, pp.meta_other):
            for x in l:
                if x.get("time_tick", None) is not None and x["time_tick"] not in admissible(x["time"], ppq, mpq):
                    n += 1
    return n


def export_and_reload(ev, d, pps, arg):
    """save `arg` (made of the performed parts `pps`) with d[ppq, mpq, msave], compare the written file with the model
    and with the property (oracle_export), load it with d[bpm, mload] and compare / judge again (oracle_roundtrip).
    Returns (bytes of the file, the `exp` request, view) or None when the export or the load raised."""
    import mido
    from partitura.io.exportmidi import save_performance_midi
    from partitura.io.importmidi import load_performance_midi

    ppq, mpq = d["ppq"], d["mpq"]
    view = view_of(pps)
    times = set()
    for p in view:
        for n in p["notes"]:
            times.update([n[4], n[5]])
        for key in ("controls", "programs", "keysigs", "timesigs", "metas"):
            times.update(c[0] for c in p[key])
    overrides = []
    for t in sorted(times):
        if is_boundary(exact_tick_image(t, ppq, mpq)):
            overrides.append((t, int(np.round(10**6 * ppq * t / mpq))))
    st = stale_ticks(pps, ppq, mpq)
    if st:
        ev.info["stale_ticks_under_equal_ppq_mpq"] = ev.info.get("stale_ticks_under_equal_ppq_mpq", 0) + 1

    buf = io.BytesIO()
    _, e = call(save_performance_midi, arg, buf, mpq=mpq, ppq=ppq, merge_tracks_save=d["msave"])
    # round 5: the model evaluates int(np.round(10**6*ppq*t/mpq)) in binary64 itself (`quantF`): nothing is handed over
    req = "exp %d %d %s %s" % (ppq, mpq, W.b(d["msave"]), W.lst(part_req, view))
    ev.requests.append(req)
    if e:
        ev.impl.append("err:" + type(e).__name__)
        ev.oracle.append("export: save_performance_midi(%s, ppq=%d, mpq=%d, merge=%r) raised %r" % (d["kind"], ppq, mpq, d["msave"], e))
        return None
    mf = mido.MidiFile(file=io.BytesIO(buf.getvalue()))
    tracks = file_tracks(mf)
    ev.impl.append(W.f_tuple(W.f_int(mf.type), W.f_list(fmt_track, tracks)))
    oracle_export(ev, d, view, mf, tracks)

    # ---- load it back
    dmpq = default_mpq_of(d["bpm"])
    perf, e = call(load_performance_midi, mido.MidiFile(file=io.BytesIO(buf.getvalue())), default_bpm=d["bpm"], merge_tracks=d["mload"])
    lreq = "%d %d %s %s" % (ppq, dmpq, W.b(d["mload"]), req_tracks(tracks))
    ev.requests.append("load " + lreq)
    if e:
        ev.impl.append("err:" + type(e).__name__)
        ev.oracle.append("load: load_performance_midi of the written file raised %r" % (e,))
        return None
    ev.impl.append(loaded_int_text(perf))
    ev.requests.append("loadt " + lreq)
    ev.impl.append(("@approx", loaded_sec(perf), 1e-9))
    ev.requests.append("loadf " + lreq)  # round 5: the binary64 model of adjust_time, compared exactly
    ev.impl.append(("@approx", loaded_sec(perf), 0.0))
    if mf.ticks_per_beat != ppq:
        ev.oracle.append("export: ticks_per_beat %r, asked for %r" % (mf.ticks_per_beat, ppq))
    check_loaded_against_file(ev, perf, tracks, mf.ticks_per_beat, dmpq, d["mload"], "load")
    oracle_roundtrip(ev, d, view, perf, from_loader=bool(d.get("from_loader")))
    if d.get("lp"):
        check_load_performance(ev, buf.getvalue(), perf, lreq, d["bpm"], d["mload"])
    ev.info["boundary_times"] = ev.info.get("boundary_times", 0) + len(overrides)
    return buf.getvalue(), req, view


def _event_rows(view, ppq, mpq):
    """(track, what, payload, admissible ticks) for every event of the performance"""
    rows = []
    for pi, p in enumerate(view):
        for n in p["notes"]:
            rows.append((n[3], "on", (n[2], n[0], n[1]), admissible(n[4], ppq, mpq), pi))
            rows.append((n[3], "off", (n[2], n[0]), admissible(n[5], ppq, mpq), pi))
        for c in p["controls"]:
            rows.append((c[4], "ctl", (c[3], c[1], c[2]), admissible(c[0], ppq, mpq), pi))
        for c in p["programs"]:
            rows.append((c[3], "prg", (c[2], c[1]), admissible(c[0], ppq, mpq), pi))
        for c in p["keysigs"]:
            rows.append((c[3], "key", (c[1], c[2]), admissible(c[0], ppq, mpq), pi))
        for c in p["timesigs"]:
            rows.append((c[3], "tsg", (c[1], c[2]), admissible(c[0], ppq, mpq), pi))
        for c in p["metas"]:
            if c[1] != 0:
                rows.append((c[2], "met", (c[1],), admissible(c[0], ppq, mpq), pi))
    return rows


def _match_rows(exp, got):
    """exp: [(payload, set of ticks)], got: [(payload, tick)]: is there a bijection with tick in the set?"""
    if len(exp) != len(got):
        return False
    le, lg = unmatched(exp, got, lambda e, g: e[0] == g[0] and g[1] in e[1])
    return not le and not lg


def oracle_export(ev, d, view, mf, tracks):
    """the written file holds exactly the events of the performance, each at a nearest tick"""
    ppq, mpq = d["ppq"], d["mpq"]
    rows = _event_rows(view, ppq, mpq)
    tnums = sorted(set(r[0] for r in rows) | set(c[2] for p in view for c in p["metas"]))
    merged = d["msave"] and len(tnums) > 1
    ntr = (1 if merged else len(tnums))
    if len(tracks) != ntr:
        ev.oracle.append("export tracks: %d tracks written for track numbers %r (merge=%r)" % (len(tracks), tnums, d["msave"]))
        return
    if mf.type != (0 if len(tnums) == 1 else 1):
        ev.oracle.append("export type: type %d for %d tracks" % (mf.type, len(tnums)))
    abst = []
    for tr in tracks:
        t, l = 0, []
        for m in tr:
            t += m[0]
            l.append((t,) + tuple(m[1:]))
        abst.append(l)
    tempos = [(ti, j, m) for ti, l in enumerate(abst) for j, m in enumerate(l) if m[1] == 4]
    if tracks and (len(tempos) != 1 or tempos[0][:2] != (0, 0) or tempos[0][2][0] != 0 or tempos[0][2][2] != mpq):
        ev.oracle.append("export tempo: expected one set_tempo %d at the start of the first track, found %r" % (mpq, [x[2] for x in tempos][:4]))
    for fi, l in enumerate(abst):
        mine = [r for r in rows if merged or tnums.index(r[0]) == fi]
        got = {"on": [], "off": [], "ctl": [], "prg": [], "key": [], "tsg": [], "met": []}
        for m in l:
            if m[1] == 0 and m[4] > 0:
                got["on"].append(((m[2], m[3], m[4]), m[0]))
            elif m[1] == 1 or m[1] == 0:
                got["off"].append(((m[2], m[3]), m[0]))
            elif m[1] == 2:
                got["ctl"].append(((m[2], m[3], m[4]), m[0]))
            elif m[1] == 3:
                got["prg"].append(((m[2], m[3]), m[0]))
            elif m[1] == 6:
                got["key"].append(((m[2], m[3]), m[0]))
            elif m[1] == 5:
                got["tsg"].append(((m[2], m[3]), m[0]))
            elif m[1] == 8:
                got["met"].append(((m[2],), m[0]))
            elif m[1] == 9:
                ev.oracle.append("export: message that is no event of the performance in track %d" % fi)
        for what in got:
            exp = [(r[2], r[3]) for r in mine if r[1] == what]
            g = got[what]
            if what == "prg":
                # default program 0 for channels of parts without programs is "no program"
                nop = set(pi for pi, p in enumerate(view) if not p["programs"])
                allowed = set((r[2][0], 0) for r in mine if r[4] in nop and r[1] in ("on", "ctl"))
                le, lg = unmatched(exp, g, lambda e, x: e[0] == x[0] and x[1] in e[1])
                if le or any(g[j][0] not in allowed for j in lg):
                    ev.oracle.append("export programs: track %d holds %r, the performance has %r (default program 0 allowed on %r)"
                                     % (fi, sorted(g)[:8], sorted((a, sorted(b)) for a, b in exp)[:8], sorted(allowed)[:8]))
                continue
            if not _match_rows(exp, g):
                ev.oracle.append("export %s: track %d holds %r, the performance has (payload, nearest ticks) %r"
                                 % (what, fi, sorted(g)[:8], sorted((a, sorted(b)) for a, b in exp)[:8]))
                break


def unmatched(exp, got, ok):
    """maximum bipartite matching (Kuhn) between exp and got under the predicate ok(e, g);
    returns (indices of exp left unmatched, indices of got left unmatched)"""
    adj = [[j for j, g in enumerate(got) if ok(e, g)] for e in exp]
    mg = [-1] * len(got)

    def aug(i, seen):
        for j in adj[i]:
            if j in seen:
                continue
            seen.add(j)
            if mg[j] < 0 or aug(mg[j], seen):
                mg[j] = i
                return True
        return False

    left = [i for i in sorted(range(len(exp)), key=lambda i: len(adj[i])) if not aug(i, set())]
    return left, [j for j in range(len(got)) if mg[j] < 0]


def oracle_roundtrip(ev, d, view, perf, from_loader=False):
    """loaded performance = original with times on the tick grid.
    `from_loader`: the performance that was saved is one `load_performance_midi` returned (second generation)"""
    ppq, mpq = d["ppq"], d["mpq"]
    sec = lambda k: Fraction(k * mpq, 10**6 * ppq)
    half = Fraction(mpq, 2 * 10**6 * ppq)
    rows = _event_rows(view, ppq, mpq)
    tnums = sorted(set(r[0] for r in rows) | set(c[2] for p in view for c in p["metas"]))
    merged = (d["msave"] or d["mload"]) and len(tnums) > 1
    rank = (lambda t: 0) if merged else (lambda t: tnums.index(t))
    # every written track must become a part for the numbering to be the rank (generator: meta only on carrying tracks)
    carrying = sorted(set(r[0] for r in rows if r[1] in ("on", "ctl", "prg")))
    if not merged and carrying != tnums:
        if from_loader:
            # every event of a part the loader returns was read from ONE file track, together with the notes,
            # controls or programs that make it a part: it is no conductor track of the user's making, and the
            # key/time signatures and other meta events of such a performance must come back like everything else
            # (an end_of_track alone on such a track is no event of the performance: not judged)
            lost = [(r[1], r[2], r[0]) for r in rows if r[0] not in carrying]
            if lost:
                ev.oracle.append("roundtrip second generation: the loaded performance has its notes, controls and programs on track(s) %r but "
                                 "(kind, payload, track) %r of the same parts on other track numbers: written to tracks of their own they "
                                 "are in no performed part after save and load" % (carrying, lost[:6]))
        ev.info["roundtrip_unjudged_meta_only_track"] = ev.info.get("roundtrip_unjudged_meta_only_track", 0) + 1
        return
    if merged and not carrying:
        return
    lp = perf.performedparts
    if len(lp) != (1 if merged else len(tnums)):
        ev.oracle.append("roundtrip parts: %d parts loaded for track numbers %r (merged=%r)" % (len(lp), tnums, merged))
        return

    def times_ok(t_loaded, t_orig):
        cands = admissible(t_orig, ppq, mpq)
        return any(close(t_loaded, sec(k)) for k in cands) and abs(Fraction(*float(t_loaded).as_integer_ratio()) - Fraction(*float(t_orig).as_integer_ratio())) <= half * (1 + Fraction(1, 10**6)) + Fraction(1, 10**9)

    def match(exp, got, what, fields):
        """exp: [(payload, t_orig)], got: [(payload, t_loaded)]"""
        if sorted(x[0] for x in exp) != sorted(x[0] for x in got):
            ev.oracle.append("roundtrip %s: original %s %r, loaded %r" % (what, fields, sorted(x[0] for x in exp)[:8], sorted(x[0] for x in got)[:8]))
            return
        le, lg = unmatched(exp, got, lambda e, g: e[0] == g[0] and all(times_ok(a, b) for a, b in zip(g[1], e[1])))
        if le:
            pl, t = exp[le[0]]
            ev.oracle.append("roundtrip %s: original %s %r at %r s has no loaded counterpart within half a tick (%r s); loaded %r"
                             % (what, fields, pl, t, float(half), [x for x in got if x[0] == pl][:4]))

    # notes (only when no two notes of one channel and pitch overlap or meet across parts/tracks within a loaded track)
    note_rows = [(rank(n[3]), n[2], n[0], n[1], n[4], n[5], pi, n[3]) for pi, p in enumerate(view) for n in p["notes"]]
    ok = True
    per = {}
    for r in note_rows:
        per.setdefault((r[0], r[1], r[2]), []).append(r)
    for key, l in per.items():
        # written order: track number, part, (note_on, note_off) - the exporter's order before the stable sorts by tick
        l.sort(key=lambda r: (r[7], r[6], r[4], r[5]))
        for i in range(len(l)):
            for j in range(i + 1, len(l)):
                a, b = l[i], l[j]
                first = max(admissible(a[5], ppq, mpq)) <= min(admissible(b[4], ppq, mpq))   # a released no later than b begins
                second = max(admissible(b[5], ppq, mpq)) < min(admissible(a[4], ppq, mpq))   # b strictly before a
                if not (first or second):
                    ok = False  # overlap, or two notes meeting on one tick written against their order in time
    if ok and any(len(set((r[6], r[7]) for r in l)) > 1 for l in per.values()):
        ev.info["note_clause_across_tracks"] = 1  # one channel and pitch on several parts / track numbers, clause applied
    if ok:
        exp = [((r[2], r[3], r[1], r[0]), (r[4], r[5])) for r in note_rows]
        got = [((n["midi_pitch"], n["velocity"], n["channel"], n["track"]), (n["note_on"], n["note_off"])) for pp in lp for n in pp.notes]
        match(exp, got, "notes", "(pitch, velocity, channel, track)")
    else:
        ev.info["note_clause_skipped"] = 1
    exp = [((c[1], c[2], c[3], rank(c[4])), (c[0],)) for p in view for c in p["controls"]]
    got = [((c["number"], c["value"], c["channel"], c["track"]), (c["time"],)) for pp in lp for c in pp.controls]
    match(exp, got, "controls", "(number, value, channel, track)")
    # programs modulo default 0
    exp = [((c[1], c[2], rank(c[3])), (c[0],)) for p in view for c in p["programs"]]
    got = [((c["program"], c["channel"], c["track"]), (c["time"],)) for pp in lp for c in pp.programs]
    nop = [pi for pi, p in enumerate(view) if not p["programs"]]
    allowed = set((0, r[2][0], rank(r[0])) for r in rows if r[4] in nop and r[1] in ("on", "ctl"))
    le, lg = unmatched(exp, got, lambda e, g: e[0] == g[0] and times_ok(g[1][0], e[1][0]))
    if le or any(got[j][0] not in allowed for j in lg):
        ev.oracle.append("roundtrip programs: original (program, channel, track) %r, loaded %r; only a default program 0 on %r may be added"
                         % (sorted(x[0] for x in exp)[:8], sorted(x[0] for x in got)[:8], sorted(allowed)[:8]))
    exp = [((c[1], "minor" if c[2] else "major", rank(c[3])), (c[0],)) for p in view for c in p["keysigs"]]
    got = [((c["fifths"], c["mode"], c["track"]), (c["time"],)) for pp in lp for c in pp.key_signatures]
    match(exp, got, "key signatures", "(fifths, mode, track)")
    exp = [((c[1], c[2], rank(c[3])), (c[0],)) for p in view for c in p["timesigs"]]
    got = [((c["beats"], c["beat_type"], c["track"]), (c["time"],)) for pp in lp for c in pp.time_signatures]
    match(exp, got, "time signatures", "(beats, beat_type, track)")
    exp = [((c[1], rank(c[2])), (c[0],)) for p in view for c in p["metas"] if c[1] != 0]
    got = [((meta_id(c.get("type"), c), c["track"]), (c["time"],)) for pp in lp for c in pp.meta_other if c.get("type") != "end_of_track"]
    match(exp, got, "meta", "(message, track)")


def eval_raw(d):
    import mido
    from partitura.io.importmidi import load_performance_midi

    ev = Eval()
    mf0 = mido.MidiFile(type=1 if len(d["tracks"]) != 1 else 0, ticks_per_beat=d["ppq"])
    for tr in d["tracks"]:
        mf0.tracks.append(mido.MidiTrack([code_msg(tuple(m[1:]), m[0]) for m in tr]))
    buf = io.BytesIO()
    mf0.save(file=buf)
    mf = mido.MidiFile(file=io.BytesIO(buf.getvalue()))
    tracks = file_tracks(mf)
    dmpq = default_mpq_of(d["bpm"])
    ppq = mf.ticks_per_beat
    # mido.merge_tracks alone against its model
    if len(tracks) > 1:
        mt = mido.merge_tracks(mf.tracks)
        ev.requests.append("merge " + req_tracks(tracks))
        ev.impl.append(fmt_track([(int(m.time),) + msg_code(m) for m in mt]))
    perf, e = call(load_performance_midi, mf, default_bpm=d["bpm"], merge_tracks=d["merge"])
    lreq = "%d %d %s %s" % (ppq, dmpq, W.b(d["merge"]), req_tracks(tracks))
    ev.requests.append("load " + lreq)
    if e:
        ev.impl.append("err:" + type(e).__name__)
        ev.oracle.append("load: load_performance_midi raised %r" % (e,))
        return ev
    ev.impl.append(loaded_int_text(perf))
    ev.requests.append("loadt " + lreq)
    ev.impl.append(("@approx", loaded_sec(perf), 1e-9))
    ev.requests.append("loadf " + lreq)  # round 5: the binary64 model of adjust_time, compared exactly
    ev.impl.append(("@approx", loaded_sec(perf), 0.0))
    check_loaded_against_file(ev, perf, tracks, ppq, dmpq, d["merge"], "load")
    if d.get("lp"):
        check_load_performance(ev, buf.getvalue(), perf, lreq, d["bpm"], d["merge"])
    ntempo = sum(1 for tr in tracks for m in tr if m[1] == 4)
    nnotes = sum(len(pp.notes) for pp in perf.performedparts)
    ev.key = ("raw|" + lreq) if (ntempo or nnotes) else None
    ev.info.update({"tempo_events": ntempo, "tempo_in_later_track": int(any(m[1] == 4 for tr in tracks[1:] for m in tr))})
    # round 6: files with a tempo of 0; parts in which the order of the ids (by seconds) is not the order by ticks
    zero = any(m[1] == 4 and m[2] == 0 for tr in tracks for m in tr)
    differs = 0
    for pp in perf.performedparts:
        tk = [(n["note_on_tick"], n["midi_pitch"], n["note_off_tick"], n["channel"]) for n in pp.notes]
        differs += int(tk != sorted(tk))
    ev.info.update({"files_with_tempo_zero": int(zero), "parts_ordered_by_seconds_not_ticks": differs,
                    "parts_of_tempo_zero_files": len(perf.performedparts) if zero else 0})
    return ev


def apply_edit(perf, edit):
    """an edit of the SECONDS of a loaded performance through its public interface (the tick fields stay)"""
    if edit[0] == "none":
        return
    v = edit[1]
    f = (lambda t: t + v) if edit[0] == "shift" else (lambda t: t * v)
    growing = f(1.0) >= 1.0
    for pp in perf.performedparts:
        for n in pp.notes:
            vals = {"note_on": f(n["note_on"]), "note_off": f(n["note_off"])}
            # the setter validates note_off >= note_on against the value in place; sound_off (C14; stale in a loaded
            # note whenever the file has a tempo change) is left alone
            for key in (("note_off", "note_on") if growing else ("note_on", "note_off")):
                n[key] = vals[key]
        for l in (pp.controls, pp.programs, pp.key_signatures, pp.time_signatures, pp.meta_other):
            for c in l:
                c["time"] = f(c["time"])


def eval_regen(d):
    import os
    import tempfile
    import mido
    from partitura.performance import Performance
    from partitura.io import load_performance
    from partitura.io.exportmidi import save_performance_midi
    from partitura.io.importmidi import load_performance_midi

    ev = Eval()
    src = d["src"]
    # ---- the first file (its own loading is the subject of the raw / perf cases)
    if src["k"] == "raw":
        mf0 = mido.MidiFile(type=1 if len(src["tracks"]) != 1 else 0, ticks_per_beat=src["ppq"])
        for tr in src["tracks"]:
            mf0.tracks.append(mido.MidiTrack([code_msg(tuple(m[1:]), m[0]) for m in tr]))
        buf = io.BytesIO()
        mf0.save(file=buf)
    else:
        pps, e = call(build_parts, src)
        if e:
            return ev
        arg = pps[0] if src["kind"] == "PerformedPart" else list(pps)
        if src["kind"] == "Performance":
            arg, e = call(Performance, pps)
            if e:
                return ev
        buf = io.BytesIO()
        _, e = call(save_performance_midi, arg, buf, mpq=src["mpq"], ppq=src["ppq"], merge_tracks_save=src["msave"])
        if e:
            return ev
    data = buf.getvalue()
    keys = []
    nnotes = 0
    for ci, c in enumerate(d["cycles"]):
        nxt = d["cycles"][ci + 1] if ci + 1 < len(d["cycles"]) else d["final"]
        if c["via"] == "midi":
            perf, e = call(load_performance_midi, mido.MidiFile(file=io.BytesIO(data)), default_bpm=c["bpm"], merge_tracks=c["merge"])
        else:
            fd, path = tempfile.mkstemp(suffix=".mid", prefix="c06_", dir="/dev/shm" if os.path.isdir("/dev/shm") else None)
            try:
                with os.fdopen(fd, "wb") as f:
                    f.write(data)
                perf, e = call(load_performance, path, default_bpm=c["bpm"], merge_tracks=c["merge"], first_note_at_zero=c["via"] == "fnz")
            finally:
                try:
                    os.unlink(path)
                except OSError:
                    pass
        if e:
            ev.oracle.append("load: loading the file of generation %d raised %r" % (ci, e))
            return ev
        _, e = call(apply_edit, perf, c["edit"])
        if e:
            ev.oracle.append("edit: moving the times of a loaded performance (%r) raised %r" % (c["edit"], e))
            return ev
        pps = list(perf.performedparts)
        if not pps:
            break
        if c["kind"] == "PerformedPart":
            pps = pps[:1]
            arg = pps[0]
        elif c["kind"] == "list":
            arg = list(pps)
        else:
            arg = perf
        cfg = {"kind": c["kind"], "ppq": c["ppq"], "mpq": c["mpq"], "msave": c["msave"], "bpm": nxt["bpm"], "mload": nxt["merge"], "lp": False,
               "from_loader": True}
        idx = len(ev.requests)
        r = export_and_reload(ev, cfg, pps, arg)
        if r is None:
            return ev
        # the composed model: file -> loader (-> first_note_at_zero) -> exporter, from the messages of the file alone.
        # The model integrates the tempo map exactly, the loader in binary64: the two agree on the tick of every
        # event unless its image lies next to an x.5 boundary - such cases are left to the `exp` observation above
        if c["edit"][0] == "none" and not near_boundary(r[2], c["ppq"], c["mpq"]):
            mf1 = mido.MidiFile(file=io.BytesIO(data))
            ev.requests.append("regen %d %d %s %s %s %d %d %s %s" % (
                mf1.ticks_per_beat, default_mpq_of(c["bpm"]), W.b(c["merge"]), W.b(c["via"] == "fnz"), W.b(c["kind"] == "PerformedPart"),
                c["ppq"], c["mpq"], W.b(c["msave"]), req_tracks(file_tracks(mf1))))
            ev.impl.append(ev.impl[idx])
            ev.info["regen_model"] = ev.info.get("regen_model", 0) + 1
        if c["edit"][0] == "none" and c["via"] != "fnz":
            # round 5: the same composition with every number in binary64 as the code computes it (`secondsAtF`, then
            # `quantF`): no tolerance and no exclusion of the x.5 boundaries
            mf1 = mido.MidiFile(file=io.BytesIO(data))
            ev.requests.append("regenf %d %d %s %s %d %d %s %s" % (
                mf1.ticks_per_beat, default_mpq_of(c["bpm"]), W.b(c["merge"]), W.b(c["kind"] == "PerformedPart"),
                c["ppq"], c["mpq"], W.b(c["msave"]), req_tracks(file_tracks(mf1))))
            ev.impl.append(ev.impl[idx])
            ev.info["regen_model_binary64"] = ev.info.get("regen_model_binary64", 0) + 1
            if near_boundary(r[2], c["ppq"], c["mpq"]):
                ev.info["regen_model_binary64_at_boundary"] = ev.info.get("regen_model_binary64_at_boundary", 0) + 1
        data = r[0]
        keys.append(r[1])
        nnotes += sum(len(p["notes"]) for p in r[2])
        ev.info["generations"] = ev.info.get("generations", 0) + 1
    ev.key = ("regen|" + "|".join(keys)) if nnotes else None
    return ev



# ------------------------------------------------------------------ round 5: histories of uses of one argument
def _obj_state(mf):
    """what a reader can see of a MidiFile object"""
    return (int(mf.ticks_per_beat), int(mf.type), [[(int(m.time),) + msg_code(m) for m in tr] for tr in mf.tracks])


def _fmt_obj(ppq, tracks):
    return W.f_tuple(W.f_int(ppq), W.f_list(fmt_track, tracks))


def _abs_tracks(tracks):
    out = []
    for tr in tracks:
        t, l = 0, []
        for m in tr:
            t += m[0]
            l.append((t,) + tuple(m[1:]))
        out.append(l)
    return out


def _na_rows(na):
    """the rows of a note array, sorted (their order is not part of this check)"""
    return sorted((int(r["onset_tick"]), int(r["pitch"]), int(r["velocity"]), int(r["channel"])) for r in na)


def _use_text(op):
    if op[0] == "L":
        return "load_performance_midi(%s, default_bpm=%r, merge_tracks=%r)" % (op[1], op[2], op[3])
    if op[0] == "P":
        return "load_performance(%s, default_bpm=%r, merge_tracks=%r, first_note_at_zero=%r)" % (op[1], op[2], op[3], op[4])
    if op[0] == "N":
        return "midi_to_notearray(%s)" % op[1]
    if op[0] in ("Ld", "Pd"):
        return "%s(%s)" % ("load_performance_midi" if op[0] == "Ld" else "load_performance", op[1])
    return {"S": "obj.save(file)", "I": "iterating the messages"}[op[0]]


def eval_lhist(d):
    import copy
    import os
    import pathlib
    import tempfile
    import mido
    from partitura.performance import Performance
    from partitura.io import load_performance
    from partitura.io.exportmidi import save_performance_midi
    from partitura.io.importmidi import load_performance_midi, midi_to_notearray

    ev = Eval()
    src = d["src"]
    # ---- the object
    if src["k"] == "raw":
        mf = mido.MidiFile(type=1 if len(src["tracks"]) != 1 else 0, ticks_per_beat=src["ppq"])
        for tr in src["tracks"]:
            mf.tracks.append(mido.MidiTrack([code_msg(tuple(m[1:]), m[0]) for m in tr]))
    else:
        pps, e = call(build_parts, src)
        if e:
            return ev
        arg = pps[0] if src["kind"] == "PerformedPart" else list(pps)
        if src["kind"] == "Performance":
            arg, e = call(Performance, pps)
            if e:
                return ev
        mf, e = call(save_performance_midi, arg, None, mpq=src["mpq"], ppq=src["ppq"], merge_tracks_save=src["msave"])
        if e or mf is None:
            ev.oracle.append("history export: save_performance_midi(..., out=None) %s" % ("raised %r" % (e,) if e else "returned None"))
            return ev
    if d["how"] == "parsed":
        buf = io.BytesIO()
        mf.save(file=buf)
        mf = mido.MidiFile(file=io.BytesIO(buf.getvalue()))
    pristine = copy.deepcopy(mf)
    state0 = _obj_state(mf)
    ppq = state0[0]
    buf = io.BytesIO()
    pristine.save(file=buf)
    data = buf.getvalue()
    saved_state = _obj_state(mido.MidiFile(file=io.BytesIO(data)))
    fd, path = tempfile.mkstemp(suffix=".mid", prefix="c06h_", dir="/dev/shm" if os.path.isdir("/dev/shm") else None)
    with os.fdopen(fd, "wb") as f:
        f.write(data)
    texts, secs, model_ops, done = [], [], [], []
    nnotes = 0
    try:
        for op in d["ops"]:
            kind = op[0]
            form = op[1] if len(op) > 1 else "obj"
            via_path = form in ("str", "Path")
            given = mf if form == "obj" else (path if form == "str" else pathlib.Path(path))
            # the reference: the same call on a copy of the file nobody has touched
            fresh = mido.MidiFile(file=io.BytesIO(data)) if via_path else copy.deepcopy(pristine)
            seen_tracks = saved_state[2] if via_path else state0[2]
            where = "use %d, %s, after [%s]" % (len(done), _use_text(op), "; ".join(done))
            kw = {}
            if kind in ("Ld", "Pd"):
                # the options the call leaves out, as the live signature has them (the model takes them from the table
                # harness/translate_c06.py regenerates: Gen.C06_LOAD_MPQ, ...)
                import inspect
                sig = inspect.signature(load_performance_midi if kind == "Ld" else load_performance).parameters
                op = [kind[0], form, sig["default_bpm"].default, bool(sig["merge_tracks"].default)] + \
                    ([bool(sig["first_note_at_zero"].default)] if kind == "Pd" else [])
                dflt, kind = True, kind[0]
            else:
                dflt = False
                if kind == "L":
                    kw = dict(default_bpm=op[2], merge_tracks=op[3])
                elif kind == "P":
                    kw = dict(default_bpm=op[2], merge_tracks=op[3], first_note_at_zero=op[4])
            if kind == "L":
                got, e = call(load_performance_midi, given, **kw)
                ref, e2 = call(load_performance_midi, fresh, **kw)
                model_ops.append(("5 %s" % W.b(via_path)) if dflt else "0 %s %d %s" % (W.b(via_path), default_mpq_of(op[2]), W.b(op[3])))
                if e or e2:
                    texts.append("(L,err)")
                    secs.append("err")
                    ev.oracle.append("history load: %s raised %r" % (where, e or e2))
                else:
                    texts.append("(L," + loaded_int_text(got) + ")")
                    secs.append(loaded_sec(got))
                    nnotes += sum(len(pp.notes) for pp in got.performedparts)
                    if loaded_int_text(got) != loaded_int_text(ref) or loaded_sec(got) != loaded_sec(ref):
                        ev.oracle.append("history load: %s returned %d part(s) %s; a fresh copy of the same file gives %d part(s) %s"
                                         % (where, len(got.performedparts), loaded_int_text(got)[:300], len(ref.performedparts), loaded_int_text(ref)[:300]))
                    check_loaded_against_file(ev, got, seen_tracks, ppq, default_mpq_of(op[2]), op[3], "history load (%s)" % where)
            elif kind == "P":
                got, e = call(load_performance, given, **kw)
                ref, e2 = call(load_performance, fresh, **kw)
                model_ops.append(("6 %s" % W.b(via_path)) if dflt else "1 %s %d %s %s" % (W.b(via_path), default_mpq_of(op[2]), W.b(op[3]), W.b(op[4])))
                if e or e2:
                    texts.append("(P,err)")
                    secs.append("err")
                    ev.oracle.append("history dispatch: %s raised %r" % (where, e or e2))
                else:
                    texts.append("(P," + spart_int_text(got) + ")")
                    secs.append(spart_sec(got))
                    if _snapshot(got) != _snapshot(ref):
                        ev.oracle.append("history dispatch: %s returned %d part(s) %s; a fresh copy of the same file gives %d part(s) %s"
                                         % (where, len(got.performedparts), spart_int_text(got)[:300], len(ref.performedparts), spart_int_text(ref)[:300]))
                    base, e3 = call(load_performance_midi, copy.deepcopy(fresh if via_path else pristine), default_bpm=op[2], merge_tracks=op[3])
                    if not e3:
                        if op[4]:
                            oracle_silence(ev, _snapshot(base), _snapshot(got))
                        elif _snapshot(base) != _snapshot(got):
                            ev.oracle.append("history dispatch: %s differs from load_performance_midi of a fresh copy" % where)
            elif kind == "N":
                got, e = call(midi_to_notearray, given)
                ref, e2 = call(midi_to_notearray, fresh)
                model_ops.append("2 %s" % W.b(via_path))
                secs.append([])
                if e is not None and e2 is not None:
                    texts.append("(N,err)")  # a file without notes, controls and programs: nothing to concatenate
                elif e is not None or e2 is not None:
                    texts.append("(N,err)")
                    ev.oracle.append("history notearray: %s %s, on a fresh copy of the same file it %s"
                                     % (where, "raised %r" % (e,) if e else "returned", "raised %r" % (e2,) if e2 else "returned"))
                else:
                    rows = _na_rows(got)
                    texts.append("(N," + W.f_list(lambda r: W.f_tuple(*[W.f_int(x) for x in r]), rows) + ")")
                    full = lambda a: sorted((float(r["onset_sec"]), float(r["duration_sec"]), int(r["onset_tick"]), int(r["pitch"]),
                                             int(r["velocity"]), int(r["track"]), int(r["channel"]), str(r["id"])) for r in a)
                    same = full(got) == full(ref)
                    if not same:
                        ev.oracle.append("history notearray: %s returned (onset_tick, pitch, velocity, channel) %r; a fresh copy of the same file gives %r"
                                         % (where, rows[:8], _na_rows(ref)[:8]))
            elif kind == "S":
                b2 = io.BytesIO()
                _, e = call(mf.save, file=b2)
                model_ops.append("3")
                secs.append([])
                if e:
                    texts.append("(S,err)")
                    ev.oracle.append("history save: %s raised %r" % (where, e))
                else:
                    st = _obj_state(mido.MidiFile(file=io.BytesIO(b2.getvalue())))
                    texts.append("(S," + _fmt_obj(st[0], st[2]) + ")")
                    if b2.getvalue() != data:
                        ev.oracle.append("history save: %s wrote another file than the object saved before any use (%d tracks, before %d)"
                                         % (where, len(st[2]), len(saved_state[2])))
            else:
                model_ops.append("4")
                secs.append([])
                texts.append("(I," + W.f_list(fmt_track, _abs_tracks([[(int(m.time),) + msg_code(m) for m in tr] for tr in mf.tracks])) + ")")
            st = _obj_state(mf)
            if st != state0:
                diff = ""
                for ti, (ta, tb) in enumerate(zip(state0[2], st[2])):
                    for mi, (ma, mb) in enumerate(zip(ta, tb)):
                        if ma != mb:
                            diff = "; first difference: track %d message %d (delta, kind, a, b, c) %r -> %r" % (ti, mi, ma, mb)
                            break
                    if diff:
                        break
                ev.oracle.append("history object: %s changed the MidiFile object it was given: %d track(s) with %r message(s) before, %d track(s) with %r after%s%s"
                                 % (where, len(state0[2]), [len(t) for t in state0[2]], len(st[2]), [len(t) for t in st[2]], diff,
                                    "" if st[:2] == state0[:2] else "; ticks_per_beat/type %r -> %r" % (state0[:2], st[:2])))
                break
            done.append(_use_text(d["ops"][len(done)]))
    finally:
        try:
            os.unlink(path)
        except OSError:
            pass
    if len(texts) == len(d["ops"]):
        st = _obj_state(mf)
        hreq = "%d %s %s" % (ppq, req_tracks(state0[2]), W.lst(lambda o: o, model_ops))
        ev.requests.append("hist " + hreq)
        ev.impl.append(W.f_tuple(W.f_list(lambda t: t, texts), _fmt_obj(st[0], st[2])))
        if "err" not in secs:
            ev.requests.append("histt " + hreq)
            ev.impl.append(("@approx", secs, 1e-9))
    ev.key = ("lhist|%d|%s|%s" % (ppq, req_tracks(state0[2]), " ".join(model_ops))) if nnotes else None
    ev.info.update({"lhist_uses": len(d["ops"]), "lhist_obj_" + d["how"]: 1,
                    "lhist_merged_then_unmerged_on_object": int(_merged_then_unmerged(d["ops"])),
                    "lhist_multi_track": int(len(state0[2]) > 1)})
    for op in d["ops"]:
        if op[0] in ("Ld", "Pd"):
            ev.info["lhist_use_defaults"] = ev.info.get("lhist_use_defaults", 0) + 1
        k = "lhist_use_%s_%s" % (op[0][0], op[1] if len(op) > 1 else "obj")
        ev.info[k] = ev.info.get(k, 0) + 1
    return ev


def _merged_then_unmerged(ops):
    merged = False
    for op in ops:
        on_obj = len(op) > 1 and op[1] == "obj"
        if on_obj and (op[0] == "N" or (op[0] in ("L", "P") and op[3])):
            merged = True
        elif merged and on_obj and (op[0] in ("Ld", "Pd") or (op[0] in ("L", "P") and not op[3])):
            return True
    return False


def _arg_snapshot(pps):
    """everything the performed parts hold, as a multiset per list (the order of a list is not judged)"""
    out = []
    for pp in pps:
        part = []
        for name in ("notes", "controls", "programs", "key_signatures", "time_signatures", "meta_other"):
            l = getattr(pp, name)
            part.append(sorted(repr(sorted((str(k), repr(v)) for k, v in dict(x).items() if k not in ("sound_off",))) for x in l))
        part.append((getattr(pp, "ppq", None), getattr(pp, "mpq", None)))
        out.append(part)
    return out


def eval_shist(d):
    import os
    import pathlib
    import tempfile
    import mido
    from partitura.performance import Performance
    from partitura.io.exportmidi import save_performance_midi
    from partitura.io.importmidi import load_performance_midi

    ev = Eval()
    src = d["src"]

    def make():
        pps = build_parts(src)
        if d.get("bad") == "other":
            return pps, 42
        if d.get("bad") == "mixed":
            return pps, list(pps) + [42]
        if src["kind"] == "Performance":
            return pps, Performance(pps)
        if src["kind"] == "PerformedPart":
            return pps[:1], pps[0]
        return pps, list(pps)

    r, e = call(make)
    if e:
        return ev
    pps, arg = r
    view0 = view_of(pps)
    snap0 = _arg_snapshot(pps)
    kindno = {"Performance": 0, "PerformedPart": 1, "list": 2}[src["kind"]]
    if d.get("bad"):
        kindno = 3 if d["bad"] == "mixed" else 4
    tmpdir = tempfile.mkdtemp(prefix="c06s_", dir="/dev/shm" if os.path.isdir("/dev/shm") else None)
    texts, model_ops, done = [], [], []
    try:
        for oi, op in enumerate(d["ops"]):
            form, ppq, mpq, msave = op
            if ppq is None:
                kw = {}  # every option left to its default; what they are is read off the written file below
                where = "save %d (out=%s, options left to their defaults) after [%s]" % (oi, form, "; ".join(done))
                model_ops.append("1 0 0 0 %s" % W.b(form == "none"))
            else:
                kw = dict(mpq=mpq, ppq=ppq, merge_tracks_save=msave)
                where = "save %d (out=%s, ppq=%d, mpq=%d, merge_tracks_save=%r) after [%s]" % (oi, form, ppq, mpq, msave, "; ".join(done))
                model_ops.append("0 %d %d %s %s" % (ppq, mpq, W.b(msave), W.b(form == "none")))
            path = os.path.join(tmpdir, "f%d.mid" % oi)
            returned = None
            if form == "buf":
                out = io.BytesIO()
                _, e = call(save_performance_midi, arg, out, **kw)
                data = out.getvalue()
            elif form in ("str", "Path"):
                _, e = call(save_performance_midi, arg, path if form == "str" else pathlib.Path(path), **kw)
                data = open(path, "rb").read() if (not e and os.path.exists(path)) else b""
            elif form == "fileobj":
                with open(path, "wb") as fh:
                    _, e = call(save_performance_midi, arg, fh, **kw)
                data = open(path, "rb").read()
            else:
                returned, e = call(save_performance_midi, arg, None, **kw)
                data = b""
                if not e and returned is not None:
                    b2 = io.BytesIO()
                    returned.save(file=b2)
                    data = b2.getvalue()
            if d.get("bad"):
                texts.append("err" if isinstance(e, ValueError) else ("err:" + type(e).__name__ if e else "no-error"))
                done.append("save %d" % oi)
                continue
            if e:
                texts.append("err")
                ev.oracle.append("history export: %s raised %r" % (where, e))
                break
            if form == "none" and returned is None:
                texts.append("err")
                ev.oracle.append("history export: %s returned None, documented: the MidiFile" % where)
                break
            # the reference: a fresh copy of the performance, saved once
            r2, e2 = call(make)
            ref = io.BytesIO()
            if not e2:
                _, e2 = call(save_performance_midi, r2[1], ref, **kw)
            mfw = mido.MidiFile(file=io.BytesIO(data))
            tracks = file_tracks(mfw)
            if ppq is None:
                # the resolution and tempo the file declares are the ones its ticks have to be judged by
                import inspect
                ppq = int(mfw.ticks_per_beat)
                tempi = [m[2] for tr in tracks for m in tr if m[1] == 4]
                mpq = tempi[0] if tempi else int(inspect.signature(save_performance_midi).parameters["mpq"].default)
                msave = bool(inspect.signature(save_performance_midi).parameters["merge_tracks_save"].default)
                ev.info["shist_default_options"] = ev.info.get("shist_default_options", 0) + 1
            if form == "none":
                texts.append(W.f_tuple(W.f_int(returned.type), W.f_list(fmt_track, file_tracks(returned))))
            else:
                texts.append(W.f_tuple(W.f_int(mfw.type), W.f_list(fmt_track, tracks)))
            if not e2 and ref.getvalue() != data:
                mfr = mido.MidiFile(file=io.BytesIO(ref.getvalue()))
                ev.oracle.append("history export: %s wrote %r..., saving a fresh copy of the same performance with the same options writes %r..."
                                 % (where, [t[:6] for t in tracks][:3], [t[:6] for t in file_tracks(mfr)][:3]))
            cfg = {"ppq": ppq, "mpq": mpq, "msave": msave, "mload": False, "bpm": 120, "kind": src["kind"]}
            n0 = len(ev.oracle)
            oracle_export(ev, cfg, view0, mfw, tracks)
            perf, e3 = call(load_performance_midi, mido.MidiFile(file=io.BytesIO(data)), default_bpm=120, merge_tracks=False)
            if e3:
                ev.oracle.append("history load: loading the file of %s raised %r" % (where, e3))
            else:
                oracle_roundtrip(ev, cfg, view0, perf)
            for j in range(n0, len(ev.oracle)):
                ev.oracle[j] = ev.oracle[j].split(":")[0] + ": [" + where + "]" + ev.oracle[j][len(ev.oracle[j].split(":")[0]) + 1:]
            if _arg_snapshot(pps) != snap0:
                ev.oracle.append("history argument: %s changed the performance it was given" % where)
                break
            done.append("save %d (%s, ppq=%r, mpq=%r, merge=%r)" % (oi, form, op[1], op[2], op[3]))
    finally:
        import shutil

        shutil.rmtree(tmpdir, ignore_errors=True)
    if len(texts) == len(d["ops"]):
        sreq = "saves %d %s %s" % (kindno, W.lst(part_req, view0), W.lst(lambda o: o, model_ops))
        ev.requests.append(sreq)
        ev.impl.append(W.f_list(lambda t: t, texts))
        ev.key = ("shist|" + sreq) if any(p["notes"] for p in view0) else None
    ev.info.update({"shist_saves": len(d["ops"]), "shist_bad_argument": int(bool(d.get("bad")))})
    for op in d["ops"]:
        ev.info["shist_out_" + op[0]] = ev.info.get("shist_out_" + op[0], 0) + 1
    return ev


def eval_iter(d):
    import mido
    from partitura.io.exportmidi import save_performance_midi

    ev = Eval()
    src = d["src"]
    r, e = call(build_parts, src)
    if e:
        return ev
    pps = r
    view0 = view_of(pps)
    items = list(pps) + ([42] if d.get("bad") else [])
    form = d["form"]
    if form == "gen":
        arg = (x for x in items)
    elif form == "iter":
        arg = iter(items)
    elif form == "map":
        arg = map(lambda x: x, items)
    else:
        arg = dict(enumerate(items)).values()  # an iterable that is no list and CAN be run through again
    oneshot = form != "values"
    texts, model_ops = [], []
    for oi, op in enumerate(d["ops"]):
        out_form, ppq, mpq, msave = op
        if ppq is None:
            kw = {}
            model_ops.append("1 0 0 0 %s" % W.b(out_form == "none"))
        else:
            kw = dict(mpq=mpq, ppq=ppq, merge_tracks_save=msave)
            model_ops.append("0 %d %d %s %s" % (ppq, mpq, W.b(msave), W.b(out_form == "none")))
        where = "save %d of one %s of %d performed parts (out=%s, options %r)" % (oi, {"gen": "generator", "iter": "iterator", "map": "map object", "values": "dict view"}[form], len(pps), out_form, kw)
        buf = io.BytesIO()
        returned, e = call(save_performance_midi, arg, None if out_form == "none" else buf, **kw)
        if d.get("bad") and (oi == 0 or not oneshot) and not isinstance(e, ValueError):
            # (an exhausted one-shot iterable no longer holds the foreign element: only its first call is judged)
            ev.oracle.append("iterable: %s with an element that is no PerformedPart: %s, documented: ValueError"
                             % (where, ("raised %r" % (e,)) if e else "no error"))
        if e:
            texts.append("err" if isinstance(e, ValueError) else "err:" + type(e).__name__)
            if not d.get("bad"):
                ev.oracle.append("iterable: %s raised %r" % (where, e))
            continue
        if out_form == "none":
            if returned is None:
                texts.append("err:None")
                ev.oracle.append("iterable: %s returned None, documented: the MidiFile" % where)
                continue
            texts.append(W.f_tuple(W.f_int(returned.type), W.f_list(fmt_track, file_tracks(returned))))
            b2 = io.BytesIO()
            returned.save(file=b2)
            data = b2.getvalue()
        else:
            data = buf.getvalue()
            mfw = mido.MidiFile(file=io.BytesIO(data))
            texts.append(W.f_tuple(W.f_int(mfw.type), W.f_list(fmt_track, file_tracks(mfw))))
        if (oi == 0 or not oneshot) and not d.get("bad"):
            # the same performance handed over as a list
            ref = io.BytesIO()
            _, e2 = call(save_performance_midi, list(build_parts(src)), ref, **kw)
            if not e2 and ref.getvalue() != data:
                got = file_tracks(mido.MidiFile(file=io.BytesIO(data)))
                exp = file_tracks(mido.MidiFile(file=io.BytesIO(ref.getvalue())))
                ev.oracle.append("iterable: %s wrote %d track(s) %r..., saving the list of the same parts writes %d track(s) %r..."
                                 % (where, len(got), [t[:5] for t in got][:3], len(exp), [t[:5] for t in exp][:3]))
    if len(texts) == len(d["ops"]):
        if oneshot:
            sreq = "isaves %s %s %s" % (W.b(bool(d.get("bad"))), W.lst(part_req, view0), W.lst(lambda o: o, model_ops))
        else:
            sreq = "saves %d %s %s" % (3 if d.get("bad") else 2, W.lst(part_req, view0), W.lst(lambda o: o, model_ops))
        ev.requests.append(sreq)
        ev.impl.append(W.f_list(lambda t: t, texts))
        ev.key = ("iter|" + form + "|" + sreq) if any(p["notes"] for p in view0) else None
    ev.info.update({"iter_saves": len(d["ops"]), "iter_form_" + form: 1, "iter_foreign_element": int(bool(d.get("bad")))})
    return ev


def eval_adj(d):
    from partitura.io.importmidi import adjust_time

    ev = Eval()
    tc = [tuple(x) for x in d["tc"]]
    is_sorted = all(a[0] <= b[0] for a, b in zip(tc, tc[1:]))
    prev = None
    for k in sorted(set(d["ticks"])):
        r, e = call(adjust_time, k, tc, d["ppq"])
        ev.requests.append("adj %d %d %s" % (k, d["ppq"], W.lst(lambda x: "%d %d" % x, tc)))
        ev.impl.append("err" if e else ("@approx", float(r), 1e-9))
        if e:
            ev.oracle.append("adjust_time raised %r" % (e,))
        elif is_sorted and tc[0][0] == 0:
            exp = ref_seconds(k, tc[1:], tc[0][1], d["ppq"])
            if not close(r, exp):
                ev.oracle.append("adjust: adjust_time(%d, %r, %d) = %r, the integral is %r" % (k, tc, d["ppq"], r, float(exp)))
            if prev is not None and r < prev - 1e-12 * max(1.0, abs(prev)):
                ev.oracle.append("adjust: adjust_time not monotone at tick %d: %r after %r (%r)" % (k, r, prev, tc))
            prev = r
    ev.key = "adj|" + "|".join(ev.requests)
    return ev


def evaluate(d):
    if d["k"] == "perf":
        return eval_perf(d)
    if d["k"] == "raw":
        return eval_raw(d)
    if d["k"] == "regen":
        return eval_regen(d)
    if d["k"] == "lhist":
        return eval_lhist(d)
    if d["k"] == "shist":
        return eval_shist(d)
    if d["k"] == "iter":
        return eval_iter(d)
    return eval_adj(d)


def finding_key(d, f):
    return d["k"] + ":" + f.split(":")[0]


def shrink(d):
    import copy

    if d["k"] == "perf":
        if len(d["parts"]) > 1 and d["kind"] != "PerformedPart":
            for i in range(len(d["parts"])):
                c = copy.deepcopy(d)
                del c["parts"][i]
                yield c
        for i, p in enumerate(d["parts"]):
            for key in ("notes", "controls", "programs", "keysigs", "timesigs", "metas"):
                if len(p[key]) > 1:
                    c = copy.deepcopy(d)
                    c["parts"][i][key] = p[key][: len(p[key]) // 2]
                    yield c
                    c = copy.deepcopy(d)
                    c["parts"][i][key] = p[key][len(p[key]) // 2:]
                    yield c
                for j in range(len(p[key])):
                    c = copy.deepcopy(d)
                    del c["parts"][i][key][j]
                    yield c
        for key in ("msave", "mload"):
            if d[key]:
                c = copy.deepcopy(d)
                c[key] = False
                yield c
    elif d["k"] == "raw":
        if len(d["tracks"]) > 1:
            for i in range(len(d["tracks"])):
                c = copy.deepcopy(d)
                del c["tracks"][i]
                yield c
        for i, tr in enumerate(d["tracks"]):
            for j in range(len(tr)):
                c = copy.deepcopy(d)
                dt = c["tracks"][i][j][0]
                del c["tracks"][i][j]
                if j < len(c["tracks"][i]):
                    c["tracks"][i][j][0] += dt
                yield c
        if d["merge"]:
            c = copy.deepcopy(d)
            c["merge"] = False
            yield c
    elif d["k"] == "regen":
        if len(d["cycles"]) > 1:
            c = copy.deepcopy(d)
            c["cycles"] = c["cycles"][:-1]
            yield c
        for i, cy in enumerate(d["cycles"]):
            for key, val in (("via", "midi"), ("edit", ["none"]), ("merge", False), ("msave", False), ("kind", "Performance")):
                if cy[key] != val:
                    c = copy.deepcopy(d)
                    c["cycles"][i][key] = val
                    yield c
        if d["final"]["merge"]:
            c = copy.deepcopy(d)
            c["final"]["merge"] = False
            yield c
        for s2 in shrink(d["src"]):
            c = copy.deepcopy(d)
            c["src"] = s2
            yield c
    elif d["k"] in ("lhist", "shist", "iter"):
        if len(d["ops"]) > 1:
            for i in range(len(d["ops"])):
                c = copy.deepcopy(d)
                del c["ops"][i]
                yield c
        if d["k"] == "lhist":
            for i, op in enumerate(d["ops"]):
                if len(op) > 1 and op[1] != "obj":
                    c = copy.deepcopy(d)
                    c["ops"][i][1] = "obj"
                    yield c
                if op[0] == "P":
                    c = copy.deepcopy(d)
                    c["ops"][i] = ["L"] + op[1:4]
                    yield c
            if d["how"] != "parsed":
                c = copy.deepcopy(d)
                c["how"] = "parsed"
                yield c
        for s2 in shrink(d["src"]):
            c = copy.deepcopy(d)
            c["src"] = s2
            yield c
    else:
        for i in range(1, len(d["tc"])):
            c = copy.deepcopy(d)
            del c["tc"][i]
            yield c
        if len(d["ticks"]) > 1:
            for i in range(len(d["ticks"])):
                c = copy.deepcopy(d)
                del c["ticks"][i]
                yield c


def distribution(descs, results):
    from collections import Counter

    c = Counter(d["k"] for d in descs)
    c["perf_with_tick_fields"] = sum(1 for d in descs if d["k"] == "perf" and any(p.get("attr") for p in d["parts"]))
    kinds = Counter(d.get("kind") for d in descs if d["k"] == "perf")
    cfg = Counter((d["ppq"], d["mpq"], d["msave"], d["mload"]) for d in descs if d["k"] == "perf")
    info = Counter()
    for r in results:
        for k, v in (r.get("info") or {}).items():
            if isinstance(v, int):
                info[k] += v
    return {"by_kind": dict(c), "input_kind": dict(kinds), "configurations_seen": len(cfg),
            "notes_total": sum(len(p["notes"]) for d in descs if d["k"] == "perf" for p in d["parts"]),
            "info": dict(info)}
